#!/usr/bin/env python3
"""Development aid: print the exported tree of functions matching a substring.
usage: vdump.py FACTS_DIR func-substring [file-substring]"""
import sys, os, json
sys.path.insert(0, os.path.dirname(os.path.abspath(__file__)))
import vfacts
SKIP = ('k','i','b','o','t','ts','ch','args','obj','fn','body','c','th','el','decls','init','range','var','captures','params','cfg','rangestmt','beginstmt','endstmt','inc','loopvarstmt','sub','lhs','_p','_f','_role','lv','cd','pk','rc','sig','fi','condvar','_cfgobj')
def dump(u, n, ind=0, role=''):
    if n is None: return
    extra = {k: v for k, v in n.items() if k not in SKIP}
    t = u.tys(n)[:70] if 't' in n else ''
    print('%s%s%s #%d %s  «%s»' % ('  ' * ind, (role + ': ') if role else '', n['k'], n['i'], extra, t))
    if n['k'] == 'DeclStmt':
        for d in n.get('decls', []):
            print('%s  decl %s : %s %s' % ('  ' * ind, d['n'], u.tname(d['ts'])[:60], {k: d[k] for k in ('ref', 'scalar', 'hasinit') if k in d}))
            if vfacts.is_node(d.get('init')): dump(u, d['init'], ind + 2, 'init')
        return
    if n['k'] == 'CXXForRangeStmt':
        print('%s  var %s : %s' % ('  ' * ind, n['var']['n'], u.tname(n['var']['ts'])[:60]))
    if n['k'] == 'LambdaExpr':
        print('%s  captures %s' % ('  ' * ind, [(c.get('n', 'this'), 'ref' if c.get('byref') else 'copy') for c in n.get('captures', [])]))
    for r, c in vfacts.children(n):
        dump(u, c, ind + 1, r if r not in ('ch', 'args') else '')
d, sub = sys.argv[1], sys.argv[2]
fsub = sys.argv[3] if len(sys.argv) > 3 else ''
seen = set()
for p in sorted(os.listdir(d)):
    raw = open(os.path.join(d, p)).read()
    if sub.split('::')[-1] not in raw: continue
    u = vfacts.Unit(os.path.join(d, p))
    for f in u.functions:
        if sub in f.q and fsub in f.file and (f.file, f.line, f.sig) not in seen:
            seen.add((f.file, f.line, f.sig))
            print('=== %s  [%s]  %s:%d  unit=%s' % (f.q, f.sig[:120], f.file, f.line, os.path.basename(u.unit)))
            print('params', [(p_['n'], u.tname(p_['ts'])[:50]) for p_ in f.params])
            for i in f.d.get('inits', []):
                print(' init', i.get('n', i.get('base')), 'written' if i.get('written') else '')
                if vfacts.is_node(i.get('init')): dump(u, i['init'], 2)
            dump(u, f.body)
