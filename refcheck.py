#!/usr/bin/env python3
"""Development aid: negative regression of ALL rules against behaviour-preserving patches, one export per patch.
   refcheck.py <patch.diff | dir with patch.diff> ...   — prints violations (known findings filtered), floor misses, lost anchors."""
import sys, os, tempfile, shutil, subprocess
sys.path.insert(0, os.path.dirname(os.path.abspath(__file__)))
import selftest, vcheck
import rules as R
ALL = sorted({x for v in R.PROPS.values() for x in v})
known = vcheck.load_known()
rc = 0
for arg in sys.argv[1:]:
    pf = arg if arg.endswith('.diff') else os.path.join(arg, 'patch.diff')
    sc = tempfile.mkdtemp(prefix='refcheck-')
    try:
        root = os.path.join(sc, 'repo')
        selftest.copy_tree('/repo', root)
        r = subprocess.run(['patch', '-p1', '-s', '-d', root, '-i', os.path.abspath(pf)], capture_output=True, text=True)
        if r.returncode:
            print(arg, 'PATCH FAILED', r.stdout[:200]); rc = 3; continue
        try:
            recs, _ = vcheck.run_rules(root, ALL, 'quick', os.path.join(sc, 'w'))
        except vcheck.Broken as ex:
            print(arg, 'BROKEN', str(ex)[:300]); rc = 2; continue
        sites = vcheck.merge(recs)
        bad, resolved, anchors = [], {}, {}
        for rec in sites:
            if rec['kind'] in ('ok', 'violation'):
                resolved[rec['rule']] = resolved.get(rec['rule'], 0) + 1
            if rec['kind'] == 'anchor':
                anchors.setdefault(rec['rule'], set()).add(rec['construct'])
            if rec['kind'] == 'violation' and not any(vcheck.match_known(rec, p, known) for p in R.PROPS):
                bad.append('%s %s:%d %s | %s' % (rec['rule'], rec['file'], rec['line'], rec['construct'][:60], rec['detail'][:120]))
        for rn in ALL:
            mod = R.get(rn)
            if resolved.get(rn, 0) < getattr(mod, 'FLOOR', 1):
                bad.append('%s floor (%d < %d)' % (rn, resolved.get(rn, 0), getattr(mod, 'FLOOR', 1)))
            for a in getattr(mod, 'ANCHORS', []):
                if a not in anchors.get(rn, set()):
                    bad.append('%s anchor %s lost' % (rn, a))
        print(arg, 'SILENT' if not bad else 'ALARM')
        for b in bad:
            print('    ', b); rc = rc or 1
    finally:
        shutil.rmtree(sc, ignore_errors=True)
sys.exit(rc)
