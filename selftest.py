"""Self-test of the rules (thorough tier): seeded single-instance edits applied to a scratch copy of
/repo/{src,include,cli,unit_tests}; the edited tree is re-exported (so it is known to parse) and the
rule must report the named instance. Nothing is executed; the scratch copy is removed by the caller.

selftest/edits.json: [{"id", "rule", "file", "find", "replace", "expect_func", "expect_construct"}]
An edit whose `find` text is absent from the current tree is skipped (the code under analysis has
changed there) — only an edit that applies, parses and is NOT reported makes the rule broken."""
import json
import os
import shutil

HERE = os.path.dirname(os.path.abspath(__file__))


def load_edits(rule_names):
    p = os.path.join(HERE, 'selftest', 'edits.json')
    if not os.path.exists(p):
        return []
    with open(p) as f:
        edits = json.load(f)
    return [e for e in edits if e['rule'] in rule_names]


def batches(edits):
    """edits touching the same file go to different batches (keeps reports attributable)"""
    out = []
    for e in edits:
        for b in out:
            if all(x['file'] != e['file'] for x in b):
                b.append(e)
                break
        else:
            out.append([e])
    return out


def copy_tree(repo, root):
    os.makedirs(root)
    for sub in ('src', 'include', 'cli', 'unit_tests', 'tests', 'cmake', 'python_interface', 'examples'):
        s = os.path.join(repo, sub)
        if os.path.isdir(s):
            shutil.copytree(s, os.path.join(root, sub), ignore=shutil.ignore_patterns('aut_timbuk_smaller', 'fa_timbuk_armc', 'random_difficult_cases'))
    for f in ('CMakeLists.txt', 'Doxyfile.in', 'COPYING', 'README.md'):
        if os.path.exists(os.path.join(repo, f)):
            shutil.copy(os.path.join(repo, f), os.path.join(root, f))


def run_seeded(prop, rule_names, scratch, repo='/repo'):
    """Regression of the checker against the independently written breaking changes kept under
    seeded/: every patch recorded as detected for this property is applied to a scratch copy and the
    property's rules must report a violation there. A patch that no longer applies (the code under
    analysis changed) is skipped."""
    import subprocess
    import vcheck
    import rules as R
    import re
    res_path = os.path.join(HERE, 'seeded', 'RESULTS.json')
    summary = {'seeds': 0, 'applied': 0, 'detected': 0, 'skipped': [], 'missed': []}
    broken = []
    if not os.path.exists(res_path):
        return summary, broken
    with open(res_path) as f:
        results = json.load(f)
    known = vcheck.load_known()
    for sid in sorted(results):
        x = results[sid]
        if x['property'] != prop or not x.get('detected'):
            continue
        summary['seeds'] += 1
        root = os.path.join(scratch, 'seed-' + sid, 'repo')
        copy_tree(repo, root)
        r = subprocess.run(['patch', '-p1', '-s', '-d', root, '-i', os.path.join(HERE, 'seeded', sid, 'patch.diff')],
                           stdout=subprocess.PIPE, stderr=subprocess.STDOUT, text=True)
        if r.returncode != 0:
            summary['skipped'].append(sid + ' (patch does not apply)')
            shutil.rmtree(os.path.join(scratch, 'seed-' + sid), ignore_errors=True)
            continue
        summary['applied'] += 1
        sub = os.path.join(scratch, 'seed-' + sid, 'work')
        os.makedirs(sub)
        try:
            records, _ = vcheck.run_rules(root, rule_names, 'quick', sub)
        except vcheck.Broken as ex:
            broken.append('seeded change %s does not analyse: %s' % (sid, str(ex)[:200]))
            continue
        hit = False
        for rec in vcheck.merge(records):
            if rec['kind'] != 'violation':
                continue
            if not R.attributed(prop, rec):
                continue
            if vcheck.match_known(rec, prop, known):
                continue
            hit = True
        if hit:
            summary['detected'] += 1
        else:
            summary['missed'].append(sid)
            broken.append('the rules of %s no longer report the seeded breaking change %s' % (prop, sid))
        shutil.rmtree(os.path.join(scratch, 'seed-' + sid), ignore_errors=True)
    return summary, broken


def run_refactors(prop, rule_names, scratch, repo='/repo', site_files=None):
    """Negative regression: with any of the behaviour-preserving refactorings under refactor/ applied to a
    scratch copy, the property's rules report no violation and lose no floor/anchor."""
    import subprocess
    import re
    import vcheck
    import rules as R
    summary = {'patches': 0, 'applied': 0, 'silent': 0, 'skipped': [], 'alarmed': [], 'not_touching_any_site_file': 0}
    broken = []
    rdir = os.path.join(HERE, 'refactor')
    if not os.path.isdir(rdir):
        return summary, broken
    known = vcheck.load_known()
    for pid in sorted(os.listdir(rdir)):
        pf = os.path.join(rdir, pid, 'patch.diff')
        if not os.path.exists(pf):
            continue
        summary['patches'] += 1
        if site_files is not None:
            # a patch can only change the verdict at sites in the files it edits: skip patches that touch no file in
            # which this property's rules have a site on the current tree (all record kinds, before attribution)
            touched = set()
            with open(pf) as f_:
                for line in f_:
                    if line.startswith('+++ b/'):
                        touched.add(line[6:].strip())
            if not any(t == sf or sf.endswith('/' + t) or t.endswith(sf) for t in touched for sf in site_files):
                summary['not_touching_any_site_file'] += 1
                continue
        root = os.path.join(scratch, 'refac-' + pid, 'repo')
        copy_tree(repo, root)
        r = subprocess.run(['patch', '-p1', '-s', '-d', root, '-i', pf], stdout=subprocess.PIPE, stderr=subprocess.STDOUT, text=True)
        if r.returncode != 0:
            summary['skipped'].append(pid + ' (patch does not apply)')
            shutil.rmtree(os.path.join(scratch, 'refac-' + pid), ignore_errors=True)
            continue
        summary['applied'] += 1
        sub = os.path.join(scratch, 'refac-' + pid, 'work')
        os.makedirs(sub)
        try:
            records, _ = vcheck.run_rules(root, rule_names, 'quick', sub)
        except vcheck.Broken as ex:
            broken.append('refactoring %s does not analyse: %s' % (pid, str(ex)[:200]))
            continue
        sites = vcheck.merge(records)
        bad = []
        resolved = {}
        anchors = {}
        for rec in sites:
            if rec['kind'] in ('ok', 'violation'):
                resolved[rec['rule']] = resolved.get(rec['rule'], 0) + 1
            if rec['kind'] == 'anchor':
                anchors.setdefault(rec['rule'], set()).add(rec['construct'])
            if rec['kind'] != 'violation':
                continue
            if not R.attributed(prop, rec):
                continue
            if vcheck.match_known(rec, prop, known):
                continue
            bad.append('%s %s:%d %s' % (rec['rule'], rec['file'], rec['line'], rec['construct'][:60]))
        for rn in rule_names:
            mod = R.get(rn)
            if resolved.get(rn, 0) < getattr(mod, 'FLOOR', 1):
                bad.append('%s floor (%d < %d)' % (rn, resolved.get(rn, 0), getattr(mod, 'FLOOR', 1)))
            for a in getattr(mod, 'ANCHORS', []):
                if a not in anchors.get(rn, set()):
                    bad.append('%s anchor %s lost' % (rn, a))
        if bad:
            summary['alarmed'].append({pid: bad[:4]})
            broken.append('false alarm on the behaviour-preserving refactoring %s: %s' % (pid, '; '.join(bad[:3])))
        else:
            summary['silent'] += 1
        shutil.rmtree(os.path.join(scratch, 'refac-' + pid), ignore_errors=True)
    return summary, broken


def run(rule_names, scratch, repo='/repo'):
    import vcheck
    edits = load_edits(rule_names)
    summary = {'edits': len(edits), 'applied': 0, 'detected': 0, 'skipped': [], 'missed': []}
    broken = []
    if not edits:
        return summary, broken
    for bi, batch in enumerate(batches(edits)):
        root = os.path.join(scratch, 'st%d' % bi, 'repo')
        os.makedirs(root)
        for sub in ('src', 'include', 'cli', 'unit_tests', 'tests', 'cmake', 'python_interface', 'examples'):
            s = os.path.join(repo, sub)
            if os.path.isdir(s):
                shutil.copytree(s, os.path.join(root, sub), ignore=shutil.ignore_patterns('aut_timbuk_smaller', 'fa_timbuk_armc', 'random_difficult_cases'))
        for f in ('CMakeLists.txt', 'Doxyfile.in', 'COPYING', 'README.md'):
            if os.path.exists(os.path.join(repo, f)):
                shutil.copy(os.path.join(repo, f), os.path.join(root, f))
        applied = []
        for e in batch:
            p = os.path.join(root, e['file'])
            try:
                src = open(p).read()
            except OSError:
                summary['skipped'].append(e['id'] + ' (file missing)')
                continue
            if src.count(e['find']) != 1:
                summary['skipped'].append(e['id'] + ' (anchor text occurs %d times)' % src.count(e['find']))
                continue
            open(p, 'w').write(src.replace(e['find'], e['replace']))
            applied.append(e)
        if not applied:
            continue
        sub = os.path.join(scratch, 'st%d' % bi, 'work')
        os.makedirs(sub)
        rules_needed = sorted({e['rule'] for e in applied})
        try:
            records, _ = vcheck.run_rules(root, rules_needed, 'quick', sub)
        except vcheck.Broken as ex:
            broken.append('selftest batch %d does not analyse: %s' % (bi, str(ex)[:300]))
            continue
        finally:
            pass
        sites = [r for r in vcheck.merge(records) if r['kind'] == 'violation']
        for e in applied:
            summary['applied'] += 1
            hit = [r for r in sites if r['rule'] == e['rule'] and r['file'] == e['file']
                   and e.get('expect_func', '') in r['func'] and e.get('expect_construct', '') in (r['construct'] + ' ' + r['detail'])]
            if hit:
                summary['detected'] += 1
            else:
                summary['missed'].append(e['id'])
                broken.append('rule %s fails its self-test %s (seeded edit in %s not reported)' % (e['rule'], e['id'], e['file']))
        shutil.rmtree(os.path.join(scratch, 'st%d' % bi), ignore_errors=True)
    return summary, broken
