#!/bin/bash
# usage: confirm.sh <seedroot> <wtroot> <prop-dir> <import-as-prop> <n1:as1> [<n2:as2>]   — verify then import
R=$1; W=$2; P=$3; AS=$4; shift 4
for pair in "$@"; do n=${pair%%:*}; a=${pair##*:}
  bash /verif/seedkit/verify_seed.sh $R $W $P $n; tail -1 $R/$P/$n/verify.log
  if [ "$P" != "$AS" ]; then mkdir -p $R/$AS; rm -rf $R/$AS/$n.tmp; cp -r $R/$P/$n $R/$AS/x$a; (cd /verif && python3 seedtool.py import $AS x$a $R $a)
  else (cd /verif && python3 seedtool.py import $AS $n $R $a); fi
done
