#!/bin/bash
# usage: verify_seed.sh <seedroot> <wtroot> <prop> <n>
# confirms a delivered seed in its worktree: patch applies, builds, tests same as baseline, demo fails with / passes without
R=$1; W=$2; P=$3; N=$4; WT=$W/$P; S=$R/$P/$N; LOG=$S/verify.log
exec > $LOG 2>&1
set -x
cd $WT && git checkout -- . && git status --short | grep -v _build
git apply $S/patch.diff || { echo "RESULT apply-failed"; exit 1; }
cmake --build _build -j8 2>&1 | tail -3
[ ${PIPESTATUS[0]} -eq 0 ] || { echo "RESULT build-failed"; git checkout -- .; exit 1; }
ctest --test-dir _build -j4 --timeout 900 2>&1 | tail -12 > $S/ctest_patched.txt
cat $S/ctest_patched.txt
(cd _build/unit_tests && ./bdd_bu_tree_aut_test 2>&1 | grep -c "fatal error\|error:" ) > $S/bu_fail_count.txt
cat $S/bu_fail_count.txt
bash $S/run.sh $WT > $S/demo_patched.out 2>&1; DP=$?
git checkout -- .
cmake --build _build -j8 2>&1 | tail -1
bash $S/run.sh $WT > $S/demo_clean.out 2>&1; DC=$?
PASSED=$(grep -o "[0-9]*% tests passed" $S/ctest_patched.txt)
echo "RESULT demo_patched_exit=$DP demo_clean_exit=$DC ctest='$PASSED' bu_errors=$(cat $S/bu_fail_count.txt)"
