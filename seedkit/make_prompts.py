#!/usr/bin/env python3
"""make_prompts.py <seedroot> <wtroot> [prop ...] — writes <seedroot>/<P>.prompt.txt for the bug-injection sub-agents.
The prompt holds only the property text (+ scope) and one-line summaries of the changes already used for it, so that new
ones use different mechanisms. Nothing about the checks is disclosed. Not part of any registered check."""
import json, os, sys
HERE = os.path.dirname(os.path.abspath(__file__))
V = os.path.dirname(HERE)
root, wt = sys.argv[1], sys.argv[2]
props = {}
for l in open(os.path.join(V, 'properties.jsonl')):
    d = json.loads(l); props[d['id']] = d
want = sys.argv[3:] or sorted(props)
tmpl = open(os.path.join(HERE, 'PROMPT.tmpl')).read()
for pid in want:
    d = props[pid]
    used = []
    for sid in sorted(os.listdir(os.path.join(V, 'seeded'))):
        mf = os.path.join(V, 'seeded', sid, 'meta.json')
        if not os.path.exists(mf):
            continue
        m = json.load(open(mf))
        if m.get('property') == pid or sid.startswith(pid + '-'):
            used.append('  - files %s: %s' % (', '.join(m.get('files', [])), m['summary'][:300].replace('\n', ' ')))
    text = d['title'] + '\n\n' + d['statement'] + '\n\n(Scope: ' + d['quantifier']['text'] + ')'
    s = tmpl.replace('@WT@', '%s/%s' % (wt, pid)).replace('@OUT@', '%s/%s' % (root, pid)).replace('@ID@', pid).replace('@PROP@', text).replace('@USED@', '\n'.join(used) or '  (none yet)')
    os.makedirs(root, exist_ok=True)
    open('%s/%s.prompt.txt' % (root, pid), 'w').write(s)
    print(pid, len(s))
