import random, subprocess, sys
sys.path.insert(0,'.')
from nfa_fuzz import gen, dump, incl
rng=random.Random(5); bad=[0,0,0]; ex=[None]*3
N=600
for it in range(N):
    a=gen(rng,'p'); b=gen(rng,'q')
    dump(a,'m1.txt'); dump(b,'m2.txt')
    exp='1' if incl(a,b) else '0'
    out=subprocess.run(['./facongr','m1.txt','m2.txt'],capture_output=True,text=True).stdout.strip()
    for i in range(3):
        if len(out)!=3 or out[i]!=exp:
            bad[i]+=1
            if ex[i] is None or len(str(ex[i]))>len(str((a,b))): ex[i]=(a,b,exp,out)
print('API direct (overlapping numbering): mismatches antichain/congr-depth/congr-breadth:',bad,'of',N)
for e in ex: print(e)
