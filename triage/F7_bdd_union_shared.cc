#include <vata/bdd_bu_tree_aut.hh>
#include <vata/bdd_td_tree_aut.hh>
#include <vata/parsing/timbuk_parser.hh>
#include <vata/serialization/timbuk_serializer.hh>
#include <iostream>
const char* autStr =
	"Ops           a:0 b:2\n"
	"Automaton     aut\n"
	"States        q0 q1\n"
	"Final States  q1\n"
	"Transitions\n"
	"a          -> q0\n"
	"b(q0, q0)  -> q1\n";
template <class Aut> void go(const char* name){
	VATA::Parsing::TimbukParser parser; VATA::Serialization::TimbukSerializer ser;
	VATA::AutBase::StateDict sd;
	Aut A; A.LoadFromString(parser, autStr, sd);
	Aut B(A);               // shares the transition table
	B.SetStateFinal(sd.TranslateFwd("q0"));   // now L(B) = L(A) + {a}
	Aut U = Aut::Union(A, B);
	Aut U2 = Aut::UnionDisjointStates(A, B);
	std::cout << name << "\n B:\n" << B.DumpToString(ser, sd) << " Union(A,B):\n" << U.DumpToString(ser, sd) << " UnionDisj(A,B):\n" << U2.DumpToString(ser, sd);
	std::cout << " A after:\n" << A.DumpToString(ser, sd);
}
int main(){ go<VATA::BDDBottomUpTreeAut>("BU"); go<VATA::BDDTopDownTreeAut>("TD"); }
