import sys, random, itertools
from ta import *
seed=int(sys.argv[1]); N=int(sys.argv[2]); enc=sys.argv[3] if len(sys.argv)>3 else 'expl'
rng=random.Random(seed); bad={}
def note(k,info):
    bad.setdefault(k,[]).append(info)
def union_lang(a,b,c):  # c == a u b ?
    R=det([a,b,c]); fa,fb,fc=set(a[1]),set(b[1]),set(c[1])
    return all(bool((x&fa) or (y&fb))==bool(z&fc) for x,y,z in R)
def isect_lang(a,b,c):
    R=det([a,b,c]); fa,fb,fc=set(a[1]),set(b[1]),set(c[1])
    return all(bool((x&fa) and (y&fb))==bool(z&fc) for x,y,z in R)
def compl_lang(a,c):
    R=det([a,c]); fa,fc=set(a[1]),set(c[1])
    return all(bool(x&fa)!=bool(z&fc) for x,z in R)
for it in range(N):
    a=gen(rng,'p'); b=gen(rng,'q'); dump(a,'A.txt'); dump(b,'B.txt')
    o,e,rc=vata('-r',enc,'union','A.txt','B.txt')
    if rc or not union_lang(a,b,parse(o)): note('union',(a,b,o,e))
    o,e,rc=vata('-r',enc,'isect','A.txt','B.txt')
    if rc or not isect_lang(a,b,parse(o)): note('isect',(a,b,o,e))
    for fl in ['-p','-s']:
        o,e,rc=vata('-r',enc,fl,'load','A.txt'); c=parse(o)
        if rc or rel(a,c)!=(True,True): note('load'+fl,(a,o,e))
    if enc=='expl':
        o,e,rc=vata('-r',enc,'red','A.txt'); c=parse(o)
        if rc or rel(a,c)!=(True,True) or len(c[0])>len(a[0]) or len(c[2])>len(a[2]): note('red',(a,o,e))
        o,e,rc=vata('-r',enc,'witness','A.txt'); c=parse(o)
        ab,ba=rel(c,a); empt_a = not any(x&set(a[1]) for (x,) in det([a])); empt_c = not any(x&set(c[1]) for (x,) in det([c]))
        if rc or not ab or (empt_c and not empt_a): note('witness',(a,o,e))
        o,e,rc=vata('-r',enc,'cmpl','A.txt'); c=parse(o)
        if rc or not compl_lang(a,c): note('cmpl',(a,o,e))
    exp='1' if rel(a,b)[0] else '0'
    if enc=='expl': opts=['dir=up','dir=down,rec=no','dir=down,rec=yes','dir=down,rec=yes,optC=yes','dir=up,sim=yes','dir=down,rec=no,sim=yes','dir=down,rec=yes,sim=yes','dir=down,rec=yes,optC=yes,sim=yes']
    elif enc=='bdd-td': opts=['dir=down,rec=yes','dir=down,rec=yes,optC=yes','dir=down,rec=yes,sim=yes','dir=down,rec=yes,optC=yes,sim=yes']
    else: opts=['dir=up','dir=down,rec=yes,sim=yes']
    for op in opts:
        o,e,rc=vata('-r',enc,'-o',op,'incl','A.txt','B.txt')
        got=o.strip().split('\n')[-1] if o.strip() else 'ERR'
        if got!=exp: note('incl '+op,(a,b,exp,got,e[:100]))
for k,l in sorted(bad.items()):
    s=min(l,key=lambda t:len(str(t)))
    print(f'## {k}: {len(l)}/{N}\n   smallest: {s}')
print('done',enc,N)
