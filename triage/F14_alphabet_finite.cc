#include <vata/explicit_finite_aut.hh>
#include <vata/parsing/timbuk_parser.hh>
#include <vata/serialization/timbuk_serializer.hh>
#include <iostream>
using namespace VATA;
int main(){
  Parsing::TimbukParser parser; Serialization::TimbukSerializer ser;
  { ExplicitFiniteAut g; AutBase::StateDict sd; g.LoadFromString(parser, "Ops x:0 y:1 z:1\nAutomaton G\nStates p\nFinal States p\nTransitions\nx -> p\ny(p) -> p\nz(p) -> p\n", sd); }
  ExplicitFiniteAut a;
  a.GetAlphabet() = ExplicitFiniteAut::AlphabetType(new ExplicitFiniteAut::OnTheFlyAlphabet);
  AutBase::StateDict sd;
  a.LoadFromString(parser, "Ops s:0 a:1 b:1\nAutomaton A\nStates q r\nFinal States r\nTransitions\ns -> q\na(q) -> r\nb(r) -> r\n", sd);
  std::cout << "orig:\n" << a.DumpToString(ser, sd) << "\n";
  ExplicitFiniteAut u = a.RemoveUselessStates();
  try { std::cout << "useless:\n" << u.DumpToString(ser, sd) << "\n"; } catch (std::exception& e) { std::cout << "EXC " << e.what() << "\n"; }
  ExplicitFiniteAut r = a.Reverse();
  try { std::cout << "reverse:\n" << r.DumpToString(ser, sd) << "\n"; } catch (std::exception& e) { std::cout << "EXC " << e.what() << "\n"; }
  std::cout << (u.GetAlphabet() == a.GetAlphabet()) << (r.GetAlphabet() == a.GetAlphabet()) << "\n";
}
