#include "../../../repo/src/mtbdd/ondriks_mtbdd.hh"
#include "../../../repo/src/mtbdd/apply1func.hh"
#include "../../../repo/src/mtbdd/apply2func.hh"
#include "../../../repo/src/mtbdd/apply3func.hh"
#include <random>
#include <iostream>
#include <map>
#include <memory>
using namespace VATA; using namespace VATA::MTBDDPkg;
typedef OndriksMTBDD<int> M;
static const size_t NV=4;
struct Plus : Apply2Functor<Plus,int,int,int>{ int ApplyOperation(const int&a,const int&b){return a+b;} };
struct Mul3 : Apply3Functor<Mul3,int,int,int,int>{ int ApplyOperation(const int&a,const int&b,const int&c){return a*b-c;} };
struct Mod : Apply1Functor<Mod,int,int>{ int ApplyOperation(const int&a){return a%3;} };
typedef std::vector<int> Model; // value per assignment 0..2^NV-1
static std::string asg(unsigned x){ std::string s; for(size_t i=0;i<NV;++i) s+=((x>>i)&1)?'1':'0'; return s; }
static bool match(const std::string& pat, unsigned x){ for(size_t i=0;i<NV;++i){ if(pat[i]=='X') continue; if((pat[i]=='1')!=(((x>>i)&1)==1)) return false;} return true; }
int main(int argc,char**argv){
  std::mt19937 rng(argc>1?atoi(argv[1]):1); int bad=0;
  for(int round=0; round<300 && !bad; ++round){
    std::vector<std::unique_ptr<M>> live; std::vector<Model> model;
    for(int step=0; step<60 && !bad; ++step){
      int op=rng()%8;
      if(op<=1 || live.size()<2){ std::string pat; for(size_t i=0;i<NV;++i) pat+="01X"[rng()%3]; int v=rng()%4, d=rng()%3; live.emplace_back(new M(SymbolicVarAsgn(pat),v,d)); Model m(1<<NV); for(unsigned x=0;x<(1u<<NV);++x) m[x]=match(pat,x)?v:d; model.push_back(m); }
      else if(op==2){ size_t a=rng()%live.size(), b=rng()%live.size(); Plus p; live.emplace_back(new M(p(*live[a],*live[b]))); Model m(1<<NV); for(unsigned x=0;x<(1u<<NV);++x) m[x]=model[a][x]+model[b][x]; model.push_back(m); }
      else if(op==3){ size_t a=rng()%live.size(), b=rng()%live.size(), c=rng()%live.size(); Mul3 p; live.emplace_back(new M(p(*live[a],*live[b],*live[c]))); Model m(1<<NV); for(unsigned x=0;x<(1u<<NV);++x) m[x]=model[a][x]*model[b][x]-model[c][x]; model.push_back(m); }
      else if(op==4){ size_t a=rng()%live.size(); Mod p; live.emplace_back(new M(p(*live[a]))); Model m(1<<NV); for(unsigned x=0;x<(1u<<NV);++x) m[x]=model[a][x]%3; model.push_back(m); }
      else if(op==5){ size_t a=rng()%live.size(); live.erase(live.begin()+a); model.erase(model.begin()+a); }
      else if(op==6){ size_t a=rng()%live.size(), b=rng()%live.size(); *live[a] = *live[b]; model[a]=model[b]; }
      else { size_t a=rng()%live.size(); live.emplace_back(new M(*live[a])); model.push_back(model[a]); }
      // check all live
      for(size_t i=0;i<live.size();++i){ for(unsigned x=0;x<(1u<<NV);++x){ int g=live[i]->GetValue(SymbolicVarAsgn(asg(x))); if(g!=model[i][x]){ std::cout<<"VALUE MISMATCH round "<<round<<" step "<<step<<" op "<<op<<" i="<<i<<" x="<<asg(x)<<" got "<<g<<" exp "<<model[i][x]<<"\n"; bad++; break; } } if(bad) break; }
      for(size_t i=0;i<live.size()&&!bad;++i) for(size_t j=0;j<live.size();++j){ bool eq=(*live[i]==*live[j]); bool meq=(model[i]==model[j]); if(eq!=meq){ std::cout<<"CANON MISMATCH round "<<round<<" step "<<step<<" op "<<op<<" i="<<i<<" j="<<j<<" eq="<<eq<<" model="<<meq<<"\n"; bad++; break; } }
    }
  }
  std::cout<<"done bad="<<bad<<"\n";
}
