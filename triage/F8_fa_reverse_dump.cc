#include <vata/explicit_finite_aut.hh>
#include <vata/parsing/timbuk_parser.hh>
#include <vata/serialization/timbuk_serializer.hh>
#include <iostream>
const char* autStr =
	"Ops x:0 a:1\nAutomaton aut\nStates q0 q1\nFinal States q1\nTransitions\nx -> q0\na(q0) -> q1\n";
int main(){
	VATA::Parsing::TimbukParser parser; VATA::Serialization::TimbukSerializer ser;
	VATA::AutBase::StateDict sd;
	VATA::ExplicitFiniteAut A; A.LoadFromString(parser, autStr, sd);
	VATA::ExplicitFiniteAut R = A.Reverse();
	std::cout << R.DumpToString(ser, sd) << std::endl;
}
