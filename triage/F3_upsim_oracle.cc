#include <vata/explicit_tree_aut.hh>
#include <vata/sim_param.hh>
#include <iostream>
#include <map>
#include <set>
#include <random>
#include <algorithm>
using namespace VATA;
typedef std::vector<size_t> Tup;
struct Rule { Tup ch; int sym; size_t par; };
static std::set<std::pair<size_t,size_t>> upsim(const std::vector<Rule>& rules, const std::set<size_t>& fin, size_t n, const std::vector<size_t>& pm, ExplicitTreeAut::AlphabetType& alpha){
  ExplicitTreeAut aut; aut.SetAlphabet(alpha);
  auto tr = alpha->GetSymbolTransl();
  const char* nm[] = {"a","b","f","g","h"};
  for (auto& r : rules){ Tup ch; for(auto c:r.ch) ch.push_back(pm[c]);
    aut.AddTransition(ch, (*tr)(ExplicitTreeAut::StringRank(nm[r.sym], ch.size())), pm[r.par]); }
  for (auto f: fin) aut.SetStateFinal(pm[f]);
  SimParam sp; sp.SetRelation(SimParam::e_sim_relation::TA_UPWARD); sp.SetNumStates(n);
  auto sim = aut.ComputeSimulation(sp);
  std::set<std::pair<size_t,size_t>> res;
  for (size_t a=0;a<n;++a) for(size_t b=0;b<n;++b) if (sim.get(pm[a],pm[b])) res.insert({a,b});
  return res;
}

static std::set<std::pair<size_t,size_t>> oracle(const std::vector<Rule>& rules, const std::set<size_t>& fin, size_t n){
  std::vector<std::vector<bool>> R(n,std::vector<bool>(n,true));
  for(size_t q=0;q<n;++q)for(size_t r=0;r<n;++r) if(fin.count(q)&&!fin.count(r)) R[q][r]=false;
  bool ch=true; while(ch){ch=false;
    for(size_t q=0;q<n;++q)for(size_t r=0;r<n;++r){ if(!R[q][r]) continue; bool ok=true;
      for(auto&t:rules){ for(size_t i=0;i<t.ch.size()&&ok;++i){ if(t.ch[i]!=q) continue; bool ans=false;
          for(auto&u:rules){ if(u.sym!=t.sym||u.ch.size()!=t.ch.size()||u.ch[i]!=r) continue; bool sib=true; for(size_t j=0;j<t.ch.size();++j) if(j!=i&&u.ch[j]!=t.ch[j]) sib=false; if(sib&&R[t.par][u.par]){ans=true;break;} }
          if(!ans) ok=false; } if(!ok) break; }
      if(!ok){R[q][r]=false;ch=true;} } }
  std::set<std::pair<size_t,size_t>> res; for(size_t q=0;q<n;++q)for(size_t r=0;r<n;++r) if(R[q][r]) res.insert({q,r}); return res; }
int main(){
  std::mt19937 rng(7);
  ExplicitTreeAut dummy; auto alpha = dummy.GetAlphabet();
  int bad=0, tried=0;
  for (int it=0; it<20000 && bad<3; ++it){
    size_t n = 3 + rng()%3;
    std::vector<Rule> rules; std::set<size_t> fin;
    int nr = 3 + rng()%6;
    int arity[] = {0,0,2,1,2};
    for (int k=0;k<nr;++k){ int s = rng()%5; Tup ch; for(int j=0;j<arity[s];++j) ch.push_back(rng()%n); rules.push_back({ch,s,rng()%n}); }
    for (size_t q=0;q<n;++q) if (rng()%3==0) fin.insert(q);
    // trim: compute useful states manually
    std::set<size_t> prod; bool ch=true; while(ch){ch=false; for(auto&r:rules){ if(prod.count(r.par)) continue; bool ok=true; for(auto c:r.ch) if(!prod.count(c)) ok=false; if(ok){prod.insert(r.par);ch=true;} }}
    std::vector<Rule> r2; for(auto&r:rules){bool ok=prod.count(r.par); for(auto c:r.ch) if(!prod.count(c)) ok=false; if(ok) r2.push_back(r);}
    std::set<size_t> reach; for(auto f:fin) if(prod.count(f)) reach.insert(f); ch=true; while(ch){ch=false; for(auto&r:r2) if(reach.count(r.par)) for(auto c:r.ch) if(reach.insert(c).second) ch=true;}
    std::vector<Rule> r3; for(auto&r:r2) if(reach.count(r.par)) r3.push_back(r);
    std::set<size_t> f3; for(auto f:fin) if(reach.count(f)) f3.insert(f);
    if (reach.size()<3) continue;
    // renumber densely
    std::map<size_t,size_t> dn; for(auto q:reach){ size_t k=dn.size(); dn[q]=k; }
    for(auto&r:r3){ r.par=dn[r.par]; for(auto&c:r.ch) c=dn[c]; }
    std::set<size_t> f4; for(auto f:f3) f4.insert(dn[f]);
    size_t m = dn.size();
    // every state must own a rule (true since productive)
    std::vector<size_t> id(m); for(size_t i=0;i<m;++i) id[i]=i;
    auto base = upsim(r3,f4,m,id,alpha); tried++; { auto orc=oracle(r3,f4,m); if(orc!=base){ bad++; std::cout<<"ORACLE MISMATCH states="<<m<<" finals:"; for(auto f:f4) std::cout<<" "<<f; std::cout<<"\n"; for(auto&r:r3){ std::cout<<"  s"<<r.sym<<"("; for(auto c:r.ch) std::cout<<c<<","; std::cout<<")->"<<r.par<<"\n"; } std::cout<<" lib:"; for(auto&e:base) if(e.first!=e.second) std::cout<<" "<<e.first<<"<="<<e.second; std::cout<<"\n orc:"; for(auto&e:orc) if(e.first!=e.second) std::cout<<" "<<e.first<<"<="<<e.second; std::cout<<"\n"; continue; } }
    for (int p=0;p<4;++p){ auto pm=id; std::shuffle(pm.begin(),pm.end(),rng); auto o = upsim(r3,f4,m,pm,alpha);
      if (o!=base){ bad++; std::cout<<"MISMATCH states="<<m<<" finals:"; for(auto f:f4) std::cout<<" "<<f; std::cout<<"\n"; for(auto&r:r3){ std::cout<<"  s"<<r.sym<<"("; for(auto c:r.ch) std::cout<<c<<","; std::cout<<")->"<<r.par<<"\n"; }
        std::cout<<" perm:"; for(auto x:pm) std::cout<<x; std::cout<<"\n id :"; for(auto&e:base) std::cout<<" "<<e.first<<"<="<<e.second; std::cout<<"\n prm:"; for(auto&e:o) std::cout<<" "<<e.first<<"<="<<e.second; std::cout<<"\n"; break; } }
  }
  std::cout<<"tried="<<tried<<" bad="<<bad<<"\n";
}
