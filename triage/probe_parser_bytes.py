import random, subprocess, sys
V='/repo/_build/cli/vata'
rng=random.Random(3)
toks=['Ops','Automaton','States','Final','Final States','Transitions','->','(',')',',',':','a','b','q0','q1','x:0','f:2','\n',' ','\t','a:','::','-> ','()','(,)','q0,q1','\x00','\xff','é','1','-1','99999999999999999999']
seed_doc="Ops a:0 f:2\nAutomaton A\nStates q0 q1\nFinal States q1\nTransitions\na -> q0\nf(q0,q0) -> q1\n"
bad=0; kinds={}
for it in range(1500):
    mode=rng.random()
    if mode<0.4:
        s=''.join(rng.choice(toks)+rng.choice([' ','','\n']) for _ in range(rng.randint(1,40)))
    elif mode<0.8:
        b=list(seed_doc)
        for _ in range(rng.randint(1,6)):
            i=rng.randrange(len(b)); op=rng.random()
            if op<0.3: del b[i]
            elif op<0.6: b.insert(i,rng.choice(toks))
            else: b[i]=rng.choice(toks)
        s=''.join(b)
    else:
        s=''.join(chr(rng.randrange(1,256)) for _ in range(rng.randint(0,80)))
    open('in.txt','w',encoding='latin-1',errors='replace').write(s)
    for enc in ['expl','bdd-bu','bdd-td','expl_fa']:
        try:
            r=subprocess.run([V,'-r',enc,'load','in.txt'],capture_output=True,timeout=20)
            rc=r.returncode
        except subprocess.TimeoutExpired:
            rc='TIMEOUT'
        if rc not in (0,1):
            bad+=1; kinds.setdefault((enc,rc),[]).append(s)
print('abnormal exits:',bad)
for k,l in kinds.items():
    print(k,len(l),repr(min(l,key=len))[:300])
