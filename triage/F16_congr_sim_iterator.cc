// F16 demo: NFA inclusion, congruence algorithm with a simulation relation (CONGR_DEPTH_SIM).
#include <vata/explicit_finite_aut.hh>
#include <vata/parsing/timbuk_parser.hh>
#include <vata/incl_param.hh>
#include <iostream>
#include <sstream>
using namespace VATA;
int main(){
  Parsing::TimbukParser parser;
  // smaller: x -> q0, a(q0) -> q1 (final).  bigger: N start states all going to a final state on a.
  const int N = 40;
  std::ostringstream B;
  B << "Ops x:0 a:1 b:1\nAutomaton B\nStates f\nFinal States f\nTransitions\nx -> s\na(s) -> p0\nb(p0) -> f\n";
  for (int i = 1; i < N; ++i) B << "x -> p" << i << "\nb(p" << i << ") -> f\n";
  ExplicitFiniteAut sm, bg;
  AutBase::StateDict sd1, sd2;
  sm.LoadFromString(parser, "Ops x:0 a:1 b:1\nAutomaton A\nStates q0 q1 q2\nFinal States q2\nTransitions\nx -> q0\na(q0) -> q1\nb(q1) -> q2\n", sd1);
  bg.LoadFromString(parser, B.str(), sd2);
  AutBase::StateType n = AutBase::SanitizeAutsForInclusion(sm, bg);
  // a valid simulation preorder on the union: every p_i simulates every p_j (same behaviour), identity elsewhere
  AutBase::StateDiscontBinaryRelation::DictType dict;   // state -> index
  for (size_t s = 0; s < n; ++s) dict.insert(std::make_pair(s, s));
  AutBase::StateBinaryRelation rel(n, false, n);
  for (size_t s = 0; s < n; ++s) rel.set(s, s, true);
  // every state of bigger that can only do b to the final state is simulated by every other such state
  {
    std::vector<size_t> bs;
    for (auto s : bg.GetStartStates()) bs.push_back(s);
    // p0 is not a start state: it is the only state besides s, f that is not initial; add all non-initial, non-final too
    for (size_t s = 0; s < n; ++s) for (size_t t = 0; t < n; ++t) if (s >= 3 && t >= 3) rel.set(s, t, true);
  }
  AutBase::StateDiscontBinaryRelation sim(rel, dict);
  ExplicitFiniteAut un = ExplicitFiniteAut::UnionDisjointStates(sm, bg);
  InclParam ip;
  ip.SetAlgorithm(InclParam::e_algorithm::congruences);
  ip.SetDirection(InclParam::e_direction::upward);
  ip.SetUseSimulation(true);
  ip.SetSearchOrder(InclParam::e_search_order::depth);
  ip.SetSimulation(&sim);
  bool r = ExplicitFiniteAut::CheckInclusion(un, bg, ip);
  std::cout << "included: " << r << "\n";
  return r ? 0 : 1;
}
