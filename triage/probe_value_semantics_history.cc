#include <vata/explicit_tree_aut.hh>
#include <random>
#include <iostream>
#include <set>
#include <map>
#include <memory>
using namespace VATA;
typedef std::vector<size_t> Tup;
struct Rule { Tup ch; size_t sym; size_t par; bool operator<(const Rule&o) const { return std::tie(par,sym,ch)<std::tie(o.par,o.sym,o.ch);} bool operator==(const Rule&o) const { return par==o.par&&sym==o.sym&&ch==o.ch; } };
struct Model { std::set<Rule> rules; std::set<size_t> fin; };
static int bad=0;
static void check(const ExplicitTreeAut& a, const Model& m, const char* where){
  std::multiset<Rule> seen; for (const auto& t : a){ seen.insert(Rule{t.GetChildren(), t.GetSymbol(), t.GetParent()}); }
  std::multiset<Rule> exp(m.rules.begin(), m.rules.end());
  if (seen!=exp){ std::cout<<"ITER MISMATCH at "<<where<<" seen="<<seen.size()<<" exp="<<exp.size()<<"\n"; bad++; return; }
  for (auto& r: m.rules) if(!a.ContainsTransition(r.ch,r.sym,r.par)){ std::cout<<"CONTAINS false-neg at "<<where<<"\n"; bad++; return; }
  std::set<size_t> f(a.GetFinalStates().begin(), a.GetFinalStates().end()); if(f!=m.fin){ std::cout<<"FINALS MISMATCH at "<<where<<"\n"; bad++; return; }
  std::multiset<Rule> acc; for (const auto& t : a.GetAcceptTrans()) acc.insert(Rule{t.GetChildren(), t.GetSymbol(), t.GetParent()});
  std::multiset<Rule> eacc; for(auto&r:m.rules) if(m.fin.count(r.par)) eacc.insert(r);
  if(acc!=eacc){ std::cout<<"ACCEPT MISMATCH at "<<where<<" got="<<acc.size()<<" exp="<<eacc.size()<<"\n"; bad++; return; }
  for(size_t q=0;q<5;++q){ std::multiset<Rule> d; for(const auto&t : a[q]) d.insert(Rule{t.GetChildren(),t.GetSymbol(),t.GetParent()}); std::multiset<Rule> ed; for(auto&r:m.rules) if(r.par==q) ed.insert(r); if(d!=ed){ std::cout<<"DOWN MISMATCH at "<<where<<" q="<<q<<"\n"; bad++; return; } }
  std::unordered_set<size_t> us=a.GetUsedStates(); std::set<size_t> u(us.begin(),us.end()), eu(m.fin.begin(),m.fin.end()); for(auto&r:m.rules){eu.insert(r.par); for(auto c:r.ch) eu.insert(c);} if(u!=eu){ std::cout<<"USED MISMATCH at "<<where<<"\n"; bad++; return; }
  ExplicitTreeAut& na=const_cast<ExplicitTreeAut&>(a); if(na.AreTransitionsEmpty()!=m.rules.empty()){ std::cout<<"EMPTY MISMATCH at "<<where<<"\n"; bad++; return; }
}
int main(int argc,char**argv){
  std::mt19937 rng(argc>1?atoi(argv[1]):1);
  ExplicitTreeAut dummy; auto alpha=dummy.GetAlphabet(); auto tr=alpha->GetSymbolTransl();
  size_t syms[3]={ (*tr)(ExplicitTreeAut::StringRank("a",0)), (*tr)(ExplicitTreeAut::StringRank("g",1)), (*tr)(ExplicitTreeAut::StringRank("f",2)) }; size_t ar[3]={0,1,2};
  for(int round=0; round<400 && !bad; ++round){
    std::vector<std::unique_ptr<ExplicitTreeAut>> live; std::vector<Model> model;
    live.emplace_back(new ExplicitTreeAut()); model.emplace_back();
    for(int step=0; step<50 && !bad; ++step){
      int op=rng()%12; size_t i=rng()%live.size();
      if(op<=3){ int s=rng()%3; Tup ch; for(size_t k=0;k<ar[s];++k) ch.push_back(rng()%5); size_t p=rng()%5; live[i]->AddTransition(ch,syms[s],p); model[i].rules.insert(Rule{ch,syms[s],p}); }
      else if(op==4){ size_t q=rng()%5; live[i]->SetStateFinal(q); model[i].fin.insert(q); }
      else if(op==5){ live.emplace_back(new ExplicitTreeAut(*live[i])); model.push_back(model[i]); }
      else if(op==6){ size_t j=rng()%live.size(); *live[i] = *live[j]; model[i]=model[j]; }
      else if(op==7 && live.size()>1){ live.erase(live.begin()+i); model.erase(model.begin()+i); }
      else if(op==8){ if(rng()%2){ live[i]->Clear(); model[i]=Model(); } else { live[i]->EraseFinalStates(); model[i].fin.clear(); } }
      else if(op==9){ // derived automaton shares storage; keep it and its model = language-agnostic: just check operand unchanged
        ExplicitTreeAut d = (rng()%2)? live[i]->RemoveUnreachableStates() : live[i]->RemoveUselessStates();
        // derived: rules subset of operand, record as model by reading it now, then later mutations of operand must not change it
        Model dm; for(const auto&t:d) dm.rules.insert(Rule{t.GetChildren(),t.GetSymbol(),t.GetParent()}); dm.fin.insert(d.GetFinalStates().begin(), d.GetFinalStates().end());
        live.emplace_back(new ExplicitTreeAut(d)); model.push_back(dm); }
      else if(op==10){ ExplicitTreeAut moved(std::move(*live[i])); live[i].reset(new ExplicitTreeAut(std::move(moved))); }
      else if(op==11){ std::set<size_t> s{rng()%5, rng()%5}; live[i]->SetStatesFinal(s); model[i].fin.insert(s.begin(),s.end()); }
      for(size_t k=0;k<live.size()&&!bad;++k) check(*live[k],model[k],("round "+std::to_string(round)+" step "+std::to_string(step)+" op "+std::to_string(op)+" handle "+std::to_string(k)).c_str());
    }
  }
  std::cout<<"done bad="<<bad<<"\n";
}
