import random, subprocess, itertools, sys, os
V='/repo/_build/cli/vata'
def gen(rng, pref):
    n=rng.randint(1,4); syms=['a','b']
    states=[f'{pref}{i}' for i in range(n)]
    starts=[s for s in states if rng.random()<0.4] or [states[0]]
    finals=[s for s in states if rng.random()<0.4]
    trans=set()
    for _ in range(rng.randint(0,7)):
        trans.add((rng.choice(states),rng.choice(syms),rng.choice(states)))
    return states,starts,finals,sorted(trans)
def dump(a,fn):
    states,starts,finals,trans=a
    with open(fn,'w') as f:
        f.write('Ops x:0 a:1 b:1\nAutomaton A\nStates '+' '.join(states)+'\nFinal States '+' '.join(finals)+'\nTransitions\n')
        for s in starts: f.write(f'x -> {s}\n')
        for (p,s,q) in trans: f.write(f'{s}({p}) -> {q}\n')
def incl(a,b):
    # L(a) subset L(b) ; product of a-state with b-subset
    sa,ia,fa,ta=a; sb,ib,fb,tb=b
    seen=set(); todo=[(p,frozenset(ib)) for p in ia]
    while todo:
        p,S=todo.pop()
        if (p,S) in seen: continue
        seen.add((p,S))
        if p in fa and not (S & set(fb)): return False
        for sym in 'ab':
            S2=frozenset(q for (x,s,q) in tb if s==sym and x in S)
            for (x,s,q) in ta:
                if x==p and s==sym: todo.append((q,S2))
    return True
def run(opts,f1,f2):
    r=subprocess.run([V,'-r','expl_fa','-o',opts,'incl',f1,f2],capture_output=True,text=True)
    out=r.stdout.strip().split('\n')[-1] if r.stdout.strip() else 'ERR:'+r.stderr.strip()[:80]
    return out
rng=random.Random(int(sys.argv[1]) if len(sys.argv)>1 else 1)
bad={}
N=int(sys.argv[2]) if len(sys.argv)>2 else 300
for it in range(N):
    a=gen(rng,'p'); b=gen(rng,'q')
    dump(a,'n1.txt'); dump(b,'n2.txt')
    exp='1' if incl(a,b) else '0'
    for o in ['alg=antichains','alg=congr,order=depth','alg=congr,order=breadth']:
        got=run(o,'n1.txt','n2.txt')
        if got!=exp:
            bad.setdefault(o,[]).append((a,b,exp,got))
for o,l in bad.items():
    print(o,len(l)); 
    a,b,exp,got=min(l,key=lambda t:len(t[0][3])+len(t[1][3])+len(t[0][0])+len(t[1][0])); print(' smallest:',a,b,'expected',exp,'got',got)
print('done',N)
