#include <vata/explicit_tree_aut.hh>
#include <vata/parsing/timbuk_parser.hh>
#include <vata/serialization/timbuk_serializer.hh>
#include <iostream>
using namespace VATA;
int main(){
  Parsing::TimbukParser parser; Serialization::TimbukSerializer ser;
  // pollute the global alphabet first
  { ExplicitTreeAut g; AutBase::StateDict sd; g.LoadFromString(parser, "Ops x:0 y:1\nAutomaton G\nStates p\nFinal States p\nTransitions\nx -> p\ny(p) -> p\n", sd); }
  ExplicitTreeAut a;
  ExplicitTreeAut::AlphabetType alph(new ExplicitTreeAut::OnTheFlyAlphabet);
  a.SetAlphabet(alph);
  AutBase::StateDict sd;
  a.LoadFromString(parser, "Ops a:0 f:2\nAutomaton A\nStates q r\nFinal States q\nTransitions\na -> q\nf(q,q) -> q\na -> r\n", sd);
  std::cout << "orig:\n" << a.DumpToString(ser, sd) << "\n";
  ExplicitTreeAut u = a.RemoveUselessStates();
  try { std::cout << "useless:\n" << u.DumpToString(ser, sd) << "\n"; } catch (std::exception& e) { std::cout << "EXC " << e.what() << "\n"; }
  ExplicitTreeAut r = a.RemoveUnreachableStates();
  try { std::cout << "unreach:\n" << r.DumpToString(ser, sd) << "\n"; } catch (std::exception& e) { std::cout << "EXC " << e.what() << "\n"; }
  ExplicitTreeAut i = ExplicitTreeAut::Intersection(a, a);
  try { std::cout << "isect:\n" << i.DumpToString(ser) << "\n"; } catch (std::exception& e) { std::cout << "EXC " << e.what() << "\n"; }
  std::cout << (u.GetAlphabet() == a.GetAlphabet()) << (r.GetAlphabet() == a.GetAlphabet()) << (i.GetAlphabet()==a.GetAlphabet()) << "\n";
}
