import random, subprocess, itertools, re, sys
V='/repo/_build/cli/vata'
SYMS={'a':0,'b':0,'g':1,'f':2}
def gen(rng,pref,maxn=4,maxr=7):
    n=rng.randint(1,maxn); st=[f'{pref}{i}' for i in range(n)]
    fin=[s for s in st if rng.random()<0.4]
    rules=set()
    for _ in range(rng.randint(1,maxr)):
        s=rng.choice(list(SYMS)); rules.add((s,tuple(rng.choice(st) for _ in range(SYMS[s])),rng.choice(st)))
    return (st,fin,sorted(rules))
def dump(a,fn):
    st,fin,rules=a
    with open(fn,'w') as f:
        f.write('Ops '+' '.join(f'{s}:{r}' for s,r in SYMS.items())+'\nAutomaton A\nStates '+' '.join(st)+'\nFinal States '+' '.join(fin)+'\nTransitions\n')
        for s,ch,p in rules:
            f.write((f'{s}({",".join(ch)})' if ch else s)+f' -> {p}\n')
def parse(txt):
    fin=[];rules=set();tr=False
    for l in txt.split('\n'):
        l=l.strip()
        if not l: continue
        if l.startswith('Final States'): fin=l.split()[2:]
        elif l=='Transitions': tr=True
        elif tr and '->' in l:
            lhs,p=[x.strip() for x in l.split('->')]
            m=re.match(r'^([^()]+)\((.*)\)$',lhs)
            if m: s=m.group(1).strip(); ch=tuple(x.strip() for x in m.group(2).split(',') if x.strip())
            else: s=lhs; ch=()
            rules.add((s,ch,p))
    st=sorted({p for _,_,p in rules}|{c for _,ch,_ in rules for c in ch}|set(fin))
    return (st,fin,sorted(rules))
def det(auts):
    """joint bottom-up subset construction over a list of automata; returns set of reachable tuples of frozensets"""
    reach=set(); changed=True
    syms={(s,len(ch)) for a in auts for s,ch,_ in a[2]}|set(SYMS.items())
    while changed:
        changed=False
        cur=list(reach)
        for (s,r) in syms:
            for combo in itertools.product(cur,repeat=r):
                res=[]
                for i,a in enumerate(auts):
                    res.append(frozenset(p for (s2,ch,p) in a[2] if s2==s and len(ch)==r and all(ch[j] in combo[j][i] for j in range(r))))
                t=tuple(res)
                if t not in reach: reach.add(t); changed=True
    return reach
def rel(a,b):
    """returns (a<=b, b<=a)"""
    R=det([a,b]); fa=set(a[1]); fb=set(b[1])
    ab=all(not (x&fa) or (y&fb) for x,y in R); ba=all(not (y&fb) or (x&fa) for x,y in R)
    return ab,ba
def vata(*args):
    r=subprocess.run([V]+list(args),capture_output=True,text=True,timeout=60)
    return r.stdout, r.stderr, r.returncode
