#include <vata/explicit_finite_aut.hh>
#include <vata/incl_param.hh>
#include <vata/parsing/timbuk_parser.hh>
#include <vata/serialization/timbuk_serializer.hh>
#include <iostream>
#include <fstream>
#include <sstream>
using namespace VATA;
static std::string slurp(const char* f){ std::ifstream i(f); std::stringstream s; s<<i.rdbuf(); return s.str(); }
int main(int argc,char**argv){
	Parsing::TimbukParser parser;
	AutBase::StateDict sd1, sd2;
	ExplicitFiniteAut A, B; A.LoadFromString(parser, slurp(argv[1]), sd1); B.LoadFromString(parser, slurp(argv[2]), sd2);
	for (int alg=0; alg<3; ++alg){
		InclParam ip;
		if (alg==0) ip.SetAlgorithm(InclParam::e_algorithm::antichains);
		else { ip.SetAlgorithm(InclParam::e_algorithm::congruences); ip.SetSearchOrder(alg==1?InclParam::e_search_order::depth:InclParam::e_search_order::breadth); }
		try { std::cout << ExplicitFiniteAut::CheckInclusion(A,B,ip); } catch (std::exception& e){ std::cout << "E"; }
	}
	std::cout << "\n";
}
