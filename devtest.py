#!/usr/bin/env python3
"""Development aid: run rules on a scratch copy of /repo with a patch applied.  devtest.py <patch.diff> RULE[,RULE...]"""
import sys, os, tempfile, shutil, subprocess
sys.path.insert(0, os.path.dirname(os.path.abspath(__file__)))
import selftest, vcheck
patch, rules_ = sys.argv[1], sys.argv[2].split(',')
sc = tempfile.mkdtemp(prefix='devtest-')
try:
    root = os.path.join(sc, 'repo')
    selftest.copy_tree('/repo', root)
    r = subprocess.run(['patch', '-p1', '-s', '-d', root, '-i', patch], capture_output=True, text=True)
    if r.returncode:
        print('patch failed', r.stdout[:300]); sys.exit(3)
    recs, _ = vcheck.run_rules(root, rules_, 'quick', os.path.join(sc, 'w'))
    sites = vcheck.merge(recs)
    cnt = {}
    known = vcheck.load_known()
    import rules as R
    for s in sites:
        if s['kind'] == 'violation' and any(vcheck.match_known(s, p_, known) for p_ in R.PROPS):
            s['kind'] = 'known'
        cnt[(s['rule'], s['kind'])] = cnt.get((s['rule'], s['kind']), 0) + 1
        if s['kind'] in ('violation', 'unknown'):
            print('%-9s %s %s:%d %s | %s | %s' % (s['kind'], s['rule'], s['file'], s['line'], s['func'][-40:], s['construct'][:80], s['detail'][:160]))
    print(sorted(cnt.items()))
finally:
    shutil.rmtree(sc, ignore_errors=True)
