"""WORKLIST — first visit implies enqueue, and only the enqueue depends on novelty
(C03, C15, C08, C10, C02).

Instance: every `if (V.insert(x).second)` (directly, or through a local holding the insert result)
in the automata sources. Obligations:
  (a) the success branch enqueues the same element into a work container W != V (push_back / push /
      insert), so that a newly reached element is always explored;
  (b) nothing else is recorded only on first visit: every other mutating call in the success branch
      targets W or V. (A rule that is recorded only when its parent state is new loses the state's
      other rules.) Frozen exception: the two GetCandidateTree functions, which by design keep one
      rule per newly reached state.
Forms whose failure branch only asserts (duplicate checks) are not instances."""
from vfacts import strip, walk, method_name, root_path, is_node, call_obj
from .prov import var_table

RULE = 'WORKLIST'
FLOOR = 18
EXC_B = {'GetCandidateTree': 'witness construction keeps one rule per newly reached state by design'}
ENQ = {'push_back', 'push', 'insert', 'emplace_back', 'push_front', 'emplace'}
PURE = {'std::make_pair', 'std::make_tuple', 'std::move', 'std::forward'}


def insert_call_of(fn, e):
    """the V.insert(...) call whose .second this expression reads, or None"""
    e = strip(e)
    if e is None or e['k'] != 'MemberExpr' or e['n'] != 'second':
        return None
    b = strip((e.get('ch') or [None])[0])
    if b is None:
        return None
    if b['k'] == 'CXXMemberCallExpr' and method_name(b) in ('insert', 'emplace'):
        return b, None
    if b['k'] == 'DeclRefExpr':
        v = var_table(fn).get(b['d'])
        if v and v['kind'] == 'local' and is_node(v['decl'].get('init')):
            i = strip(v['decl']['init'])
            if i is not None and i['k'] == 'CXXMemberCallExpr' and method_name(i) in ('insert', 'emplace'):
                return i, b['d']
    return None


def key_text(unit, ins):
    a = strip(ins['args'][0]) if ins.get('args') else None
    while a is not None and a['k'] == 'CallExpr' and a.get('q') == 'std::make_pair' and a.get('args'):
        a = strip(a['args'][0])
    return unit.text(a, 0) if a is not None else ''


def run(unit, em):
    for fn in unit.functions:
        f = fn.file
        if fn.body is None or not ('/src/' in f or '/cli/' in f) or '/mtbdd/' in f or '/util/' in f:
            continue
        for n in fn.walk():
            if n['k'] != 'IfStmt':
                continue
            c = strip(n['c'])
            neg = False
            if c is not None and c['k'] == 'UnaryOperator' and c.get('op') == '!':
                neg = True
                c = strip(c['ch'][0])
            r = insert_call_of(fn, c)
            if not r:
                continue
            ins, resvar = r
            succ = n.get('el') if neg else n.get('th')
            if succ is None:
                continue  # duplicate check: only the failure branch exists
            V = root_path(ins.get('obj'))
            key = key_text(unit, ins)
            enq = None
            others = []
            for m in walk(succ, lambdas=False):
                if m['k'] not in ('CXXMemberCallExpr', 'CXXOperatorCallExpr', 'CallExpr'):
                    continue
                if m.get('q') in PURE or m.get('const'):
                    continue
                o = call_obj(m)
                W = root_path(o) if o is not None else None
                mn = method_name(m)
                if m['k'] == 'CXXMemberCallExpr' and mn in ENQ and W is not None and W != V:
                    at = unit.text(m['args'][0], 0) if m.get('args') else ''
                    refs_res = resvar is not None and any(x['k'] == 'DeclRefExpr' and x.get('d') == resvar for a in m.get('args', []) for x in walk(a))
                    keyvars = {x.get('d') for x in walk(ins['args'][0]) if x['k'] == 'DeclRefExpr'} if ins.get('args') else set()
                    argvars = {x.get('d') for a in m.get('args', []) for x in walk(a) if x['k'] == 'DeclRefExpr'}
                    if not (keyvars & argvars) and ins.get('args'):
                        # the enqueued value and the inserted key derive from one another through locals
                        # (`state = dict.find(node)->second; if (seen.insert(state).second) stack.push(node);`)
                        from .prov import origins
                        ko = origins(fn, ins['args'][0])
                        ao = set()
                        for a in m.get('args', []):
                            ao |= origins(fn, a)
                        vt_ = var_table(fn)
                        loc = lambda s: {d for d in s if d in vt_ and vt_[d]['kind'] in ('local', 'rangevar')}
                        if (loc(ko) & argvars) or (loc(ao) & keyvars):
                            keyvars = keyvars | argvars
                    if enq is None and (key and key in at or at and at in key or refs_res or (keyvars & argvars)):
                        enq = (m, W)
                        continue
                if m['k'] == 'CXXMemberCallExpr' and not m.get('inrepo') and mn not in ENQ | {'erase', 'clear', 'pop_back', 'operator[]'}:
                    continue  # non-mutating std call
                if m['k'] == 'CXXOperatorCallExpr' and m.get('op') not in ('=', '[]', '+=', '<<'):
                    continue
                others.append((m, W))
            txt = unit.text(n['c'], 90)
            if enq is None:
                em.violation(n, txt, 'a newly inserted element %s is not enqueued into a work container on the success branch: it would never be explored' % key, 'enqueue')
                continue
            em.ok(n, txt, 'enqueued by ' + unit.text(enq[0], 50), 'enqueue')
            W = enq[1]
            extra = [(m, w) for m, w in others if w is None or (w != W and w != V)]
            fname = fn.q.split('::')[-1]
            if extra and fname in EXC_B:
                em.ok(n, txt, 'frozen exception (%s): %s' % (fname, EXC_B[fname]), 'novelty-only')
            elif extra:
                em.violation(n, txt, '%s happens only when %s is newly inserted; later occurrences (other rules of an already known state) are silently dropped' % (unit.text(extra[0][0], 60), key), 'novelty-only')
            else:
                em.ok(n, txt, 'only the enqueue depends on novelty', 'novelty-only')
