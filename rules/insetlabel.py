"""INSETLABEL — per-block label data is touched only for labels in that block's inset (C04, C05, C20).

The LTS simulation engine keeps, per partition block B, a counter row and a pending remove list for every
label that enters B (`B->inset_`), and queues work items (B, a).  Everything indexed by a label of B is
allocated / meaningful only for a in inset(B): counter rows are sized from the inset's labels, a queued
(B, a) is later dereferenced as `B->remove_[a]` without a null test.

Instance: every pairing of a block expression B with a label variable a in
  `B->remove_[a] = <non-null>`, `B->counter_.set/decr/incr(a, ..)`, `enqueueToRemove(B, a, ..)`,
  `queue_.push_back(std::make_pair(B, a))`.
Obligation: evidence that a is in inset(B): a is the variable of a range-for over `B->inset_` /
`B->inset()`, or a guard `B->inset_.contains(a)` holds at the site, or B and a are both parameters of the
function (the pairing was made by the caller / popped from the queue).

Clause `whole`: `X->states_` of a block X received as a *parameter* is read only before the first call that can
restructure blocks (a function that transitively assigns Block::states_, e.g. split): processRemove must build the
predecessor list of the whole dequeued block, not of the half that is left after the split (seeds C04-3, C05-5)."""
from vfacts import strip, walk, is_node, method_name, known_facts, root_path
from .prov import var_table

RULE = 'INSETLABEL'
FLOOR = 5
ANCHORS = ['SimulationEngine::split', 'SimulationEngine::init']   # processRemove's pairings move into a helper under extraction (refactor/E-1)


def block_var(e):
    """decl id of the pointer variable B in `B->...` / `(*B)...`"""
    e = strip(e)
    while e is not None and e['k'] == 'UnaryOperator' and e.get('op') == '*':
        e = strip(e['ch'][0])
    if e is not None and e['k'] == 'DeclRefExpr':
        return e.get('d'), e.get('n')
    return None, None


def member_of(e, field):
    """if e is `B->field` return the object expression B"""
    e = strip(e)
    if e is not None and e['k'] == 'MemberExpr' and e.get('n') == field:
        return e.get('obj') if 'obj' in e else (e.get('ch') or [None])[0]
    return None


def inset_of(e):
    """object expression B when e is `B->inset_` or `B->inset()`"""
    e = strip(e)
    if e is None:
        return None
    if e['k'] == 'MemberExpr' and e.get('n') == 'inset_':
        return e.get('obj') if 'obj' in e else (e.get('ch') or [None])[0]
    if e['k'] == 'CXXMemberCallExpr' and method_name(e) == 'inset':
        return e.get('obj')
    return None


def run(unit, em):
    for fn in unit.functions:
        if fn.body is None or 'explicit_lts_sim' not in fn.file:
            continue
        short = fn.q.split('::')[-2] + '::' + fn.q.split('::')[-1] if '::' in fn.q else fn.q
        vt = var_table(fn)
        params = {p['d'] for p in fn.params}
        pairings = []
        for n in fn.walk():
            k = n['k']
            if k in ('BinaryOperator', 'CXXOperatorCallExpr') and n.get('op') == '=':
                ops = n.get('ch') if k == 'BinaryOperator' else n.get('args')
                if not ops or len(ops) != 2:
                    continue
                l, r = strip(ops[0]), strip(ops[1])
                if l is not None and ((l['k'] == 'CXXOperatorCallExpr' and l.get('op') == '[]') or l['k'] == 'ArraySubscriptExpr'):
                    sub = l.get('args') or l.get('ch')
                    B = member_of(sub[0], 'remove_')
                    if B is not None and r is not None and r['k'] not in ('CXXNullPtrLiteralExpr', 'GNUNullExpr') and not (r['k'] == 'IntegerLiteral'):
                        pairings.append((n, B, sub[1], 'remove list stored'))
            elif k == 'CXXMemberCallExpr' and method_name(n) in ('set', 'decr', 'incr') and n.get('args'):
                B = member_of(n.get('obj'), 'counter_')
                if B is not None:
                    pairings.append((n, B, n['args'][0], 'counter ' + method_name(n)))
            elif k in ('CXXMemberCallExpr', 'CallExpr') and method_name(n) == 'enqueueToRemove' and len(n.get('args', [])) >= 2:
                pairings.append((n, n['args'][0], n['args'][1], 'enqueueToRemove'))
            elif k == 'CXXMemberCallExpr' and method_name(n) == 'push_back' and (root_path(n.get('obj')) or [''])[-1] == 'queue_':
                for m in walk(n['args'][0]):
                    if m['k'] == 'CallExpr' and (m.get('q') or '').endswith('make_pair') and len(m.get('args', [])) == 2:
                        pairings.append((n, m['args'][0], m['args'][1], 'work item queued'))
        if pairings and any(short.endswith(a.split('::')[-1]) for a in ANCHORS):
            em.anchor(fn, [a for a in ANCHORS if short.endswith(a.split('::')[-1])][0])
        for node, B, a, what in pairings:
            bd, bn = block_var(B)
            sa = strip(a)
            ad = sa.get('d') if sa is not None and sa['k'] == 'DeclRefExpr' else None
            txt = unit.text(node, 70)
            if bd is None or ad is None:
                em.unknown(node, txt, 'block / label expression not a plain variable', 'inset')
                continue
            if bd in params and ad in params:
                em.ok(node, txt, '%s: (block, label) pair received from the caller' % what, 'inset')
                continue
            ev = None
            v = vt.get(ad)
            if v is not None and v['kind'] == 'rangevar':
                ob = inset_of(v['node'].get('range'))
                if ob is not None and block_var(ob)[0] == bd:
                    ev = 'label ranges over the inset of %s' % bn
            if ev is None:
                facts, _ = known_facts(node)
                for pol, atom in facts:
                    at = strip(atom)
                    if pol and at is not None and at['k'] == 'CXXMemberCallExpr' and method_name(at) == 'contains' and at.get('args'):
                        ob = inset_of(at.get('obj'))
                        arg = strip(at['args'][0])
                        if ob is not None and block_var(ob)[0] == bd and arg is not None and arg.get('d') == ad:
                            ev = 'guarded by %s->inset_.contains(label)' % bn
            if ev:
                em.ok(node, txt, '%s: %s' % (what, ev), 'inset')
            else:
                em.violation(node, txt, '%s for block `%s` under label `%s`, but nothing shows the label is in the inset of that block (it does not range over %s->inset_ and no contains() guard holds): per-label data of a block exists only for its inset' % (
                    what, bn, sa.get('n'), bn), 'inset')


# ---- clause `whole`: the state list of a block received as a parameter is read before blocks are restructured ----
def states_writers(unit):
    """decl ids of functions in the engine that (transitively) assign the field `states_` of a Block"""
    fns = [f for f in unit.functions if f.body is not None and 'explicit_lts_sim' in f.file]
    direct = set()
    for f in fns:
        for n in f.walk():
            if n['k'] in ('BinaryOperator', 'CXXOperatorCallExpr') and n.get('op') == '=':
                ops = n.get('ch') if n['k'] == 'BinaryOperator' else n.get('args')
                l = strip(ops[0]) if ops else None
                if l is not None and l['k'] == 'MemberExpr' and l.get('n') == 'states_' and 'StateListElem' in unit.ty(l):
                    direct.add(f.d['d'])
    closure = set(direct)
    changed = True
    while changed:
        changed = False
        for f in fns:
            if f.d['d'] in closure:
                continue
            for c in f.walk():
                if c['k'] in ('CallExpr', 'CXXMemberCallExpr', 'CXXConstructExpr', 'CXXTemporaryObjectExpr', 'CXXNewExpr') and c.get('cd') in closure:
                    closure.add(f.d['d'])
                    changed = True
                    break
                if c['k'] == 'CXXNewExpr':
                    for x in walk(c):
                        if x['k'] in ('CXXConstructExpr',) and x.get('cd') in closure:
                            closure.add(f.d['d'])
                            changed = True
    return closure


def run_whole(unit, em):
    from vfacts import must_pass_through
    W = None
    for fn in unit.functions:
        if fn.body is None or 'explicit_lts_sim' not in fn.file:
            continue
        params = {p['d']: p for p in fn.params if unit.ty(p).rstrip().endswith('*')}
        if not params:
            continue
        reads = []
        for n in fn.walk():
            if n['k'] == 'MemberExpr' and n.get('n') == 'states_' and 'StateListElem' in unit.ty(n):
                b = n.get('ch') or [n.get('obj')]
                x = strip(b[0]) if b and is_node(b[0]) else None
                if x is not None and x['k'] == 'DeclRefExpr' and x.get('d') in params:
                    reads.append((n, x['d']))
        if not reads:
            continue
        if W is None:
            W = states_writers(unit)
        cfg = fn.cfg()
        if cfg is None:
            continue

        def restructures(m):
            if m['k'] in ('CallExpr', 'CXXMemberCallExpr', 'CXXConstructExpr') and m.get('cd') in W:
                return True
            return False
        for n, d in reads:
            tid = {id(x) for x in walk(n)}
            # is there a path entry -> restructuring call -> this read ?
            bad = None
            for c in fn.walk():
                if not restructures(c):
                    continue
                pos = cfg.locate(c)
                if pos is None:
                    continue
                ok, w = must_pass_through(cfg, pos, lambda m: id(m) in tid, lambda m: False)
                if not ok:
                    bad = c
                    break
            txt = unit.text(n, 40)
            name = params[d].get('n')
            if bad is None:
                em.ok(n, txt, 'the states of the block `%s` handed in by the caller are read before any call that can split blocks' % name, 'whole')
            else:
                em.violation(n, txt, '`%s->states_` is read after `%s`, which can split blocks (it reassigns Block::states_): the block handed in by the caller may by then hold only one half of its states, so what is computed from it (the predecessor blocks) is incomplete' % (
                    name, unit.text(bad, 40)), 'whole')


_run_pairs = run


def run(unit, em):
    _run_pairs(unit, em)
    run_whole(unit, em)


# ---- clause `grow`: partition and block relation grow together; clause `detach`: a remove list is detached before it is freed
def run_engine_pairs(unit, em):
    from vfacts import must_pass_through
    for fn in unit.functions:
        if fn.body is None or 'explicit_lts_sim' not in fn.file:
            continue
        cfg = None
        for c in fn.calls():
            if c['k'] == 'CXXMemberCallExpr' and method_name(c) == 'push_back' and (root_path(c.get('obj')) or [''])[-1] == 'partition_':
                # a block created while a relation already exists (a `split` call of relation_ occurs in the function)
                splits = [s for s in fn.calls() if s['k'] == 'CXXMemberCallExpr' and method_name(s) == 'split' and (root_path(s.get('obj')) or [''])[-1] == 'relation_']
                txt = unit.text(c, 50)
                # blocks made by the splitting constructor (one argument is the parent Block) need the relation split;
                # the initial blocks are made from plain state lists and the relation is initialised afterwards by init()
                from_parent = False
                a0 = strip(c['args'][0]) if c.get('args') else None
                srcs = [a0]
                if a0 is not None and a0['k'] == 'DeclRefExpr':
                    v0 = var_table(fn).get(a0.get('d'))
                    if v0 and is_node(v0['decl'].get('init')):
                        srcs = [v0['decl']['init']]
                for s0 in srcs:
                    for x in walk(s0):
                        if x['k'] == 'CXXConstructExpr' and any('Block' in unit.ty(strip(a) or a) for a in x.get('args') or []):
                            from_parent = True
                if not from_parent:
                    continue
                if not splits:
                    em.violation(c, txt, 'a block split off its parent is added to the partition but the block relation is never split in this function: block indices beyond the size of the relation are then used as rows/columns', 'grow')
                    continue
                cfg = cfg or fn.cfg()
                pos = cfg.locate(c) if cfg else None
                if pos is None:
                    em.unknown(c, txt, 'CFG position not found', 'grow')
                    continue
                sid = {id(x) for s in splits for x in walk(s)}
                ok, _ = must_pass_through(cfg, pos, None, lambda n: id(n) in sid)
                if ok:
                    em.ok(c, txt, 'followed on every path by relation_.split(..): partition and relation keep the same number of blocks', 'grow')
                else:
                    em.violation(c, txt, 'a block is added to the partition but the block relation is not split on every path afterwards: block indices beyond the size of the relation are then used as rows/columns', 'grow')
        # detach: `r = B->remove_[l]` ... `r->unsafeRelease(..)` needs `B->remove_[l] = nullptr` in between
        vt = var_table(fn)
        for d, v in vt.items():
            if v['kind'] != 'local' or not is_node(v['decl'].get('init')):
                continue
            i = strip(v['decl']['init'])
            if i is None or not ((i['k'] == 'CXXOperatorCallExpr' and i.get('op') == '[]') or i['k'] == 'ArraySubscriptExpr'):
                continue
            sub = i.get('args') or i.get('ch')
            B = member_of(sub[0], 'remove_')
            if B is None:
                continue
            rel = [c for c in fn.calls() if c['k'] == 'CXXMemberCallExpr' and method_name(c) == 'unsafeRelease' and (strip(c.get('obj')) or {}).get('d') == d]
            if not rel:
                continue
            cfg = cfg or fn.cfg()
            pos = cfg.locate(v['node']) if cfg else None
            bd = block_var(B)[0]
            ltxt = unit.text(strip(sub[1]), 0)

            def detaches(n, bd=bd, ltxt=ltxt):
                if n['k'] not in ('BinaryOperator', 'CXXOperatorCallExpr') or n.get('op') != '=':
                    return False
                ops = n.get('ch') if n['k'] == 'BinaryOperator' else n.get('args')
                l, r = strip(ops[0]), strip(ops[1])
                if l is None or not ((l['k'] == 'CXXOperatorCallExpr' and l.get('op') == '[]') or l['k'] == 'ArraySubscriptExpr'):
                    return False
                s2 = l.get('args') or l.get('ch')
                b2 = member_of(s2[0], 'remove_')
                return b2 is not None and block_var(b2)[0] == bd and unit.text(strip(s2[1]), 0) == ltxt and r is not None and r['k'] in ('CXXNullPtrLiteralExpr', 'GNUNullExpr', 'IntegerLiteral')
            txt = unit.text(v['node'], 60)
            if pos is None:
                em.unknown(v['node'], txt, 'CFG position not found', 'detach')
                continue
            rid = {id(x) for c in rel for x in walk(c)}
            # everything that can enqueue into remove lists (split) must also come after the detach
            ok, _ = must_pass_through(cfg, pos, lambda n: id(n) in rid or (n['k'] == 'CXXMemberCallExpr' and method_name(n) in ('split', 'fastSplit', 'enqueueToRemove')), detaches)
            if ok:
                em.ok(v['node'], txt, 'the list is detached from the block (slot set to null) before anything can append to it or it is released', 'detach')
            else:
                em.violation(v['node'], txt, 'the remove list taken here is released / the blocks are split while the slot of the block still points to it: later appends go to a list that is about to be freed (use after free, lost removals)', 'detach')


_run_prev = run


def run(unit, em):
    _run_prev(unit, em)
    run_engine_pairs(unit, em)


# ---- clause `head`: nothing about a whole block is decided from the head of its circular state list
def run_head(unit, em):
    from vfacts import stmt_exits
    for fn in unit.functions:
        if fn.body is None or 'explicit_lts_sim' not in fn.file:
            continue
        vt = var_table(fn)
        for d, v in vt.items():
            if v['kind'] != 'local' or not is_node(v['decl'].get('init')):
                continue
            i = strip(v['decl']['init'])
            if i is None or i['k'] != 'MemberExpr' or i.get('n') != 'states_' or 'StateListElem' not in unit.ty(i):
                continue
            par = v['node'].get('_p')
            if par is None or par['k'] != 'CompoundStmt':
                continue
            sibs = par.get('ch', [])
            try:
                k0 = next(k for k, s in enumerate(sibs) if s is v['node'])
            except StopIteration:
                continue
            loop_at = None
            for k in range(k0 + 1, len(sibs)):
                if sibs[k]['k'] in ('DoStmt', 'WhileStmt', 'ForStmt') and any(x['k'] == 'DeclRefExpr' and x.get('d') == d for x in walk(sibs[k].get('c') or {})):
                    loop_at = k
                    break
            if loop_at is None:
                continue
            txt = unit.text(v['node'], 50)
            bad = None
            for s in sibs[k0 + 1:loop_at]:
                for n in walk(s, lambdas=False):
                    if n['k'] == 'IfStmt' and is_node(n.get('c')) and any(x['k'] == 'DeclRefExpr' and x.get('d') == d for x in walk(n['c'])) and \
                       (stmt_exits(n.get('th')) or (n.get('el') is not None and stmt_exits(n.get('el')))):
                        bad = n
            if bad is None:
                em.ok(v['node'], txt, 'the traversal of the circular state list starts right at the head: every state of the block is looked at', 'head')
            else:
                em.violation(bad, unit.text(bad['c'], 60), 'the whole block is skipped on a test of the *head* of its circular state list (`%s`): the head is an arbitrary member of the block, the other states of the block are never looked at (states below the output size that share a block with a higher-numbered state lose all their pairs)' % (v['decl'].get('n') or 'elem'), 'head')


_run_prev2 = run


def run(unit, em):
    _run_prev2(unit, em)
    run_head(unit, em)


# ---- clause `chain`: a remove list is consumed as a whole chain, never through the vector of its head node
def run_chain(unit, em):
    for fn in unit.functions:
        if fn.body is None or 'explicit_lts_sim' not in fn.file:
            continue
        for c in fn.walk():
            if c['k'] != 'CXXMemberCallExpr' or method_name(c) != 'subList':
                continue
            # what consumes the result?
            p = c.get('_p')
            while p is not None and p['k'] in ('ImplicitCastExpr', 'ParenExpr', 'UnaryOperator', 'MaterializeTemporaryExpr', 'CXXBindTemporaryExpr'):
                p = p.get('_p')
            txt = unit.text(c, 50)
            if p is not None and p['k'] in ('CallExpr', 'CXXMemberCallExpr') and method_name(p) in ('reclaim',):
                em.ok(c, txt, 'the head vector goes back to its allocator', 'chain')
            elif p is not None and p['k'] == 'CXXMemberCallExpr' and method_name(p) in ('size', 'empty') :
                em.ok(c, txt, 'only its size is looked at', 'chain')
            elif p is not None and p['k'] == 'ReturnStmt':
                em.ok(c, txt, 'accessor', 'chain')
            else:
                em.violation(c, txt, 'the content of a remove list is taken from subList(), the vector of its *head node* only: a list that was shared by a split and then appended to is a chain of several nodes, the states queued before the split are silently left out (they are never removed from the relation)', 'chain')


_run_prev3 = run


def run(unit, em):
    _run_prev3(unit, em)
    run_chain(unit, em)


# ---- clause `sharedtail`: appending to a shared remove list keeps what the sharers already queued
def run_sharedtail(unit, em):
    """`SharedList::append(list, v, alloc)`: when the list is shared (`refCount_ > 1`, i.e. a split handed a copy of the pending
    remove list to the new block) the appender gets a private head node *linked in front of* the shared chain
    (`tmp->next_ = list; list = tmp;`).  Obligation: on the shared branch some node's `next_` is assigned the old list, and the
    old list's reference count is not given back (the new head now holds that reference).  Starting a fresh list instead drops
    the states queued before the split: they are never removed from the relation (seed C05-10)."""
    from .prov import origins
    for fn in unit.functions:
        if fn.body is None or not fn.q.replace('VATA::', '').split('<')[0].endswith('SharedList::append') or not fn.params:
            continue
        lst = fn.params[0]['d']
        for n in fn.walk(lambdas=False):
            if n['k'] != 'IfStmt':
                continue
            c = strip(n.get('c'))
            if c is None or c['k'] != 'BinaryOperator' or c.get('op') not in ('>', '>=', '!='):
                continue
            if not any(x['k'] == 'MemberExpr' and x.get('n') == 'refCount_' for x in walk(c)):
                continue
            th = n.get('th')
            linked = dropped = False
            for a in walk(th):
                if a['k'] == 'BinaryOperator' and a.get('op') == '=':
                    l, r = strip(a['ch'][0]), strip(a['ch'][1])
                    if l is not None and l['k'] == 'MemberExpr' and l.get('n') == 'next_' and r is not None and r['k'] == 'DeclRefExpr' and r.get('d') == lst:
                        linked = True
                if a['k'] == 'UnaryOperator' and a.get('op') == '--' and any(x['k'] == 'MemberExpr' and x.get('n') == 'refCount_' for x in walk(a)):
                    dropped = True
            txt = 'append to a shared list: ' + unit.text(c, 40)
            if linked and not dropped:
                em.ok(n, txt, 'the private head node is linked in front of the shared chain', 'sharedtail')
            else:
                em.violation(n, txt, 'when the list is shared the appender must get a private head whose `next_` is the shared chain (and keep the reference to it); here %s: the elements queued '
                             'before the list was shared are lost to this owner' % ('no node is linked to the old list' if not linked else 'the reference to the old list is given back'), 'sharedtail')


_run_prev4 = run


def run(unit, em):
    _run_prev4(unit, em)
    run_sharedtail(unit, em)


# ---- clause `edgepair`: an edge is recorded in both directions, under the same conditions
def run_edgepair(unit, em):
    """`ExplicitLTS::addTransition(q, a, r)` keeps a successor list (`data_[a].first[q]`) and a predecessor list
    (`data_[a].second[r]`).  The engine initialises its counters from one direction and decrements them by walking the other, so
    both must hold the same multiset of edges.  Obligation: each direction gets exactly one push per call, and the two pushes are
    controlled by the same branch facts (both unconditional today).  De-duplicating one direction only makes the counter of a
    doubled edge never reach zero: the pair is never removed from the relation (seed C16-10)."""
    from vfacts import known_facts
    for fn in unit.functions:
        if fn.body is None or not fn.q.replace('VATA::', '').endswith('ExplicitLTS::addTransition') or len(fn.params) < 3:
            continue
        pushes = {'first': [], 'second': []}
        for c in fn.calls(lambdas=False):
            if c['k'] == 'CXXMemberCallExpr' and method_name(c) in ('push_back', 'emplace_back', 'insert'):
                o = c.get('obj')
                # direct `data_[a].first[q]` or through a local reference to it
                exprs = [o]
                so = strip(o)
                if so is not None and so['k'] == 'DeclRefExpr' and so.get('dk') == 'local':
                    from .prov import local_sources
                    exprs = local_sources(fn, so.get('d')) or [o]
                for e in exprs:
                    for x in walk(e):
                        if x['k'] == 'MemberExpr' and x.get('n') in pushes and x.get('cls', '').startswith('std::pair'):
                            pushes[x['n']].append(c)
        if not pushes['first'] and not pushes['second']:
            em.unknown(fn, 'ExplicitLTS::addTransition', 'edge lists not recognised', 'edgepair')
            continue
        def facts_of(c):
            f, _ = known_facts(c)
            return sorted('%s%s' % ('' if pol else '!', unit.text(a, 80)) for pol, a in f)
        txt = 'ExplicitLTS::addTransition: successor / predecessor lists'
        if len(pushes['first']) != 1 or len(pushes['second']) != 1:
            em.violation(fn, txt, 'each call must add the edge once to the successor list and once to the predecessor list (found %d / %d insertions)' % (len(pushes['first']), len(pushes['second'])), 'edgepair')
            continue
        fa, fb = facts_of(pushes['first'][0]), facts_of(pushes['second'][0])
        if fa == fb:
            em.ok(pushes['second'][0], txt, 'both directions are recorded under the same conditions', 'edgepair')
        else:
            em.violation(pushes['second'][0], txt, 'the successor list is filled under %s but the predecessor list under %s: the two directions no longer hold the same edges (with multiplicity), and the engine '
                         'counts along one and decrements along the other' % (fa or 'no condition', fb or 'no condition'), 'edgepair')


_run_prev5 = run


def run(unit, em):
    _run_prev5(unit, em)
    run_edgepair(unit, em)
