"""SIZEDINDEX — a vector created with a run-time size is indexed with a constant only if that size provably covers it (C20).

`std::vector<T> v(E)` with E not a constant, followed by `v[k]` (k an integer literal) that is not under a test of
E's variables or of v's own size.  Obligation: E is structurally at least k+1 — `(X == 0) ? c : X`, `X ? X : c`,
`X + c`, `std::max(X, c)` with c >= k+1 — otherwise, if E is a local that starts at 0 and is only raised inside loops
or branches (it stays 0 when those do not run: an alphabet of constants has maximal rank 0), `v[k]` touches an empty
vector.  Sizes that are parameters or computed elsewhere are a value question: unknown."""
from vfacts import strip, walk, method_name, is_node, enclosing, known_facts
from .prov import var_table

RULE = 'SIZEDINDEX'
FLOOR = 1
ANCHORS = ['ExplicitDownwardComplementation::Compute']


def lower_bound(unit, e, depth=0):
    """structural lower bound of a size expression, or None"""
    e = strip(e)
    if e is None or depth > 4:
        return None
    if e['k'] == 'IntegerLiteral':
        return e.get('v')
    if e['k'] == 'ConditionalOperator':
        c, a, b = strip(e['ch'][0]), e['ch'][1], e['ch'][2]
        la, lb = lower_bound(unit, a, depth + 1), lower_bound(unit, b, depth + 1)
        # (X == 0) ? c : X   /   (X != 0) ? X : c   /   X ? X : c   — the X branch is taken only when X >= 1
        def var_of(x):
            x = strip(x)
            return x.get('d') if x is not None and x['k'] == 'DeclRefExpr' else None
        if c is not None and c['k'] == 'BinaryOperator' and c.get('op') in ('==', '!='):
            l, r = strip(c['ch'][0]), strip(c['ch'][1])
            v = var_of(l) if (r is not None and r.get('v') == 0) else var_of(r) if (l is not None and l.get('v') == 0) else None
            if v is not None:
                if c['op'] == '==' and var_of(b) == v:
                    lb = 1
                if c['op'] == '!=' and var_of(a) == v:
                    la = 1
        elif var_of(c) is not None and var_of(a) == var_of(c):
            la = 1
        if la is None or lb is None:
            return None
        return min(la, lb)
    if e['k'] == 'BinaryOperator' and e.get('op') == '+':
        la, lb = lower_bound(unit, e['ch'][0], depth + 1), lower_bound(unit, e['ch'][1], depth + 1)
        ty_unsigned = 'unsigned' in unit.ty(e) or 'size_t' in unit.ty(e)
        if ty_unsigned:
            return (la or 0) + (lb or 0)
        return None
    if e['k'] == 'CallExpr' and (e.get('q') or '') == 'std::max':
        ls = [lower_bound(unit, a, depth + 1) for a in e.get('args') or []]
        ls = [x for x in ls if x is not None]
        return max(ls) if ls else None
    return None


def run(unit, em):
    for fn in unit.functions:
        if fn.body is None or '/src/' not in fn.file:
            continue
        short = fn.q.replace('VATA::', '').split('<')[0]
        vt = var_table(fn)
        for d, v in vt.items():
            if v['kind'] != 'local':
                continue
            decl = v['decl']
            if not unit.ty(decl).replace('const ', '').startswith('std::vector<'):
                continue
            init = strip(decl.get('init')) if is_node(decl.get('init')) else None
            if init is None or init['k'] != 'CXXConstructExpr':
                continue
            args = [a for a in init.get('args') or [] if is_node(a) and a['k'] != 'CXXDefaultArgExpr']
            if not args or len(args) > 2:
                continue
            t0 = unit.ty(strip(args[0]) or args[0])
            if not ('unsigned' in t0 or t0 in ('int', 'long', 'size_t') or 'size_t' in t0):
                continue
            size = args[0]
            if (strip(size) or {}).get('k') == 'IntegerLiteral':
                continue
            size_vars = {x.get('d') for x in walk(size) if x['k'] == 'DeclRefExpr'}
            # constant subscripts of this vector
            subs = []
            for n in fn.walk():
                if n['k'] == 'CXXOperatorCallExpr' and n.get('op') == '[]' and len(n.get('args') or []) == 2:
                    b, i = strip(n['args'][0]), strip(n['args'][1])
                    if b is not None and b['k'] == 'DeclRefExpr' and b.get('d') == d and i is not None and i['k'] == 'IntegerLiteral':
                        subs.append((n, i.get('v')))
            if not subs:
                continue
            # any resize / push_back / assignment of the vector makes its size a history question
            grown = any(c['k'] == 'CXXMemberCallExpr' and method_name(c) in ('resize', 'push_back', 'emplace_back', 'assign', 'insert', 'swap') and (strip(c.get('obj')) or {}).get('d') == d for c in fn.calls())
            if grown:
                continue
            if short.endswith(tuple(ANCHORS)):
                em.anchor(fn, [a for a in ANCHORS if short.endswith(a)][0])
            lb = lower_bound(unit, size)
            for n, k in subs:
                txt = '%s[%d] with %s(%s)' % (decl.get('n'), k, decl.get('n'), unit.text(size, 40))
                if lb is not None and lb >= k + 1:
                    em.ok(n, txt, 'the size expression is at least %d by construction' % lb)
                    continue
                # guarded by a test on the size variables or on the vector itself?
                facts, _ = known_facts(n)
                guarded = any(any(x['k'] == 'DeclRefExpr' and (x.get('d') in size_vars or x.get('d') == d) for x in walk(a)) for pol, a in facts)
                if guarded:
                    em.ok(n, txt, 'under a test of the size')
                    continue
                # can the size be 0?  a local that starts at 0 and is only raised conditionally
                sv = strip(size)
                zero_start = False
                if sv is not None and sv['k'] == 'DeclRefExpr' and sv.get('d') in vt and vt[sv['d']]['kind'] == 'local':
                    sd = vt[sv['d']]['decl']
                    i0 = strip(sd.get('init')) if is_node(sd.get('init')) else None
                    if i0 is not None and i0['k'] == 'IntegerLiteral' and i0.get('v', 1) <= k:
                        writes = [w for w in fn.walk() if w['k'] in ('BinaryOperator', 'CompoundAssignOperator') and w.get('op', '').endswith('=') and w.get('op') not in ('==', '!=', '<=', '>=') and
                                  (strip(w['ch'][0]) or {}).get('d') == sv['d']]
                        zero_start = all(enclosing(w, ('IfStmt', 'ForStmt', 'WhileStmt', 'CXXForRangeStmt', 'DoStmt')) is not None for w in writes)
                if zero_start:
                    em.violation(n, txt, 'the vector is created with `%s` elements; that variable starts at %s and is only raised inside loops or branches, so it is still %s when they do not run '
                                 '(e.g. an alphabet whose symbols are all constants has maximal rank 0) and element %d does not exist: out-of-bounds access' % (unit.text(size, 30), i0.get('v'), i0.get('v'), k))
                else:
                    em.unknown(n, txt, 'whether the run-time size covers the constant index is a value question')
