"""NOTHROW — a non-throwing specification is never contradicted by what the function reaches (C13).

C13 demands that bad text is *rejected by an exception*.  An exception that meets a `noexcept` /
`throw()` frame (or a destructor, implicitly noexcept) on its way up ends in std::terminate instead.

Instance: every in-repo function with a body whose type is non-throwing (explicit noexcept / throw(),
or a user-written destructor).  Obligation: no `throw` expression is reachable from it through the
call graph of in-repo callees of the same translation unit (direct calls, constructors, operators;
bounded depth), unless the throw sits lexically inside a try block of the function that contains it.
Calls to the library's throwing accessors (`at`, `substr`, `stoi`-family) count as throw sites as well:
the parser relies on exactly those exceptions for malformed numbers and positions."""
from vfacts import strip, walk, method_name

RULE = 'NOTHROW'
FLOOR = 15
ANCHORS = ['NotImplementedException::what']
WITNESS = 'src/nothrow.cc'
STD_THROWERS = {'at', 'substr', 'stoi', 'stol', 'stoul', 'stoll', 'stoull', 'stod', 'stof'}
DEPTH = 6


def throw_sites(unit, fn, cache):
    """(own throw nodes outside try blocks, callee decl ids)"""
    r = cache.get(fn.d['d'])
    if r is not None:
        return r
    throws, callees = [], []

    def rec(n, in_try):
        if not isinstance(n, dict):
            return
        k = n.get('k')
        if k == 'CXXTryStmt':
            ch = n.get('ch') or []
            # body is the first child; handlers follow
            for i, c in enumerate(ch):
                rec(c, in_try or i == 0)
            for key in ('body', 'handlers'):
                v = n.get(key)
                if isinstance(v, dict):
                    rec(v, in_try or key == 'body')
                elif isinstance(v, list):
                    for x in v:
                        rec(x, in_try)
            return
        if k == 'LambdaExpr':
            return      # runs when called, not here
        if k == 'CXXThrowExpr' and not in_try and (n.get('ch') or [None])[0] is not None:
            throws.append(n)
        if k in ('CallExpr', 'CXXMemberCallExpr', 'CXXOperatorCallExpr', 'CXXConstructExpr', 'CXXTemporaryObjectExpr') and not in_try:
            if n.get('cd') is not None:
                callees.append((n['cd'], n))
            mn = method_name(n) if k != 'CXXConstructExpr' else None
            if mn in STD_THROWERS and not n.get('inrepo'):
                throws.append(n)
        for key, v in n.items():
            if key.startswith('_') or key in ('cfg',):
                continue
            if isinstance(v, dict):
                rec(v, in_try)
            elif isinstance(v, list):
                for x in v:
                    if isinstance(x, dict):
                        rec(x, in_try)
    rec(fn.body, False)
    for i in fn.d.get('inits') or []:
        rec(i, False)
    cache[fn.d['d']] = (throws, callees)
    return throws, callees


def run(unit, em):
    cache = {}
    for fn in unit.functions:
        if fn.body is None or not fn.d.get('nothrow'):
            continue
        short = fn.q.replace('VATA::', '')
        if short in ANCHORS:
            em.anchor(fn, short)
        seen = set()
        work = [(fn, 0, [])]
        found = None
        while work and found is None:
            f, depth, path = work.pop()
            if f.d['d'] in seen:
                continue
            seen.add(f.d['d'])
            throws, callees = throw_sites(unit, f, cache)
            if throws:
                found = (f, throws[0], path)
                break
            if depth >= DEPTH:
                continue
            for cd, node in callees:
                g = unit.by_decl.get(cd)
                if g is not None and g.body is not None and not g.d.get('nothrow'):
                    work.append((g, depth + 1, path + [g.q]))
        desc = '%s is %s' % (short, 'a destructor (implicitly noexcept)' if fn.d.get('fk') == 'dtor' else 'declared non-throwing')
        if found is None:
            em.ok(fn, desc, 'no throw reachable through %d in-repo function(s)' % len(seen), 'nothrow')
        else:
            f, t, path = found
            via = (' via ' + ' -> '.join(p.replace('VATA::', '') for p in path)) if path else ''
            em.violation(fn, desc, 'it reaches `%s` at %s:%d%s: the exception cannot leave this frame and std::terminate runs instead of the caller seeing a std::exception' % (
                unit.text(t, 50), unit.rel(unit.loc(t)[0]), unit.loc(t)[1], via), 'nothrow')
