"""BACKTRACK — per-branch state of a recursive descent is passed by value (C13, C17).

Instance: every parameter P of a self-recursive function that is (i) handed on to a recursive call and (ii)
changed in the body by something other than appending (a non-const member call that is not
push_back/insert/emplace*, an assignment, a subscript store).  Such a parameter is the state of the current
branch: `asgn.SetIthVariableValue(var, ZERO); rec(low); asgn.SetIthVariableValue(var, ONE); rec(high)`.
Obligation: P is not a non-const reference (each branch works on its own copy) — or, if it is, every path from a
recursive call to the exit passes another change of P (explicit backtracking: `SetIthVariableValue(pos, DONT_CARE)`
after the second call) — so what a finished sub-call did to it cannot leak into the sibling branch or the caller.  Append-only reference
parameters (the result list) are accumulators, not instances."""
from vfacts import strip, walk, is_node, method_name

RULE = 'BACKTRACK'
FLOOR = 1
ANCHORS = []   # the branch state can legitimately become a local copy (refactor/J-2); health: floor + witness
WITNESS = 'src/backtrack.cc'
APPEND = ('push_back', 'insert', 'emplace', 'emplace_back', 'push_front', 'push')
READERS = ('find', 'begin', 'end', 'cbegin', 'cend', 'at', 'count', 'size', 'empty', 'front', 'back', 'lower_bound', 'upper_bound', 'length', 'data', 'c_str')


def run(unit, em):
    for fn in unit.functions:
        if fn.body is None or not fn.params:
            continue
        own = fn.d['d']
        rec = [c for c in fn.walk(lambdas=False) if c['k'] in ('CallExpr', 'CXXMemberCallExpr') and c.get('cd') == own]
        if not rec:
            continue
        short = fn.q.replace('VATA::', '').replace('MTBDDPkg::', '')
        from .prov import var_table as _vt
        cands = [dict(p, _param=True) for p in fn.params]
        for d_, v_ in _vt(fn).items():
            if v_['kind'] == 'local' and not unit.ty(v_['decl']).rstrip().endswith(('&', '*')):
                cands.append(dict(v_['decl'], _param=False))
        for p in cands:
            d = p['d']
            kinds = set()
            for c in rec:
                pk = c.get('pk') or ''
                for i_, a in enumerate(c.get('args') or []):
                    sa = strip(a)
                    if sa is not None and sa['k'] == 'DeclRefExpr' and sa.get('d') == d:
                        kinds.add(pk[i_] if i_ < len(pk) else '?')
            forwarded = bool(kinds)
            if not forwarded:
                continue
            if not p['_param']:
                # a local of this invocation handed on: only a non-const reference lets the callee change it
                p = dict(p, ref=('r' if 'r' in kinds else None))
            state_mut = None
            for n in fn.walk(lambdas=False):
                if n['k'] == 'CXXMemberCallExpr' and not n.get('const') and (strip(n.get('obj')) or {}).get('d') == d and method_name(n) not in APPEND + READERS:
                    state_mut = n
                elif n['k'] in ('BinaryOperator', 'CXXOperatorCallExpr', 'CompoundAssignOperator') and n.get('op', '').endswith('=') and n.get('op') not in ('==', '!=', '<=', '>='):
                    ops = n.get('ch') if n['k'] != 'CXXOperatorCallExpr' else n.get('args')
                    l = strip(ops[0]) if ops else None
                    while l is not None and l['k'] in ('CXXOperatorCallExpr', 'ArraySubscriptExpr') and l.get('op', '[]') == '[]':
                        l = strip((l.get('args') or l.get('ch'))[0])
                    if l is not None and l['k'] == 'DeclRefExpr' and l.get('d') == d:
                        state_mut = n
            if state_mut is None:
                continue
            if any(short.endswith(a) for a in ANCHORS):
                em.anchor(fn, ANCHORS[0])
            name = '%s: parameter %s' % (fn.q.split('::')[-1], p.get('n'))
            restored = False
            if p.get('ref') == 'r':
                # explicit backtracking: the state is put back after the last recursive call on every path to the exit
                cfg = fn.cfg()
                if cfg is not None:
                    def is_mut(n, d=d):
                        return n['k'] == 'CXXMemberCallExpr' and not n.get('const') and (strip(n.get('obj')) or {}).get('d') == d and method_name(n) not in APPEND + READERS
                    from vfacts import must_pass_through
                    restored = True
                    for c in rec:
                        if not any((strip(a) or {}).get('d') == d for a in c.get('args') or []):
                            continue
                        pos = cfg.locate(c)
                        if pos is None:
                            restored = False
                            break
                        # only calls that can be reached after the state was changed in this invocation need the undo
                        muts = [m for m in fn.walk(lambdas=False) if is_mut(m)]
                        dirty = False
                        cid = {id(x) for x in walk(c)}
                        for m in muts:
                            pm = cfg.locate(m)
                            if pm is None:
                                continue
                            r_, _ = must_pass_through(cfg, pm, lambda n: id(n) in cid, lambda n: False)
                            if not r_:
                                dirty = True
                        if not dirty:
                            continue
                        # paths from this recursive call to the exit that do not go through another recursive call
                        ok_, _ = must_pass_through(cfg, pos, None, lambda n: is_mut(n) or any(n is r for r in rec if r is not c))
                        if not ok_:
                            restored = False
            if p.get('ref') == 'r' and restored:
                em.ok(fn, name, 'branch state passed by reference and put back after the last recursive call on every path', 'byvalue')
            elif p.get('ref') == 'r':
                em.violation(fn, name, '`%s` is changed (%s) between the recursive calls and passed on by non-const reference: what the first sub-call leaves in it is seen by the second one (the branches of the descent no longer start from the same state)' % (p.get('n'), unit.text(state_mut, 50)), 'byvalue')
            else:
                em.ok(fn, name, 'branch state passed by value: each recursive call works on its own copy', 'byvalue')
