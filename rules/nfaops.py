"""NFAOPS — reversal swaps roles, and trimming is forward-reachability on both sides (C10).

  N1  ExplicitFiniteAutCore::Reverse: result.finalStates_ is taken from startStates_ and
      result.startStates_ from finalStates_ (exchange), and every edge q -a-> r of the source is added
      as r -a-> q: the first argument of AddTransition derives from the successor set, the third from
      the cluster key.
  N2  ExplicitFiniteAutCore::RemoveUselessStates is the chain
      RemoveUnreachableStates . Reverse . RemoveUnreachableStates . Reverse  (two prunings, an even
      number of reversals, pruning first): anything else returns the mirror language or keeps
      non-co-reachable states."""
from vfacts import strip, walk, method_name, root_path
from .kind import Kinds

RULE = 'NFAOPS'
FLOOR = 3
ANCHORS = ['ExplicitFiniteAutCore::Reverse', 'ExplicitFiniteAutCore::RemoveUselessStates']


def run(unit, em):
    for fn in unit.functions:
        short = fn.q.replace('VATA::', '')
        if short not in ANCHORS or fn.body is None:
            continue
        em.anchor(fn, short)
        if short.endswith('Reverse'):
            for n in fn.walk():
                if n['k'] == 'CXXOperatorCallExpr' and n.get('op') == '=' and len(n.get('args', [])) == 2:
                    l, r = root_path(n['args'][0]), root_path(n['args'][1])
                    if l and r and l[-1] in ('finalStates_', 'startStates_') and r[-1] in ('finalStates_', 'startStates_') and l[0] == 'local':
                        txt = unit.text(n, 60)
                        if l[-1] != r[-1]:
                            em.ok(n, txt, 'final and start states are exchanged', 'N1-sets')
                        else:
                            em.violation(n, txt, 'Reverse must exchange start and final states; this copies %s to %s' % (r[-1], l[-1]), 'N1-sets')
            K = Kinds(unit, fn)
            for c in fn.calls():
                if method_name(c) == 'AddTransition' and len(c.get('args', [])) == 3:
                    k0, k2 = K.expr(c['args'][0]), K.expr(c['args'][2])
                    a0, a2 = strip(c['args'][0]), strip(c['args'][2])
                    # the key of the cluster entry is `.first` of a state->cluster entry (kind A via MemberExpr first);
                    # successors are range variables over a successor set
                    def is_key(e):
                        return e is not None and e['k'] == 'MemberExpr' and e['n'] == 'first'
                    txt = unit.text(c, 80)
                    if is_key(a2) and not is_key(a0) and k0 == 'A':
                        em.ok(c, txt, 'edge reversed: source := successor, target := original source', 'N1-edge')
                    elif is_key(a0) and not is_key(a2):
                        em.violation(c, txt, 'the edge is copied unreversed (source is still the cluster key)', 'N1-edge')
                    else:
                        em.unknown(c, txt, 'roles not resolved', 'N1-edge')
        else:
            rets = [n for n in fn.walk(lambdas=False) if n['k'] == 'ReturnStmt']
            for r in rets:
                chain = []
                e = strip((r.get('ch') or [None])[0])
                while e is not None and e['k'] == 'CXXMemberCallExpr':
                    chain.append(method_name(e))
                    e = strip(e.get('obj'))
                chain.reverse()
                txt = 'RemoveUselessStates = ' + ' . '.join(chain)
                if chain == ['RemoveUnreachableStates', 'Reverse', 'RemoveUnreachableStates', 'Reverse']:
                    em.ok(r, txt, 'prune, mirror, prune, mirror back', 'N2')
                else:
                    em.violation(r, txt, 'useless-state removal must be RemoveUnreachableStates . Reverse . RemoveUnreachableStates . Reverse', 'N2')


# ---- N3: the empty word needs no transition — no NFA operation takes a shortcut on an empty transition relation
def run_n3(unit, em):
    """An NFA accepts the empty word when a start state is final, whatever its transitions.  Instance: every early exit
    (`if (c) return ..;`) of an operation of the NFA core whose condition looks at the emptiness / size of `transitions_`.
    Obligation: none may occur — `transitions_->empty()` does not imply an empty language, so returning an empty (or
    unchanged) result there loses (or keeps) exactly the word epsilon.  (`finalStates_.empty()` or `startStates_.empty()`
    alone do imply emptiness and are fine.)"""
    from vfacts import stmt_exits, is_node
    seen_fn = False
    for fn in unit.functions:
        if fn.body is None or 'explicit_finite' not in fn.file or not (fn.d.get('cls') or '').endswith('ExplicitFiniteAutCore'):
            continue
        for n in fn.walk(lambdas=False):
            if n['k'] != 'IfStmt' or not is_node(n.get('c')) or not stmt_exits(n.get('th')):
                continue
            hit = None
            for x in walk(n['c']):
                if x['k'] == 'CXXMemberCallExpr' and method_name(x) in ('empty', 'size'):
                    rp = root_path(x.get('obj'))
                    if rp and 'transitions_' in rp:
                        hit = x
            if hit is None:
                continue
            rets = [m for m in walk(n['th'], lambdas=False) if m['k'] == 'ReturnStmt']
            if rets:
                em.violation(n, unit.text(n['c'], 70), 'this early return is taken when the automaton has no transitions; a start state that is final still accepts the empty word, which the shortcut loses (Reverse of {epsilon} becomes empty, and with it trimming, intersection and the witness of such languages)', 'N3')
    return


_run_n12 = run


def run(unit, em):
    _run_n12(unit, em)
    run_n3(unit, em)
