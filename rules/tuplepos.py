"""TUPLEPOS — child tuples are positional: an element is dropped by position, never by value (C04, C08).

A rule f(q,q,r)->p has the state q at two positions; the encodings of rules (environments of the
upward simulation, product positions) identify a child by its *position*. Instance: every
std::remove / std::remove_copy / std::remove_if / std::unique / std::replace applied to the range of a
`StateTuple` (vector<StateType>) in the automata sources. Obligation: none may occur — removing by
value removes every occurrence of a repeated state. Today's tree has no instance; a witness
(witness/src/tuplepos.cc) must fire on every run."""
from vfacts import strip, walk, method_name

RULE = 'TUPLEPOS'
FLOOR = 0
WITNESS = 'src/tuplepos.cc'
ALGOS = {'std::remove', 'std::remove_copy', 'std::remove_if', 'std::remove_copy_if', 'std::unique', 'std::unique_copy', 'std::replace'}


def run(unit, em):
    for fn in unit.functions:
        f = fn.file
        if fn.body is None or '/src/' not in f or '/util/' in f or '/mtbdd/' in f:
            continue  # container implementations (OrdVector is a *set* kept in a vector) are not tuple code
        if False:
            continue
        for c in fn.calls():
            if c['k'] != 'CallExpr' or c.get('q') not in ALGOS or not c.get('args'):
                continue
            a0 = strip(c['args'][0])
            if a0 is None or a0['k'] != 'CXXMemberCallExpr' or method_name(a0) not in ('begin', 'cbegin'):
                continue
            t = unit.ty(strip(a0.get('obj')) or a0['obj']).replace('const ', '')
            if not t.startswith('std::vector<unsigned long'):
                continue
            em.violation(c, unit.text(c, 80), '%s on a tuple of states works by value: if the state occurs at several positions all of them are affected, but a rule identifies a child by its position' % c['q'])
