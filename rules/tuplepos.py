"""TUPLEPOS — child tuples are positional: an element is dropped by position, never by value (C04, C08).

A rule f(q,q,r)->p has the state q at two positions; the encodings of rules (environments of the
upward simulation, product positions) identify a child by its *position*. Instance: every
std::remove / std::remove_copy / std::remove_if / std::unique / std::replace applied to the range of a
`StateTuple` (vector<StateType>) in the automata sources. Obligation: none may occur — removing by
value removes every occurrence of a repeated state. Today's tree has no instance; a witness
(witness/src/tuplepos.cc) must fire on every run."""
from vfacts import strip, walk, method_name

RULE = 'TUPLEPOS'
FLOOR = 0
WITNESS = 'src/tuplepos.cc'
WITNESS_MIN = 3
ALGOS = {'std::remove', 'std::remove_copy', 'std::remove_if', 'std::remove_copy_if', 'std::unique', 'std::unique_copy', 'std::replace'}


def run(unit, em):
    for fn in unit.functions:
        f = fn.file
        if fn.body is None or '/src/' not in f or '/util/' in f or '/mtbdd/' in f:
            continue  # container implementations (OrdVector is a *set* kept in a vector) are not tuple code
        if False:
            continue
        for c in fn.calls():
            if c['k'] != 'CallExpr' or c.get('q') not in ALGOS or not c.get('args'):
                continue
            a0 = strip(c['args'][0])
            if a0 is None or a0['k'] != 'CXXMemberCallExpr' or method_name(a0) not in ('begin', 'cbegin'):
                continue
            t = unit.ty(strip(a0.get('obj')) or a0['obj']).replace('const ', '')
            if not t.startswith('std::vector<unsigned long'):
                continue
            em.violation(c, unit.text(c, 80), '%s on a tuple of states works by value: if the state occurs at several positions all of them are affected, but a rule identifies a child by its position' % c['q'])
        # ---- samepos: two positions of one tuple are never compared with each other to take a decision
        from vfacts import root_path, is_node
        for n in fn.walk():
            if n['k'] not in ('BinaryOperator', 'CXXOperatorCallExpr') or n.get('op') not in ('==', '!='):
                continue
            ops = n.get('ch') if n['k'] == 'BinaryOperator' else n.get('args')
            if not ops or len(ops) != 2:
                continue
            sub = []
            for o in ops:
                so = strip(o)
                base = idx = None
                if so is not None and so['k'] == 'CXXOperatorCallExpr' and so.get('op') == '[]' and len(so.get('args', [])) == 2:
                    base, idx = so['args'][0], so['args'][1]
                elif so is not None and so['k'] == 'CXXMemberCallExpr' and method_name(so) == 'at' and so.get('args') and is_node(so.get('obj')):
                    base, idx = so['obj'], so['args'][0]
                if base is None:
                    break
                t = unit.ty(strip(base) or base).replace('const ', '')
                if not t.startswith('std::vector<unsigned long'):
                    break
                sub.append((unit.text(strip(base), 0), unit.text(strip(idx), 0)))
            if len(sub) != 2 or sub[0][0] != sub[1][0] or sub[0][1] == sub[1][1]:
                continue
            em.violation(n, unit.text(n, 70), 'two positions of the same child tuple are compared with each other: a rule may legitimately carry one state at several positions (f(s,s) -> t), and each position has to be expanded on its own — skipping or merging on equality loses the combinations in which the positions are filled differently', 'samepos')
        # ---- firstpos: std::find on a tuple answers "does the state occur", never "where"
        from .prov import var_table
        vt = None
        for c in fn.calls():
            if c['k'] != 'CallExpr' or c.get('q') not in ('std::find', 'std::find_if') or not c.get('args'):
                continue
            a0 = strip(c['args'][0])
            if a0 is None or a0['k'] != 'CXXMemberCallExpr' or method_name(a0) not in ('begin', 'cbegin'):
                continue
            t = unit.ty(strip(a0.get('obj')) or a0['obj']).replace('const ', '')
            if not t.startswith('std::vector<unsigned long'):
                continue

            def consumer(x):
                p_ = x.get('_p')
                while p_ is not None and (p_['k'] in ('ImplicitCastExpr', 'MaterializeTemporaryExpr', 'ParenExpr', 'ExprWithCleanups', 'CXXBindTemporaryExpr') or
                                          (p_['k'] == 'CXXConstructExpr' and 'iterator' in (p_.get('q') or ''))):
                    p_ = p_.get('_p')
                return p_

            def is_cmp(p_):
                return p_ is not None and p_['k'] in ('BinaryOperator', 'CXXOperatorCallExpr') and p_.get('op') in ('==', '!=')
            txt = unit.text(c, 70)
            par = consumer(c)
            if is_cmp(par):
                em.ok(c, txt, 'membership test only (compared with end())', 'firstpos')
                continue
            if vt is None:
                vt = var_table(fn)
            holder = None
            for d_, v_ in vt.items():
                if v_['kind'] == 'local' and is_node(v_['decl'].get('init')) and any(x is c for x in walk(v_['decl']['init'])):
                    holder = d_
            if holder is not None:
                uses = [x for x in fn.walk() if x['k'] == 'DeclRefExpr' and x.get('d') == holder]
                other = [x for x in uses if not is_cmp(consumer(x))]
                if not other:
                    em.ok(c, txt, 'membership test only (the iterator is only compared)', 'firstpos')
                    continue
                c_at = other[0]
            else:
                c_at = c
            em.violation(c_at, txt, 'the position found by %s is used (%s): it is the FIRST occurrence only, but a tuple may carry the state at several positions (f(p,p) -> q) and each of them has to be considered — '
                         'the positions after the first are silently ignored' % (c['q'], unit.text(consumer(c_at) or c_at, 50)), 'firstpos')
