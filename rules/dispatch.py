"""DISPATCH — InclParam options -> algorithm agreement, sanitised operands, exception on the rest
(C01, C07, C09).

Instance: every `case` of the switch on InclParam::GetOptions() in the four CheckInclusion bodies,
each `default`, the sanitiser call, the congruence union, and the obligations of
AutBase::SanitizeAutsForInclusion itself. The case constant is *evaluated* and split by the
FLAG_MASK_* values read from the AST (not by the label's spelling)."""
from vfacts import strip, walk, method_name, must_pass_through, known_facts, is_node
from .prov import var_table, assignments, origins, local_sources

RULE = 'DISPATCH'
FLOOR = 24
ANCHORS = ['ExplicitTreeAutCore::CheckInclusion', 'BDDBUTreeAutCore::CheckInclusion', 'BDDTDTreeAutCore::CheckInclusion',
           'ExplicitFiniteAutCore::CheckInclusion', 'AutBase::SanitizeAutsForInclusion']
ASSUMPTIONS = ['the entity table (flags -> algorithm) is the registered reading of DESIGN.md section 3, DISPATCH']

MASKS = ('ALGORITHM', 'DIRECTION', 'DOWNWARD_CACHE_IMPL', 'RECURSIVE', 'SIMULATION', 'SEARCH_ORDER', 'EQUIV')
SETTERS = {'SetAlgorithm': ('ALGORITHM', {'antichains': 0, 'congruences': 1}),
           'SetDirection': ('DIRECTION', {'upward': 0, 'downward': 1}),
           'SetUseRecursion': ('RECURSIVE', None), 'SetUseSimulation': ('SIMULATION', None),
           'SetUseDownwardCacheImpl': ('DOWNWARD_CACHE_IMPL', None),
           'SetSearchOrder': ('SEARCH_ORDER', {'depth': 0, 'breadth': 1}),
           'SetEquivalence': ('EQUIV', None)}


def expected(cls, fl):
    """(required substrings of the callee's instantiated name, forbidden substrings) or None if the
    encoding does not implement the selection (then only `default` may handle it)."""
    alg, down, cache, rec, sim, breadth, equiv = (fl[m] for m in MASKS)
    if cls == 'ExplicitFiniteAutCore':
        if down or cache or rec:
            return None
        if not alg:
            if breadth or equiv:
                return None
            return (['CheckFiniteAutInclusion', 'ExplicitFAInclusionFunctorCache',
                     'ExplicitFAStateSetComparatorSimulation' if sim else 'ExplicitFAStateSetComparatorIdentity'],
                    ['Congr', 'ExplicitFAStateSetComparatorIdentity' if sim else 'ExplicitFAStateSetComparatorSimulation'])
        order = 'ProductStateSetBreadth' if breadth else 'ProductStateSetDepth'
        notorder = 'ProductStateSetDepth' if breadth else 'ProductStateSetBreadth'
        if equiv:
            if sim:
                return None
            return (['CheckFiniteAutInclusion', 'ExplicitFACongrEquivFunctor', order], [notorder, 'ExplicitFAInclusionFunctorCache', 'ExplicitFACongrFunctorCacheOpt'])
        return (['CheckFiniteAutInclusion', 'ExplicitFACongrFunctorCacheOpt', order,
                 'NormalFormRelSimulation' if sim else 'NormalFormRelPreorder'],
                [notorder, 'ExplicitFAInclusionFunctorCache', 'ExplicitFACongrEquivFunctor',
                 'NormalFormRelPreorder' if sim else 'NormalFormRelSimulation'])
    if alg or breadth or equiv:
        return None
    if cls == 'ExplicitTreeAutCore':
        if not down:
            return None if (cache or rec) else (['ExplicitUpwardInclusion::Check'], ['Downward'])
        if not rec:
            return None if cache else (['ExplicitDownwardInclusion::Check'], ['Upward'])
        return (['CheckDownwardTreeInclusion', 'ExplicitTreeAutCore', 'OptDownwardInclusionFunctor' if cache else 'VATA::DownwardInclusionFunctor'],
                ['Upward'] + ([] if cache else ['OptDownwardInclusionFunctor']))
    if cls == 'BDDTDTreeAutCore':
        if not (down and rec):
            return None
        return (['CheckDownwardTreeInclusion', 'BDDTDTreeAutCore', 'OptDownwardInclusionFunctor' if cache else 'VATA::DownwardInclusionFunctor'],
                ['Upward'] + ([] if cache else ['OptDownwardInclusionFunctor']))
    if cls == 'BDDBUTreeAutCore':
        if not down:
            return None if (cache or rec) else (['CheckUpwardTreeInclusion', 'BDDBUTreeAutCore', 'UpwardInclusionFunctor'], ['Downward'])
        if rec and sim and not cache:
            return 'delegate'
        return None
    return None


def mask_values(unit):
    vals = {}
    for fn in unit.functions:
        if 'InclParam' not in fn.q:
            continue
        for n in fn.walk():
            if n['k'] == 'DeclRefExpr' and 'v' in n and 'FLAG_MASK_' in (n.get('q') or ''):
                vals[n['q'].rsplit('FLAG_MASK_', 1)[1]] = n['v']
    return vals


def case_list(sw):
    """[(case-or-default node, value or None)] in source order"""
    out = []
    for n in walk(sw['body'], lambdas=False):
        if n['k'] == 'CaseStmt':
            out.append((n, n.get('v')))
        elif n['k'] == 'DefaultStmt':
            out.append((n, None))
    return out


def returns_in(node):
    return [n for n in walk(node, lambdas=False) if n['k'] == 'ReturnStmt']


def the_call(e):
    e = strip(e)
    return e if e is not None and e['k'] in ('CallExpr', 'CXXMemberCallExpr') else None


def single_origin_param(fn, e, params):
    o = origins(fn, e, stop=set(params))
    return [params.index(p) for p in params if p in o]


def check_dispatcher(unit, fn, em, masks):
    cls = (fn.cls or '').split('::')[-1]
    params = [p['d'] for p in fn.params]
    if len(params) != 3:
        return  # convenience overload with default parameters: forwards to the 3-parameter dispatcher
    sw = None
    for n in fn.walk(lambdas=False):
        if n['k'] == 'SwitchStmt':
            c = strip(n['c'])
            if c is not None and c['k'] == 'CXXMemberCallExpr' and method_name(c) == 'GetOptions':
                sw = n
    if sw is None:
        em.violation(fn, fn.q, 'no switch on params.GetOptions() found', 'switch')
        return
    # sanitiser call:  n = SanitizeAutsForInclusion(L0, L1)
    san = [c for c in fn.calls() if (c.get('q') or '').endswith('SanitizeAutsForInclusion')]
    L = None
    nvars = set()
    for c in san:
        a = [strip(x) for x in c.get('args', [])]
        if len(a) == 2 and all(x is not None and x['k'] == 'DeclRefExpr' for x in a):
            pair = (a[0]['d'], a[1]['d'])
            if L is not None and pair != L:
                em.violation(c, unit.text(c, 90), 'sanitiser called on different locals than before', 'sanitise')
            L = pair
            # locals L0/L1 must have been assigned from param0/param1
            for li, pi in ((0, 0), (1, 1)):
                srcs = local_sources(fn, pair[li])
                src_params = set()
                for s in srcs:
                    ss = strip(s)
                    if ss is not None and ss['k'] == 'DeclRefExpr' and ss.get('d') in params:
                        src_params.add(params.index(ss['d']))
                if src_params - {pi}:
                    em.violation(c, unit.text(c, 90), 'sanitised local #%d is filled from parameter #%s' % (li, sorted(src_params)), 'sanitise')
                elif pi in src_params:
                    em.ok(c, unit.text(c, 90) + ' operand %d' % li, 'local copy of parameter %d' % pi, 'sanitise')
                else:
                    em.unknown(c, unit.text(c, 90) + ' operand %d' % li, 'source of sanitised local not resolved', 'sanitise')
            # variable receiving the return value
            p = c.get('_p')
            while p is not None and p['k'] in ('ImplicitCastExpr', 'ExprWithCleanups', 'ParenExpr'):
                p = p.get('_p')
            if p is not None and p['k'] == 'BinaryOperator' and p.get('op') == '=':
                l = strip(p['ch'][0])
                if l is not None and l['k'] == 'DeclRefExpr':
                    nvars.add(l['d'])
            elif p is not None and p['k'] == 'DeclStmt':
                for d in p.get('decls', []):
                    nvars.add(d['d'])
    if L is None:
        em.violation(fn, fn.q, 'no call of SanitizeAutsForInclusion on two locals', 'sanitise')
        return
    # union for the congruence algorithm must take the sanitised locals, in order
    for c in fn.calls():
        if method_name(c) == 'UnionDisjointStates' and c.get('_p') is not None:
            a = [strip(x) for x in c.get('args', [])][:2]
            ds = [x.get('d') if x is not None and x['k'] == 'DeclRefExpr' else None for x in a]
            if ds == [L[0], L[1]]:
                em.ok(c, unit.text(c, 90), 'union of the sanitised operands', 'union')
            else:
                em.violation(c, unit.text(c, 90), 'the union must be built from the sanitised locals (in smaller, bigger order), not from %s' % [unit.text(x, 20) for x in a], 'union')
    cases = case_list(sw)
    seen_default = False
    for node, v in cases:
        if v is None:
            seen_default = True
            sub = node.get('sub')
            throws = [n for n in walk(sub, lambdas=False) if n['k'] == 'CXXThrowExpr']
            rets = returns_in(sub)
            good = throws and not rets and any('NotImplementedException' in unit.ty(strip((t.get('ch') or [None])[0]) or {}) or
                                               'NotImplementedException' in unit.text(t, 0) for t in throws)
            if good:
                em.ok(node, 'default:', 'throws NotImplementedException', 'default')
            else:
                em.violation(node, 'default:', 'an unimplemented selection must end in `throw NotImplementedException`, not in a verdict', 'default')
            continue
        fl = {m: bool(v & masks.get(m, 0)) for m in MASKS}
        label = unit.text(node.get('lhs'), 60) if node.get('lhs') else str(v)
        exp = expected(cls, fl)
        desc = 'case %s = %s' % (label, '|'.join(m for m in MASKS if fl[m]) or '0')
        if exp is None:
            em.violation(node, desc, '%s has no registered algorithm for this selection; it may only be handled by default/throw' % cls, 'case')
            continue
        rets = returns_in(node.get('sub'))
        if len(rets) != 1:
            em.unknown(node, desc, '%d return statements in the case' % len(rets), 'case')
            continue
        rv = (rets[0].get('ch') or [None])[0]
        call = the_call(rv)
        if call is None:
            srv = strip(rv)
            if srv is not None and srv['k'] == 'DeclRefExpr':
                for s in local_sources(fn, srv['d']):
                    call = call or the_call(s)
        if call is None:
            em.violation(node, desc, 'the case does not return the verdict of an inclusion algorithm', 'case')
            continue
        sig = unit.tname(call.get('sig')) if call.get('sig') is not None else (call.get('q') or '')
        q = call.get('q') or ''
        args = call.get('args', [])
        if exp == 'delegate':
            check_delegation(unit, fn, em, node, desc, call, v, masks, L, nvars)
            continue
        req, forb = exp
        full = sig + ' ' + q
        miss = [r for r in req if r not in full]
        bad = [f for f in forb if f in full]
        if miss or bad:
            em.violation(node, desc, 'dispatches to %s; the selection requires %s%s' % (sig[:140], req, (' and excludes ' + str(bad)) if bad else ''), 'case')
            continue
        if len(args) < 3:
            em.unknown(node, desc, 'call has %d arguments' % len(args), 'case')
            continue
        a0, a1, a2 = (strip(x) for x in args[:3])
        d0 = a0.get('d') if a0 is not None and a0['k'] == 'DeclRefExpr' else None
        d1 = a1.get('d') if a1 is not None and a1['k'] == 'DeclRefExpr' else None
        if fl['SIMULATION']:
            want = (params[0], params[1])
            rel_ok = a2 is not None and a2['k'] == 'CXXMemberCallExpr' and method_name(a2) == 'GetSimulation' and \
                (strip(a2.get('obj')) or {}).get('d') == params[2]
            relmsg = 'the preorder must be params.GetSimulation()'
        else:
            want = L
            rel_ok = False
            if a2 is not None and a2['k'] in ('CXXConstructExpr', 'CXXTemporaryObjectExpr', 'CXXFunctionalCastExpr') or (a2 is not None and 'Identity' in unit.ty(a2)):
                cargs = a2.get('args') or a2.get('ch') or []
                inner = strip(cargs[0]) if cargs else None
                while inner is not None and inner['k'] in ('CXXConstructExpr', 'CXXTemporaryObjectExpr') and inner.get('args'):
                    inner = strip(inner['args'][0])
                rel_ok = 'Identity' in unit.ty(a2) and inner is not None and inner['k'] == 'DeclRefExpr' and inner.get('d') in nvars
            relmsg = 'the preorder must be Util::Identity(n) with n the value returned by the sanitiser'
        if (d0, d1) != want:
            if (d0, d1) == (want[1], want[0]):
                em.violation(node, desc, 'operands are passed in (bigger, smaller) order', 'case')
            else:
                em.violation(node, desc, 'operands %s, %s are not the %s' % (unit.text(a0, 20), unit.text(a1, 20),
                             'raw parameters (a simulation on them was supplied)' if fl['SIMULATION'] else 'locals written by SanitizeAutsForInclusion'), 'case')
            continue
        if not rel_ok:
            em.violation(node, desc, relmsg + ', found ' + unit.text(a2, 50), 'case')
            continue
        em.ok(node, desc, '-> ' + sig[:150], 'case')
    if not seen_default:
        em.violation(sw, 'switch (params.GetOptions())', 'no default: an unimplemented selection would fall out of the switch', 'default')


def check_delegation(unit, fn, em, node, desc, call, v, masks, L, nvars):
    if not (call.get('q') or '').endswith('::CheckInclusion') or len(call.get('args', [])) != 3:
        em.violation(node, desc, 'expected delegation to another registered CheckInclusion dispatcher', 'case')
        return
    a0, a1, a2 = (strip(x) for x in call['args'])
    ipd = a2.get('d') if a2 is not None and a2['k'] == 'DeclRefExpr' else None
    flags = 0
    simvar = None
    problems = []
    sub = node.get('sub')
    for c in walk(sub, lambdas=False):
        if c['k'] != 'CXXMemberCallExpr':
            continue
        o = strip(c.get('obj'))
        if o is None or o['k'] != 'DeclRefExpr' or o.get('d') != ipd:
            continue
        m = method_name(c)
        if m == 'SetSimulation':
            for r in walk(c['args'][0]):
                if r['k'] == 'DeclRefExpr' and r.get('dk') == 'local':
                    simvar = r['d']
            continue
        if m in SETTERS:
            mk, table = SETTERS[m]
            a = strip(c['args'][0])
            bit = None
            if table is None and a is not None and a['k'] == 'CXXBoolLiteralExpr':
                bit = 1 if a['v'] else 0
            elif table is not None and a is not None and a['k'] == 'DeclRefExpr' and a['n'] in table:
                bit = table[a['n']]
            if bit is None:
                problems.append('argument of %s not constant' % m)
            elif bit:
                flags |= masks.get(mk, 0)
    if flags != v:
        problems.append('the delegated InclParam encodes flags %d, the case is %d' % (flags, v))
    # operands derive from the sanitised locals, in order
    o0 = origins(fn, a0, stop=set(L))
    o1 = origins(fn, a1, stop=set(L))
    if not (L[0] in o0 and L[1] not in o0 and L[1] in o1 and L[0] not in o1):
        problems.append('delegated operands do not derive from the sanitised (smaller, bigger) locals in order')
    # the sanitiser must run inside the case (no-simulation prologue does not run for a SIM selection)
    if not any((c.get('q') or '').endswith('SanitizeAutsForInclusion') for c in walk(sub, lambdas=False) if c['k'] in ('CallExpr', 'CXXMemberCallExpr')):
        problems.append('the case does not sanitise its operands itself')
    # simulation: computed on UnionDisjointStates(L0, L1) with SetNumStates(n)
    if simvar is None:
        problems.append('no simulation handed to the delegated InclParam')
    else:
        so = origins(fn, {'k': 'DeclRefExpr', 'd': simvar, 'i': -1}, stop=set(L))
        if not (L[0] in so and L[1] in so):
            problems.append('the simulation is not computed on the union of both sanitised operands')
        okn = False
        for c in walk(sub, lambdas=False):
            if c['k'] == 'CXXMemberCallExpr' and method_name(c) == 'SetNumStates':
                a = strip(c['args'][0])
                okn = a is not None and a['k'] == 'DeclRefExpr' and a.get('d') in nvars
        if not okn:
            problems.append('SetNumStates is not given the state count returned by the sanitiser')
        un = [c for c in walk(sub, lambdas=False) if c['k'] in ('CallExpr', 'CXXMemberCallExpr') and method_name(c) == 'UnionDisjointStates']
        if not un:
            problems.append('no UnionDisjointStates of the sanitised operands')
    if problems:
        em.violation(node, desc, '; '.join(problems), 'case')
    else:
        em.ok(node, desc, 'delegates to %s with an equivalent InclParam on sanitised operands' % call.get('q'), 'case')


def check_sanitiser(unit, fn, em):
    params = [p['d'] for p in fn.params]
    calls = list(fn.calls())
    reidx = [c for c in calls if method_name(c) == 'ReindexStates']
    useless = [c for c in calls if method_name(c) == 'RemoveUselessStates']
    name = 'SanitizeAutsForInclusion'
    if len(reidx) != 2 or len(useless) != 2:
        em.violation(fn, name, 'expected two RemoveUselessStates and two ReindexStates calls, found %d/%d' % (len(useless), len(reidx)), 'sanitiser')
        return
    # same translator object
    t = [strip(c['args'][0]) for c in reidx]
    if not all(x is not None and x['k'] == 'DeclRefExpr' for x in t) or t[0]['d'] != t[1]['d']:
        em.violation(reidx[1], name + ': translator', 'both operands must be re-indexed by one translator (one shared counter)', 'sanitiser')
    else:
        em.ok(reidx[1], name + ': translator', 'one translator for both operands', 'sanitiser')
        # the translator's functor post-increments a counter captured by reference
        tv = var_table(fn).get(t[0]['d'])
        lam = None
        if tv and is_node(tv['decl'].get('init')):
            for n in walk(tv['decl']['init']):
                if n['k'] == 'LambdaExpr':
                    lam = n
        good = False
        cnt = None
        if lam is not None:
            for n in walk(lam.get('body')):
                if n['k'] == 'UnaryOperator' and n.get('op') == '++':
                    r = strip(n['ch'][0])
                    if r is not None and r['k'] == 'DeclRefExpr' and any(c.get('d') == r['d'] and c.get('byref') for c in lam.get('captures', [])):
                        good = True
                        cnt = r['d']
        if good:
            em.ok(lam, name + ': counter', 'fresh ids come from one counter captured by reference', 'sanitiser')
        else:
            em.violation(tv['node'] if tv else fn, name + ': counter', 'the translator must draw fresh ids from one counter captured by reference', 'sanitiser')
        rets = [n for n in fn.walk(lambdas=False) if n['k'] == 'ReturnStmt']
        if cnt is not None and rets and all((strip((r.get('ch') or [None])[0]) or {}).get('d') == cnt for r in rets):
            em.ok(rets[0], name + ': return', 'returns the counter', 'sanitiser')
        else:
            em.violation(rets[0] if rets else fn, name + ': return', 'must return the shared counter (number of states of both results)', 'sanitiser')
    # the map is cleared between the two re-indexings
    cfg = fn.cfg()
    mapd = None
    tv = var_table(fn).get(t[0]['d']) if t[0] is not None and t[0]['k'] == 'DeclRefExpr' else None
    if tv and is_node(tv['decl'].get('init')):
        init = strip(tv['decl']['init'])
        if init is not None and init.get('args'):
            a = strip(init['args'][0])
            if a is not None and a['k'] == 'DeclRefExpr':
                mapd = a['d']

    def is_clear(n):
        return n['k'] == 'CXXMemberCallExpr' and method_name(n) == 'clear' and (strip(n.get('obj')) or {}).get('d') == mapd
    pos = cfg.locate(reidx[0]) if cfg else None
    if cfg is None or pos is None or mapd is None:
        em.unknown(fn, name + ': map cleared', 'CFG/translator map not resolved', 'sanitiser')
    else:
        ok, _ = must_pass_through(cfg, pos, lambda n: n is reidx[1], is_clear)
        if ok:
            em.ok(reidx[1], name + ': map cleared', 'stateMap.clear() on every path between the two re-indexings (disjoint ranges)', 'sanitiser')
        else:
            em.violation(reidx[1], name + ': map cleared', 'the translation map is not cleared between re-indexing the two operands: equal state numbers of the operands would be identified', 'sanitiser')
    # outputs: param0 <- reindex(useless(param0)), param1 likewise
    for pi in (0, 1):
        srcs = []
        for lhs, rhs, an in assignments(fn):
            l = strip(lhs)
            if l is not None and l['k'] == 'DeclRefExpr' and l.get('d') == params[pi]:
                srcs.append((rhs, an))
        if len(srcs) != 1:
            em.violation(fn, name + ': output %d' % pi, 'operand %d is assigned %d times' % (pi, len(srcs)), 'sanitiser')
            continue
        rhs, an = srcs[0]
        r = strip(rhs)
        # which re-index call does it come from?
        which = None
        if r is not None and r['k'] == 'DeclRefExpr':
            for s in local_sources(fn, r['d']):
                for n in walk(s):
                    if n is reidx[0]:
                        which = 0
                    if n is reidx[1]:
                        which = 1
        if which is None:
            em.unknown(an, name + ': output %d' % pi, 'source not resolved', 'sanitiser')
            continue
        # the receiver of that re-index derives from RemoveUselessStates on param pi *at that point*
        recv = strip(reidx[which].get('obj'))
        ok_src = False
        if recv is not None and recv['k'] == 'DeclRefExpr':
            # the last assignment/initialiser of the temporary before this call
            cands = []
            for s in local_sources(fn, recv['d']):
                for n in walk(s):
                    if n in useless:
                        cands.append(n)
            # order: useless[0] feeds reidx[0], useless[1] feeds reidx[1] (source order)
            u = useless[which] if which < len(useless) else None
            if u is not None and u in cands and (strip(u.get('obj')) or {}).get('d') == params[pi]:
                ok_src = True
        if ok_src and which == pi:
            em.ok(an, name + ': output %d' % pi, 'operand %d := ReindexStates(RemoveUselessStates(operand %d))' % (pi, pi), 'sanitiser')
        else:
            em.violation(an, name + ': output %d' % pi, 'operand %d is not assigned the re-indexed, useless-state-free copy of itself' % pi, 'sanitiser')


def check_no_early_verdict(unit, fn, em, short):
    """a dispatcher returns only what the selected algorithm returned: every `return` lies inside the switch over the
    options (or is the one after it); an earlier `return <verdict>` answers without running the selected algorithm —
    e.g. a shortcut taken when both operands happen to share their rule store, which makes the answer depend on how an
    operand was created (seed C11-5)"""
    from vfacts import enclosing
    sw = [n for n in fn.walk(lambdas=False) if n['k'] == 'SwitchStmt']
    if not sw:
        return
    first_sw = sw[0]
    inside = {id(x) for s in sw for x in walk(s)}
    swline = unit.loc(first_sw)[1]
    bad = [r for r in fn.walk(lambdas=False) if r['k'] == 'ReturnStmt' and id(r) not in inside and unit.loc(r)[1] < swline and enclosing(r, ('LambdaExpr',)) is None]
    name = '%s: verdicts come from the selected algorithm' % short
    if bad:
        em.violation(bad[0], name, 'this `return` precedes the switch over the algorithm selection: the verdict is produced without running the selected algorithm on the prepared operands', 'early-verdict')
    else:
        em.ok(first_sw, name, 'no return before the switch over the options', 'early-verdict')


def run(unit, em):
    masks = None
    for fn in unit.functions:
        short = fn.q.replace('VATA::', '')
        if short in ANCHORS:
            em.anchor(fn, short)
            if short.endswith('CheckInclusion'):
                if masks is None:
                    masks = mask_values(unit)
                if len(masks) < 7:
                    em.unknown(fn, fn.q, 'FLAG_MASK_* values not all visible in this unit (%s)' % sorted(masks), 'switch')
                    continue
                check_dispatcher(unit, fn, em, masks)
                check_no_early_verdict(unit, fn, em, short)
            else:
                check_sanitiser(unit, fn, em)
