"""FORWARD — public wrappers forward their operands faithfully to the same-named core operation
(C01 C02 C03 C05 C08 C09 C10 C14 C15 — every property stated at the public API).

Instance: every call, inside a method M of a public automaton class (ExplicitTreeAut, ExplicitFiniteAut,
BDDBottomUpTreeAut, BDDTopDownTreeAut), of a core method with the same name M, once per wrapper
parameter that is passed on. Obligation: order is preserved — if wrapper parameters p_i and p_j (i < j) are
both passed (directly, or as `*p.core_`), p_i comes before p_j in the core call; the receiver of a
member core call is this->core_ (or the first automaton parameter for static operations).
(Swapping lhs/rhs or the two translation maps compiles — they have the same types — and no test of a
symmetric operation notices.)"""
from vfacts import strip, walk, method_name, root_path

RULE = 'FORWARD'
FLOOR = 45
PUBLIC = ('ExplicitTreeAut', 'ExplicitFiniteAut', 'BDDBottomUpTreeAut', 'BDDTopDownTreeAut')


def param_of(fn, e):
    """index of the wrapper parameter an argument forwards (p, *p.core_, p.core_->..., &p)"""
    pidx = {p['d']: i for i, p in enumerate(fn.params)}
    e = strip(e)
    found = set()
    for x in walk(e):
        if x['k'] == 'DeclRefExpr' and x.get('d') in pidx:
            found.add(pidx[x['d']])
    return next(iter(found)) if len(found) == 1 else None


def run(unit, em):
    for fn in unit.functions:
        if fn.body is None or not fn.cls:
            continue
        cls = fn.cls.split('::')[-1]
        if cls not in PUBLIC:
            continue
        name = fn.q.split('::')[-1]
        for c in fn.calls():
            if c['k'] not in ('CXXMemberCallExpr', 'CallExpr') or method_name(c) != name:
                continue
            q = c.get('q') or ''
            if 'Core' not in q:
                continue
            seq = []
            if c['k'] == 'CXXMemberCallExpr':
                o = c.get('obj')
                rp = root_path(o)
                pi = param_of(fn, o)
                if pi is not None:
                    seq.append(pi)
                elif not (rp and rp[0] == 'this' and 'core_' in rp):
                    em.unknown(c, unit.text(c, 80), 'receiver not resolved', 'receiver')
                    continue
            for a in c.get('args', []):
                pi = param_of(fn, a)
                if pi is not None:
                    seq.append(pi)
            txt = unit.text(c, 90)
            # clause `verbatim`: an operand is handed on as it was given — not a local of the parameter's own type that was
            # recomputed from it ("normalised", filtered, re-keyed) on the way to the same-named core operation
            from .prov import origins, var_table
            vt = var_table(fn)
            passed = set(seq)
            for a in c.get('args', []):
                sa = strip(a)
                if sa is None or sa['k'] != 'DeclRefExpr' or sa.get('dk') != 'local' or sa.get('d') not in vt:
                    continue
                lt = unit.ty(vt[sa['d']]['decl']).replace('const ', '').replace('&', '').strip()
                o = origins(fn, sa)
                # a container local is also fed by the arguments of the mutating calls made on it
                for m_ in fn.calls():
                    if m_['k'] == 'CXXMemberCallExpr' and not m_.get('const') and (strip(m_.get('obj')) or {}).get('d') == sa['d']:
                        for a2 in m_.get('args') or []:
                            o |= origins(fn, a2)
                for _ in range(2):
                    for d_ in list(o):
                        v_ = vt.get(d_)
                        if v_ and v_['kind'] == 'rangevar' and v_['node'].get('range') is not None:
                            o |= origins(fn, v_['node']['range'])
                for i, p in enumerate(fn.params):
                    pt = unit.tname(p['t']).replace('const ', '').replace('&', '').strip() if 't' in p else ''
                    if i not in passed and p['d'] in o and pt == lt and lt and not lt.startswith(('unsigned', 'int', 'bool', 'size_t', 'long')):
                        em.violation(c, txt + ' [%s]' % p['n'], 'the core operation is not given the parameter `%s` but the local `%s` of the same type that was recomputed from it: the wrapper changes the operand '
                                     'on the way, so the public operation is no longer the core operation applied to what the caller passed' % (p['n'], sa.get('n')), 'verbatim')
            if len(seq) < 1:
                em.ok(c, txt, 'no parameter to forward', 'order')
                continue
            if seq == sorted(seq) and len(set(seq)) == len(seq):
                em.ok(c, txt, 'parameters forwarded in declaration order %s' % seq, 'order')
            elif len(set(seq)) != len(seq):
                em.violation(c, txt, 'one wrapper parameter is forwarded twice (%s) while another is not forwarded in its place' % seq, 'order')
            else:
                names = [fn.params[i]['n'] for i in seq]
                em.violation(c, txt, 'the wrapper forwards its parameters out of order (%s): operands of the same type are exchanged on the way to the core operation' % ', '.join(names), 'order')
