"""STALESIZE — a mask sized from a container's current size is not handed to code that grows that
container (C20, C04/C16 engine).

Instance: every local `std::vector<...> M(this->F.size())` (or `(F.size(), v)`). Obligation: M is not
passed by non-const reference to a method of the same class that can grow F (`F.push_back/emplace_back/
resize`): the callee indexes M with indices of the new elements, which lie past M's end. (The
simulation engine sizes such masks with the number of LTS states, an upper bound of the block count.)"""
from vfacts import strip, walk, method_name, root_path, is_node

RULE = 'STALESIZE'
FLOOR = 2


def grows(unit, fns):
    """method decl id -> set of fields it may grow (direct)"""
    g = {}
    for fn in fns:
        s = set()
        for c in fn.calls():
            if c['k'] == 'CXXMemberCallExpr' and method_name(c) in ('push_back', 'emplace_back', 'resize', 'insert'):
                rp = root_path(c.get('obj'))
                if rp and rp[0] == 'this' and len(rp) == 2:
                    s.add(rp[1])
        g[fn.d['d']] = s
    return g


def run(unit, em):
    by_cls = {}
    for fn in unit.functions:
        if fn.cls and fn.body is not None:
            by_cls.setdefault(fn.cls, []).append(fn)
    for cls, fns in by_cls.items():
        g = grows(unit, fns)
        for fn in fns:
            for n in fn.walk(lambdas=False):
                if n['k'] != 'DeclStmt':
                    continue
                for d in n.get('decls', []):
                    if not unit.tname(d['t']).startswith('std::vector<') or not is_node(d.get('init')):
                        continue
                    init = strip(d['init'])
                    if init is None or init['k'] != 'CXXConstructExpr' or not init.get('args'):
                        continue
                    a0 = strip(init['args'][0])
                    if a0 is None or a0['k'] != 'CXXMemberCallExpr' or method_name(a0) != 'size':
                        continue
                    rp = root_path(a0.get('obj'))
                    if not rp or rp[0] != 'this' or len(rp) != 2:
                        continue
                    F = rp[1]
                    bad = None
                    for c in fn.calls():
                        if c.get('cd') not in g or F not in g[c['cd']]:
                            continue
                        pk = c.get('pk', '')
                        for i, a in enumerate(c.get('args', [])):
                            sa = strip(a)
                            if sa is not None and sa['k'] == 'DeclRefExpr' and sa.get('d') == d['d'] and i < len(pk) and pk[i] == 'r':
                                bad = c
                    name = '%s %s(%s.size())' % (unit.tname(d['ts'])[:30], d['n'], F)
                    if bad is not None:
                        em.violation(n, name, '%s is sized with the current %s.size() and then passed to %s, which can grow %s: indices of the new elements lie past the end of %s' % (d['n'], F, unit.text(bad, 40), F, d['n']))
                    else:
                        em.ok(n, name, 'not handed to code that grows %s' % F)
