"""CLIOPT — the command-line front end maps options to InclParam/SimParam faithfully (C01, C04, C09).

cli/operations.hh is where "each with or without a simulation preorder computed on the disjoint union
of the prepared operands" is realised for the CLI. Instances and obligations in CheckInclusion /
ComputeSimulation:
  O1  every `options[K] == "v"` branch calls the setter registered for K with the constant registered
      for v (up->upward, down->downward, antichains/congr, yes->true, no->false, depth/breadth)
  O2  under `upward == ip.GetDirection()` the simulation relation is TA_UPWARD, under downward TA_DOWNWARD
      (ComputeSimulation: "up"->TA_UPWARD, "down"->TA_DOWNWARD, "fwd"->FA_FORWARD, "bwd"->FA_BACKWARD)
  O3  SetNumStates gets the count returned by SanitizeAutsForInclusion (CheckInclusion) / the counter of
      the re-indexing translator (ComputeSimulation)
  O4  the simulation handed to InclParam is computed on UnionDisjointStates(smaller, bigger) of the
      sanitised operands, in that order."""
from vfacts import strip, walk, method_name, known_facts, is_node
from .prov import var_table, local_sources, origins

RULE = 'CLIOPT'
FLOOR = 12
ANCHORS = ['CheckInclusion', 'ComputeSimulation']
TABLE = {('alg', 'antichains'): ('SetAlgorithm', 'antichains'), ('alg', 'congr'): ('SetAlgorithm', 'congruences'),
         ('dir', 'up'): ('SetDirection', 'upward'), ('dir', 'down'): ('SetDirection', 'downward'),
         ('rec', 'yes'): ('SetUseRecursion', True), ('rec', 'no'): ('SetUseRecursion', False),
         ('optC', 'yes'): ('SetUseDownwardCacheImpl', True), ('optC', 'no'): ('SetUseDownwardCacheImpl', False),
         ('sim', 'yes'): ('SetUseSimulation', True), ('sim', 'no'): ('SetUseSimulation', False),
         ('order', 'depth'): ('SetSearchOrder', 'depth'), ('order', 'breadth'): ('SetSearchOrder', 'breadth')}
SIMREL = {'up': 'TA_UPWARD', 'down': 'TA_DOWNWARD', 'fwd': 'FA_FORWARD', 'bwd': 'FA_BACKWARD',
          'upward': 'TA_UPWARD', 'downward': 'TA_DOWNWARD'}


def option_test(unit, cond):
    """(key, value) if cond is options["key"] == "value" """
    c = strip(cond)
    if c is None or c['k'] != 'CXXOperatorCallExpr' or c.get('op') != '==' or len(c.get('args', [])) != 2:
        return None
    key = val = None
    for a in c['args']:
        s = strip(a)
        lits = [x for x in walk(a) if x['k'] == 'StringLiteral']
        if s is not None and s['k'] == 'CXXOperatorCallExpr' and s.get('op') == '[]' and lits:
            key = lits[0].get('v')
        elif lits:
            val = lits[0].get('v')
    return (key, val) if key is not None and val is not None else None


def const_arg(e):
    e = strip(e)
    if e is None:
        return None
    if e['k'] == 'CXXBoolLiteralExpr':
        return e['v']
    if e['k'] == 'DeclRefExpr' and e.get('dk') == 'enumconst':
        return e['n']
    return None


def run(unit, em):
    for fn in unit.functions:
        if fn.body is None or 'cli/operations.hh' not in fn.file:
            continue
        name = fn.q.split('::')[-1]
        if name not in ANCHORS:
            continue
        em.anchor(fn, name)
        for n in fn.walk():
            if n['k'] != 'IfStmt':
                continue
            ot = option_test(unit, n['c'])
            if ot:
                key, val = ot
                calls = [c for c in walk(n.get('th'), lambdas=False) if c['k'] == 'CXXMemberCallExpr' and c.get('args')]
                # O1
                if (key, val) in TABLE:
                    want_m, want_v = TABLE[(key, val)]
                    hit = [c for c in calls if method_name(c) == want_m]
                    others = [c for c in calls if method_name(c) in {m for m, _ in TABLE.values()} and method_name(c) != want_m]
                    txt = 'options["%s"] == "%s"' % (key, val)
                    if hit and const_arg(hit[0]['args'][0]) == want_v and not others:
                        em.ok(n, txt, '%s(%s)' % (want_m, want_v), 'O1')
                    elif hit or others:
                        got = hit[0] if hit else others[0]
                        em.violation(n, txt, 'the option value "%s" of "%s" is mapped to %s: it must call %s(%s)' % (val, key, unit.text(got, 50), want_m, want_v), 'O1')
                # O2 (ComputeSimulation form)
                if key == 'dir' and val in SIMREL:
                    rel = [c for c in calls if method_name(c) == 'SetRelation']
                    if rel:
                        got = const_arg(rel[0]['args'][0])
                        txt = 'options["dir"] == "%s" -> %s' % (val, unit.text(rel[0], 60))
                        if got == SIMREL[val]:
                            em.ok(n, txt, 'relation %s' % got, 'O2')
                        else:
                            em.violation(n, txt, 'direction "%s" must select the simulation %s, not %s' % (val, SIMREL[val], got), 'O2')
            # O2 (CheckInclusion form): condition compares GetDirection() with an enum constant
            c = strip(n['c'])
            if c is not None and c['k'] == 'BinaryOperator' and c.get('op') == '==':
                sides = [strip(x) for x in c['ch']]
                en = next((const_arg(x) for x in sides if const_arg(x) in ('upward', 'downward')), None)
                isdir = any(x is not None and x['k'] == 'CXXMemberCallExpr' and method_name(x) == 'GetDirection' for x in sides)
                if en and isdir:
                    rel = [m for m in walk(n.get('th'), lambdas=False) if m['k'] == 'CXXMemberCallExpr' and method_name(m) == 'SetRelation']
                    if rel:
                        got = const_arg(rel[0]['args'][0])
                        txt = '%s == GetDirection() -> %s' % (en, unit.text(rel[0], 60))
                        if got == SIMREL[en]:
                            em.ok(n, txt, 'relation %s' % got, 'O2')
                        else:
                            em.violation(n, txt, 'the %s algorithm must be given the simulation %s, not %s' % (en, SIMREL[en], got), 'O2')
        # O3 / O4
        san = [c for c in fn.calls() if (c.get('q') or '').endswith('SanitizeAutsForInclusion')]
        nvars = set()
        L = None
        for c in san:
            a = [strip(x) for x in c.get('args', [])]
            if len(a) == 2 and all(x is not None and x['k'] == 'DeclRefExpr' for x in a):
                L = (a[0]['d'], a[1]['d'])
            p = c.get('_p')
            while p is not None and p['k'] in ('ImplicitCastExpr', 'ExprWithCleanups', 'ParenExpr'):
                p = p.get('_p')
            if p is not None and p['k'] == 'BinaryOperator' and p.get('op') == '=':
                l = strip(p['ch'][0])
                if l is not None and l['k'] == 'DeclRefExpr':
                    nvars.add(l['d'])
            elif p is not None and p['k'] == 'DeclStmt':
                nvars |= {d['d'] for d in p.get('decls', [])}
        # counters of by-reference translators (ComputeSimulation)
        for d, v in var_table(fn).items():
            if v['kind'] == 'local' and is_node(v['decl'].get('init')):
                for x in walk(v['decl']['init']):
                    if x['k'] == 'LambdaExpr':
                        for y in walk(x.get('body')):
                            if y['k'] == 'UnaryOperator' and y.get('op') == '++':
                                r = strip(y['ch'][0])
                                if r is not None and r['k'] == 'DeclRefExpr' and any(cp.get('d') == r['d'] and cp.get('byref') for cp in x.get('captures', [])):
                                    nvars.add(r['d'])
        for c in fn.calls():
            if c['k'] == 'CXXMemberCallExpr' and method_name(c) == 'SetNumStates' and c.get('args'):
                a = strip(c['args'][0])
                txt = unit.text(c, 50)
                if a is not None and a['k'] == 'DeclRefExpr' and a.get('d') in nvars:
                    em.ok(c, txt, 'state count from the renumbering that prepared the operands', 'O3')
                else:
                    em.violation(c, txt, 'the number of states handed to the simulation must be the count produced by the renumbering of the operands (SanitizeAutsForInclusion / the re-indexing counter)', 'O3')
        if L is not None:
            for c in fn.calls():
                if method_name(c) == 'UnionDisjointStates' and len(c.get('args', [])) >= 2:
                    a = [strip(x) for x in c['args'][:2]]
                    ds = [x.get('d') if x is not None and x['k'] == 'DeclRefExpr' else None for x in a]
                    txt = unit.text(c, 70)
                    if ds == [L[0], L[1]]:
                        em.ok(c, txt, 'union of the sanitised operands (smaller, bigger)', 'O4')
                    else:
                        em.violation(c, txt, 'the simulation must be computed on UnionDisjointStates of the two sanitised operands in (smaller, bigger) order', 'O4')
