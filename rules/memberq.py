"""MEMBERQ — a membership query is decided by looking the key up, and by nothing else (C12, C10).

`ContainsTransition`, `IsStateFinal`, `IsStateStart` of the explicit cores answer "is this in the automaton?".  The same
information is visible through iteration (`begin()/end()`, `GetFinalStates()`, the accepting/down iterators); C12 requires the
views to agree.  Instance: every `return` of such a query.  Obligation: every branch fact that controls the return is the
outcome of a lookup of (a part of) the key — `find(..) == / != end()`, `count(..)`, a null test of a looked-up pointer — or a
forward to a same-named query.  A verdict taken from anything else (a size comparison, a property of `*set.begin()` as a
stand-in for all elements) makes the query disagree with iteration on some automaton (seed C12-9: `false` when the first
stored tuple under the symbol has another arity — one symbol number used at several arities through the raw API)."""
from vfacts import strip, walk, method_name, known_facts, is_node
from .prov import var_table, local_sources

RULE = 'MEMBERQ'
FLOOR = 4
QUERIES = ('ContainsTransition', 'IsStateFinal', 'IsStateStart', 'IsFinalState')


def lookup_atom(fn, a, depth=0):
    a = strip(a)
    if a is None or depth > 4:
        return False
    k = a['k']
    if k in ('CXXOperatorCallExpr', 'BinaryOperator') and a.get('op') in ('==', '!=', '>', '<', '>=', '<='):
        ops = a.get('args') if k == 'CXXOperatorCallExpr' else a.get('ch')
        sides = [strip(x) for x in ops or []]
        def is_end(x):
            return x is not None and x['k'] == 'CXXMemberCallExpr' and method_name(x) in ('end', 'cend')
        def is_lookup(x):
            if x is None:
                return False
            if x['k'] == 'CXXMemberCallExpr' and method_name(x) in ('find', 'count', 'lower_bound'):
                return True
            if x['k'] == 'DeclRefExpr' and x.get('dk') == 'local':
                return any(any(y['k'] == 'CXXMemberCallExpr' and method_name(y) in ('find', 'count') for y in walk(s_)) for s_ in local_sources(fn, x.get('d')))
            return False
        if len(sides) == 2:
            if (is_end(sides[0]) and is_lookup(sides[1])) or (is_end(sides[1]) and is_lookup(sides[0])):
                return True
            if any(x is not None and x['k'] in ('CXXNullPtrLiteralExpr', 'GNUNullExpr') for x in sides):
                return True
            if any(x is not None and x['k'] == 'IntegerLiteral' for x in sides) and any(is_lookup(x) for x in sides):
                return True
    if k == 'CXXMemberCallExpr' and method_name(a) in ('count',):
        return True
    return False


def run(unit, em):
    for fn in unit.functions:
        if fn.body is None or 'explicit_' not in fn.file:
            continue
        name = fn.q.rsplit('::', 1)[-1]
        if name not in QUERIES or unit.tname(fn.d.get('ret')).strip() != 'bool':
            continue
        for r in fn.walk(lambdas=False):
            if r['k'] != 'ReturnStmt':
                continue
            facts, _ = known_facts(r)
            rv = (r.get('ch') or [None])[0]
            atoms = [a for _, a in facts]
            txt = unit.text(r, 60)
            bad = [a for a in atoms if not lookup_atom(fn, a)]
            # the returned expression itself: a lookup comparison, a literal, or a forward to a same-named query
            v = strip(rv) if is_node(rv) else None
            ok_val = v is None or v['k'] in ('CXXBoolLiteralExpr',) or lookup_atom(fn, v) or \
                (v['k'] in ('CXXMemberCallExpr', 'CallExpr') and (method_name(v) in QUERIES or method_name(v) in ('count', 'IsStateFinal')))
            if bad:
                em.violation(r, txt, 'this verdict of the membership query %s is taken under `%s`, which is not the outcome of looking the key up: the query can now disagree with what iteration over the '
                             'same automaton shows' % (name, unit.text(bad[0], 60)))
            elif not ok_val:
                em.unknown(r, txt, 'returned expression is not a recognised lookup')
            else:
                em.ok(r, txt, 'decided by lookups of the key only')
