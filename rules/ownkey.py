"""OWNKEY — a state drawn from one automaton is looked up in that automaton (C09, C01, C07, C10).

Instance: a range-for over a state container of an automaton-typed expression X (`X.startStates_`, `X.finalStates_`,
`X.GetFinalStates()`, ...) whose loop variable v is handed, as the state argument, to a *const query* of an automaton-typed
receiver Y (`Y.IsStateFinal(v)`, ...).  Obligation: Y is X.  The operands of the binary algorithms live in disjoint (or
merely coinciding) state numberings; asking operand B about a state of operand A answers for an unrelated state (seed
C09-10: the start-state finality of the smaller automaton was tested in the bigger one, so {eps} was never seen).
Setters on a result automaton are not instances (copying A's states into a result is the point of such loops)."""
import re
from vfacts import strip, walk, is_node, method_name, root_path

RULE = 'OWNKEY'
FLOOR = 3
AUT = re.compile(r'(Explicit(Finite|Tree)Aut(Core)?|BDD(BU|TD|BottomUp|TopDown)TreeAut(Core)?|ExplicitFA)\b')
STATE_SETS = ('startStates_', 'finalStates_', 'GetFinalStates', 'GetStartStates')


def aut_root(unit, e):
    """access path of an automaton-typed expression, or None"""
    e = strip(e)
    if e is None or not AUT.search(unit.ty(e).replace('const ', '')):
        return None
    return root_path(e)


def run(unit, em):
    for fn in unit.functions:
        if fn.body is None or '/src/' not in fn.file:
            continue
        for L in fn.walk():
            if L['k'] != 'CXXForRangeStmt' or not is_node(L.get('range')):
                continue
            r = strip(L['range'])
            X = None
            if r is not None and r['k'] == 'MemberExpr' and r.get('n') in STATE_SETS:
                X = aut_root(unit, (r.get('ch') or [None])[0])
            elif r is not None and r['k'] == 'CXXMemberCallExpr' and method_name(r) in STATE_SETS:
                X = aut_root(unit, r.get('obj'))
            if X is None:
                continue
            lv = L['var']['d']
            for c in walk(L.get('body')):
                if c['k'] != 'CXXMemberCallExpr' or not c.get('const') or not c.get('inrepo'):
                    continue
                if not any((strip(a) or {}).get('d') == lv for a in c.get('args') or []):
                    continue
                Y = aut_root(unit, c.get('obj'))
                if Y is None:
                    continue
                txt = unit.text(c, 60)
                if Y == X:
                    em.ok(c, txt, 'the state drawn from %s is looked up in %s' % ('.'.join(X[1:]) or 'this', '.'.join(Y[1:]) or 'this'))
                else:
                    em.violation(c, txt, 'the loop draws `%s` from the states of `%s` but asks `%s` about it: the two automata number their states independently, the answer belongs to an unrelated state' % (
                        L['var'].get('n'), '.'.join(X[1:]) or 'this', '.'.join(Y[1:]) or 'this'))
