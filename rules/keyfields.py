"""KEYFIELDS — a hashed key type distinguishes every one of its data members (C04, C01, C19).

Instance: every in-repo struct K used through a custom hash functor (a class whose
`size_t operator()(const K&)` combines fields of K). Obligation: every non-static data member of K
is looked at by the hash functor or by K::operator== (their union) — a member that neither of them
reads cannot keep two keys apart, so e.g. the environments of two rules that differ only in their
parent state collapse into one LTS node and the upward simulation is computed on a wrong encoding."""
from vfacts import strip, walk, method_name

RULE = 'KEYFIELDS'
FLOOR = 1
ANCHORS = ['env_hash']


def fields_of_param(fn, pd):
    out = set()
    for n in fn.walk():
        if n['k'] == 'MemberExpr' and n.get('dk') == 'field' and n.get('ch'):
            b = strip(n['ch'][0])
            if b is not None and b['k'] == 'DeclRefExpr' and b.get('d') == pd:
                out.add(n['n'])
    return out


def run(unit, em):
    recs = {r['rct']: r for r in unit.records}
    for fn in unit.functions:
        if fn.body is None or not fn.q.endswith('::operator()') or len(fn.params) != 1:
            continue
        if 'unsigned long' != fn.ret:
            continue
        kt = unit.tname(fn.params[0]['t']).replace('const ', '').replace('&', '').strip()
        K = recs.get(kt)
        if K is None or not K['fields']:
            continue
        hashed = fields_of_param(fn, fn.params[0]['d'])
        if not hashed:
            continue
        hname = (fn.cls or '').split('::')[-1]
        if hname == 'env_hash':
            em.anchor(fn, 'env_hash')
        # K::operator==
        eq = set()
        for f2 in unit.functions:
            if f2.body is not None and f2.q.endswith('::operator==') and f2.d.get('rc') is not None and unit.tname(f2.d['rc']) == kt and len(f2.params) == 1:
                eq = fields_of_param(f2, f2.params[0]['d'])
        allf = [f['n'] for f in K['fields']]
        missing = [f for f in allf if f not in hashed and f not in eq]
        name = 'key %s hashed by %s' % (kt.split('::')[-1], hname)
        if missing:
            em.violation(fn, name, 'member(s) %s of the key are read neither by the hash functor nor by operator==: two keys that differ only there are identified' % ', '.join(missing))
        else:
            em.ok(fn, name, 'hash reads {%s}, operator== reads {%s}: together all of {%s}' % (', '.join(sorted(hashed)), ', '.join(sorted(eq)), ', '.join(allf)))


# ---- clause `twins`: comparison methods of one key type with the same signature look at the same members
def compared_fields(unit, fn):
    """members f of the own record that the method reads both on itself and on its first parameter"""
    if not fn.params:
        return set()
    pd = fn.params[0]['d']
    mine, theirs = set(), set()
    for n in fn.walk():
        if n['k'] != 'MemberExpr' or n.get('dk', 'field') != 'field':
            continue
        b = n.get('ch') or [n.get('obj')]
        x = strip(b[0]) if b and b[0] else None
        if x is None or x['k'] == 'CXXThisExpr':
            mine.add(n.get('n'))
        elif x['k'] == 'DeclRefExpr' and x.get('d') == pd:
            theirs.add(n.get('n'))
    return mine & theirs


def run_twins(unit, em):
    groups = {}
    for fn in unit.functions:
        if fn.body is None or not fn.d.get('rcd') or not fn.params or not fn.d.get('const'):
            continue
        if unit.tname(fn.d.get('ret')) != 'bool' or len(fn.params) < 2:
            continue        # operator== (one parameter) is checked against the hash by the main clause
        rc = unit.tname(fn.d.get('rc', -1))
        pt = [unit.ty(p).replace('const ', '').replace('&', '').strip() for p in fn.params]
        if pt[0] != rc.replace('const ', '').strip():
            continue
        groups.setdefault((fn.d['rcd'], tuple(pt)), []).append(fn)
    for (rcd, pt), fns in groups.items():
        # de-duplicate instantiations of the same method
        byname = {}
        for f in fns:
            byname.setdefault(f.q.split('::')[-1], f)
        if len(byname) < 2:
            continue
        sets = {n: compared_fields(unit, f) for n, f in byname.items()}
        names = sorted(byname)
        ref = set().union(*sets.values())
        first = byname[names[0]]
        cname = 'comparison twins %s of %s' % ('/'.join(names), unit.tname(first.d.get('rc', -1)).split('::')[-1])
        bad = [(n, sorted(ref - s)) for n, s in sets.items() if ref - s]
        if bad:
            n, miss = bad[0]
            em.violation(byname[n], cname, '`%s` does not compare the member(s) %s that its twin(s) with the same signature compare: elements that differ only there are treated as equal/related by one and distinct by the other (e.g. environments f(□,q) and f(q,□) start in one partition block)' % (n, ', '.join(miss)), 'twins')
        else:
            em.ok(first, cname, 'all compare %s' % ', '.join(sorted(ref)), 'twins')


_run_main = run


def run(unit, em):
    _run_main(unit, em)
    run_twins(unit, em)
