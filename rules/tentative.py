"""TENTATIVE — nothing is done with a tentatively inserted map entry before it is confirmed (C02; product constructions).

Idiom: `auto r = M.insert(make_pair(key, M.size()))` reserves an entry (and a number) that a later test may
take back with `M.erase(key)` — the number is then handed to the next entry created.  Instance: every function
with an insert into a map M whose result is kept in a local and an `M.erase(..)` of the same map.  Obligation:
no call that hands the reserved entry / its mapped value (through the insert result or a local derived from
its `.first`) to another object lies on a CFG path that can still reach that erase before the insert is
executed again: an effect made under a number that is taken back survives on whichever entry gets the number
next (a product state final although its components are not)."""
from vfacts import strip, walk, is_node, method_name, root_path, must_pass_through
from .prov import var_table, origins

RULE = 'TENTATIVE'
FLOOR = 2
ANCHORS = ['ExplicitTreeAutCore::IntersectionBU']


def run(unit, em):
    for fn in unit.functions:
        if fn.body is None or '/src/' not in fn.file:
            continue
        vt = var_table(fn)
        inserts = []
        for d, v in vt.items():
            if v['kind'] != 'local' or not is_node(v['decl'].get('init')):
                continue
            i = strip(v['decl']['init'])
            if i is not None and i['k'] == 'CXXMemberCallExpr' and method_name(i) in ('insert', 'emplace') and 'pair<' in unit.ty(v['decl']):
                M = root_path(i.get('obj'))
                if M:
                    inserts.append((d, v, i, M))
        if not inserts:
            continue
        erases = [c for c in fn.calls() if c['k'] == 'CXXMemberCallExpr' and method_name(c) == 'erase']
        short = fn.q.replace('VATA::', '')
        cfg = None
        for d, v, ins, M in inserts:
            er = [c for c in erases if root_path(c.get('obj')) == M]
            if not er:
                continue
            if short in ANCHORS:
                em.anchor(fn, short)
            # locals derived from the insert result's iterator (not the bool)
            derived = {d}
            changed = True
            while changed:
                changed = False
                for d2, v2 in vt.items():
                    if d2 in derived or v2['kind'] != 'local' or not is_node(v2['decl'].get('init')):
                        continue
                    if unit.ty(v2['decl']).replace('const ', '').strip() == 'bool':
                        continue
                    if any(x['k'] == 'DeclRefExpr' and x.get('d') in derived for x in walk(v2['decl']['init'])):
                        derived.add(d2)
                        changed = True
            if cfg is None:
                cfg = fn.cfg()
            if cfg is None:
                continue
            er_ids = {id(x) for c in er for x in walk(c)}
            uses = []
            for c in fn.calls():
                if any(c is e_ for e_ in er) or c is ins:
                    continue
                if c['k'] == 'CXXMemberCallExpr' and (c.get('const') or root_path(c.get('obj')) == M):
                    continue
                if c['k'] not in ('CXXMemberCallExpr', 'CallExpr'):
                    continue
                if not c.get('inrepo') and method_name(c) not in ('push_back', 'insert', 'emplace', 'emplace_back', 'push'):
                    continue
                if any(x['k'] == 'DeclRefExpr' and x.get('d') in derived for a in c.get('args') or [] for x in walk(a)):
                    uses.append(c)
            name = v['decl'].get('n') or '?'
            for u_ in uses:
                pos = cfg.locate(u_)
                if pos is None:
                    continue
                ok, w = must_pass_through(cfg, pos, lambda n: id(n) in er_ids, lambda n: n is v['node'])
                txt = unit.text(u_, 70)
                if ok:
                    em.ok(u_, txt, 'made after the entry reserved by `%s` can no longer be erased' % name, 'confirmed')
                else:
                    em.violation(u_, txt, 'this uses the entry reserved by `%s`, but the entry can still be taken back by the erase at line %d: the effect then sticks to whichever entry is created next under the same number' % (name, unit.loc(w)[1] if w else 0), 'confirmed')
