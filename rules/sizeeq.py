"""SIZEEQ — cardinality is not equality (C03, C05, C15).

Instance: every branch condition `X.size() == Y.size()` between two different containers in the
automata sources. Obligation: it must not guard returning or sharing the unchanged input
(`return *this`, `r.transitions_ = transitions_`): equal sizes do not make the sets equal, so a dead
state can survive while a rule-less one makes the counts agree. (No subset-by-construction idiom
is currently accepted; none occurs.) Today's tree has no violating instance after the F2 repair,
so a witness (witness/src/sizeeq.cc) must fire on every run."""
from vfacts import strip, walk, method_name, root_path, conjuncts

RULE = 'SIZEEQ'
FLOOR = 0
WITNESS = 'src/sizeeq.cc'


def size_cmp(c):
    c = strip(c)
    if c is None or c['k'] != 'BinaryOperator' or c.get('op') != '==':
        return None
    s = [strip(x) for x in c['ch']]
    if all(x is not None and x['k'] == 'CXXMemberCallExpr' and method_name(x) == 'size' for x in s):
        a, b = root_path(s[0].get('obj')), root_path(s[1].get('obj'))
        if a is not None and b is not None and a != b:
            return a, b
    return None


def shares_input(unit, region):
    for n in walk(region, lambdas=False):
        if n['k'] == 'ReturnStmt':
            for x in walk(n):
                if x['k'] == 'UnaryOperator' and x.get('op') == '*':
                    s = strip(x['ch'][0])
                    if s is not None and s['k'] == 'CXXThisExpr':
                        return 'return *this'
        if n['k'] == 'CXXOperatorCallExpr' and n.get('op') == '=' and len(n.get('args', [])) == 2:
            l, r = strip(n['args'][0]), strip(n['args'][1])
            if l is not None and r is not None and l['k'] == 'MemberExpr' and r['k'] == 'MemberExpr' and l['n'] == r['n'] == 'transitions_':
                rb = strip((r.get('ch') or [None])[0])
                if rb is not None and rb['k'] == 'CXXThisExpr':
                    return unit.text(n, 50)
    return None


def run(unit, em):
    for fn in unit.functions:
        f = fn.file
        if fn.body is None or '/src/' not in f or '/mtbdd/' in f or '/util/' in f:
            continue
        for n in fn.walk():
            if n['k'] != 'IfStmt':
                continue
            from .prov import bool_leaves
            seen = set()
            cands = [(pol, atom) for pol, atom in conjuncts(n['c'], True)]
            # a size comparison that takes part in the decision through `||` or through a bool local licenses the branch as well
            cands += [(True, leaf) for leaf in bool_leaves(fn, n['c'])]
            for pol, atom in cands:
                sc = size_cmp(atom) if pol else None
                if not sc or id(strip(atom)) in seen:
                    continue
                seen.add(id(strip(atom)))
                how = shares_input(unit, n.get('th'))
                txt = unit.text(atom, 90)
                if how:
                    em.violation(n, txt, 'equal cardinalities of two different containers guard `%s`: the sets need not be equal, so unreachable rules can be kept' % how)
                else:
                    em.ok(n, txt, 'does not guard returning/sharing the unchanged input')
