"""SCRATCHRESET — a scratch container is emptied between two hand-overs (C02, C07, C08, C10, C13, C14).

Instance: a local container V (not a reference) that is filled element-wise (`V.push_back/insert/
emplace_back`) and handed over by value or const reference to a call (`result.insert(V)`,
`AddTransition(V, ...)`, `Transition(V, ...)`, `return V`-style copies excluded only when V is the
returned accumulator itself — they end the function anyway).  Obligation: on every CFG path from a
hand-over to a later fill of V, V is reset (its declaration is re-executed, `clear`/`resize`/`assign`/
`swap`, whole assignment, or a shrinking `pop_back`/`erase`, which marks a deliberate stack discipline).
Otherwise the next hand-over delivers the previous content plus the new one (product tuples of two rhs
tuples concatenated, children of two rules merged).
Not a hand-over: a constructor whose class keeps a *reference* member of V's type (it aliases V, e.g.
ChoiceVector(processed, fixedList))."""
from vfacts import strip, walk, is_node, method_name, must_pass_through
from .prov import var_table

RULE = 'SCRATCHRESET'
FLOOR = 20
ANCHORS = []   # instances move into helpers/lambdas under extraction refactorings (refactor/F-6); health is judged by the floor

FILLS = ('push_back', 'insert', 'emplace_back', 'emplace', 'push_front')
RESETS = ('clear', 'resize', 'assign', 'swap', 'pop_back', 'pop_front', 'erase')


def base(t):
    return t.replace('const ', '').replace('&', '').strip()


def run(unit, em):
    refholders = None
    for fn in unit.functions:
        if fn.body is None:
            continue
        short = fn.q.replace('VATA::', '')
        vt = var_table(fn)
        cfg = None
        anchored = False
        cand = {}
        for n in fn.walk(lambdas=False):
            k = n['k']
            if k == 'CXXMemberCallExpr' and method_name(n) in FILLS:
                o = strip(n.get('obj'))
                if o is not None and o['k'] == 'DeclRefExpr' and o.get('d') in vt:
                    cand.setdefault(o['d'], ([], []))[0].append(n)
            if k in ('CXXMemberCallExpr', 'CallExpr', 'CXXConstructExpr', 'CXXOperatorCallExpr', 'CXXTemporaryObjectExpr'):
                pk = n.get('pk') or ''
                for i, a in enumerate(n.get('args') or []):
                    if k == 'CXXOperatorCallExpr' and i == 0:
                        continue
                    s = strip(a)
                    if s is not None and s['k'] == 'DeclRefExpr' and s.get('d') in vt and (i >= len(pk) or pk[i] in 'cv'):
                        cand.setdefault(s['d'], ([], []))[1].append(n)
        for d, (fills, uses) in cand.items():
            v = vt[d]
            if v['kind'] != 'local' or not fills or not uses:
                continue
            t = unit.ty(v['decl'])
            if t.rstrip().endswith('&') or t.rstrip().endswith('*'):
                continue
            if cfg is None:
                cfg = fn.cfg()
            if cfg is None:
                continue
            if short in ANCHORS and not anchored:
                em.anchor(fn, short)
                anchored = True

            def marker(n, d=d, v=v):
                if n is v['node']:
                    return True
                k = n['k']
                if k == 'DeclStmt' and any(x['d'] == d for x in n.get('decls', [])):
                    return True
                if k == 'CXXMemberCallExpr' and method_name(n) in RESETS and (strip(n.get('obj')) or {}).get('d') == d:
                    return True
                if k == 'CXXOperatorCallExpr' and n.get('op') == '=' and n.get('args') and (strip(n['args'][0]) or {}).get('d') == d:
                    return True
                if k in ('CallExpr',) and (n.get('q') or '').endswith('swap') and any((strip(a) or {}).get('d') == d for a in n.get('args') or []):
                    return True
                return False
            name = v['decl'].get('n') or '?'
            for s in uses:
                if s['k'] in ('CXXConstructExpr', 'CXXTemporaryObjectExpr'):
                    if refholders is None:
                        refholders = {}
                        for r in unit.records:
                            refs = [base(unit.tname(f.get('t'))) for f in r.get('fields', []) if unit.tname(f.get('t')).rstrip().endswith('&')]
                            if refs:
                                refholders[r['rct'].replace('const ', '').strip()] = refs
                    ct = base(unit.ty(s))
                    if base(t) in refholders.get(ct, []) or any(base(t) in x or x in base(t) for x in refholders.get(ct, [])):
                        continue
                pos = cfg.locate(s)
                if pos is None:
                    continue
                ok, w = must_pass_through(cfg, pos, lambda n: any(n is f_ for f_ in fills), marker)
                txt = unit.text(s, 70)
                if ok:
                    em.ok(s, txt, '%s is reset (or re-declared) before it is filled again' % name, 'reset')
                else:
                    em.violation(s, txt, '`%s` is handed over here and filled again at line %d without being emptied in between: the next hand-over carries the previous elements too' % (name, unit.loc(w)[1] if w else 0), 'reset')
