"""SCRATCHRESET — a scratch container is emptied between two hand-overs (C02, C07, C08, C10, C13, C14).

Instance: a local container V (not a reference) that is filled element-wise (`V.push_back/insert/
emplace_back`) and handed over by value or const reference to a call (`result.insert(V)`,
`AddTransition(V, ...)`, `Transition(V, ...)`, `return V`-style copies excluded only when V is the
returned accumulator itself — they end the function anyway).  Obligation: on every CFG path from a
hand-over to a later fill of V, V is reset (its declaration is re-executed, `clear`/`resize`/`assign`/
`swap`, whole assignment, or a shrinking `pop_back`/`erase`, which marks a deliberate stack discipline).
Otherwise the next hand-over delivers the previous content plus the new one (product tuples of two rhs
tuples concatenated, children of two rules merged).
Not a hand-over: a constructor whose class keeps a *reference* member of V's type (it aliases V, e.g.
ChoiceVector(processed, fixedList))."""
from vfacts import strip, walk, is_node, method_name, must_pass_through, enclosing
from .prov import var_table

RULE = 'SCRATCHRESET'
FLOOR = 20
ANCHORS = []   # instances move into helpers/lambdas under extraction refactorings (refactor/F-6); health is judged by the floor

FILLS = ('push_back', 'insert', 'emplace_back', 'emplace', 'push_front')
LOOPS = ('ForStmt', 'WhileStmt', 'DoStmt', 'CXXForRangeStmt')
RESETS = ('clear', 'resize', 'assign', 'swap', 'pop_back', 'pop_front', 'erase')


def base(t):
    return t.replace('const ', '').replace('&', '').strip()


def run(unit, em):
    refholders = None
    for fn in unit.functions:
        if fn.body is None:
            continue
        short = fn.q.replace('VATA::', '')
        vt = var_table(fn)
        cfg = None
        anchored = False
        cand = {}
        for n in fn.walk(lambdas=False):
            k = n['k']
            if k == 'CXXMemberCallExpr' and method_name(n) in FILLS:
                o = strip(n.get('obj'))
                if o is not None and o['k'] == 'DeclRefExpr' and o.get('d') in vt:
                    cand.setdefault(o['d'], ([], []))[0].append(n)
            if k in ('CXXMemberCallExpr', 'CallExpr', 'CXXConstructExpr', 'CXXOperatorCallExpr', 'CXXTemporaryObjectExpr'):
                pk = n.get('pk') or ''
                for i, a in enumerate(n.get('args') or []):
                    if k == 'CXXOperatorCallExpr' and i == 0:
                        continue
                    s = strip(a)
                    if s is not None and s['k'] == 'DeclRefExpr' and s.get('d') in vt and (i >= len(pk) or pk[i] in 'cv'):
                        cand.setdefault(s['d'], ([], []))[1].append(n)
        for d, (fills, uses) in cand.items():
            v = vt[d]
            if v['kind'] != 'local' or not fills or not uses:
                continue
            t = unit.ty(v['decl'])
            if t.rstrip().endswith('&') or t.rstrip().endswith('*'):
                continue
            if cfg is None:
                cfg = fn.cfg()
            if cfg is None:
                continue
            if short in ANCHORS and not anchored:
                em.anchor(fn, short)
                anchored = True

            def marker(n, d=d, v=v):
                if n is v['node']:
                    return True
                k = n['k']
                if k == 'DeclStmt' and any(x['d'] == d for x in n.get('decls', [])):
                    return True
                if k == 'CXXMemberCallExpr' and method_name(n) in RESETS and (strip(n.get('obj')) or {}).get('d') == d:
                    return True
                if k == 'CXXOperatorCallExpr' and n.get('op') == '=' and n.get('args') and (strip(n['args'][0]) or {}).get('d') == d:
                    return True
                if k in ('CallExpr',) and (n.get('q') or '').endswith('swap') and any((strip(a) or {}).get('d') == d for a in n.get('args') or []):
                    return True
                return False
            name = v['decl'].get('n') or '?'
            for s in uses:
                if s['k'] in ('CXXMemberCallExpr', 'CallExpr') and s.get('inrepo') and unit.ty(s).strip() not in ('void', '') and s.get('const', s['k'] == 'CallExpr'):
                    # a const query on the container's content whose answer is used (`findClassOf(i, head)`) reads it, it does not
                    # take it over: the container may go on growing
                    par = s.get('_p')
                    while par is not None and par['k'] in ('ExprWithCleanups', 'ImplicitCastExpr', 'ParenExpr', 'MaterializeTemporaryExpr', 'CXXBindTemporaryExpr'):
                        par = par.get('_p')
                    if par is not None and par['k'] != 'CompoundStmt':
                        continue
                if s['k'] in ('CXXConstructExpr', 'CXXTemporaryObjectExpr'):
                    if refholders is None:
                        refholders = {}
                        for r in unit.records:
                            refs = [base(unit.tname(f.get('t'))) for f in r.get('fields', []) if unit.tname(f.get('t')).rstrip().endswith('&')]
                            if refs:
                                refholders[r['rct'].replace('const ', '').strip()] = refs
                    ct = base(unit.ty(s))
                    if base(t) in refholders.get(ct, []) or any(base(t) in x or x in base(t) for x in refholders.get(ct, [])):
                        continue
                pos = cfg.locate(s)
                if pos is None:
                    continue
                ok, w = must_pass_through(cfg, pos, lambda n: any(n is f_ for f_ in fills), marker)
                txt = unit.text(s, 70)
                if ok:
                    em.ok(s, txt, '%s is reset (or re-declared) before it is filled again' % name, 'reset')
                else:
                    em.violation(s, txt, '`%s` is handed over here and filled again at line %d without being emptied in between: the next hand-over carries the previous elements too' % (name, unit.loc(w)[1] if w else 0), 'reset')
                    continue
                # iteration clause: the loop in which the hand-over happens starts every iteration with V empty — V is
                # reset before its first fill of the iteration, or after the last fill on every path to the next iteration
                # (a hand-over that is skipped, e.g. because a size test fails, must not leave a partial fill behind)
                L = enclosing(s, LOOPS)
                if L is None or any(x is v['node'] for x in walk(L)):
                    continue        # not in a loop / V is declared inside it
                if not any(any(x is f_ for x in walk(L)) for f_ in fills):
                    continue
                body = L.get('body')
                first = None
                for m_ in walk(body):
                    if m_ is not body and cfg.locate(m_) is not None:
                        first = m_
                        break
                nxt = L.get('inc') if is_node(L.get('inc')) else L.get('c')
                if first is None or not is_node(nxt):
                    continue
                nxt_ids = {id(x) for x in walk(nxt)}
                fill_in = [f_ for f_ in fills if any(x is f_ for x in walk(L))]
                pre_ok, _ = must_pass_through(cfg, cfg.locate(first), lambda n: any(n is f_ for f_ in fill_in), marker, start_after=False)
                post_ok = True
                wpost = None
                for f_ in fill_in:
                    pf = cfg.locate(f_)
                    if pf is None:
                        continue
                    o2, w2 = must_pass_through(cfg, pf, lambda n: id(n) in nxt_ids, marker)
                    if not o2:
                        post_ok, wpost = False, f_
                if pre_ok or post_ok:
                    em.ok(s, txt + ' [iteration]', '%s is empty at the start of every iteration of the enclosing loop' % name, 'iteration')
                else:
                    em.violation(s, txt + ' [iteration]', '`%s` is filled at line %d and the next iteration of the enclosing loop can start without it having been emptied (the reset is only on the path through the hand-over): a skipped hand-over leaves its partial fill in front of the next one' % (name, unit.loc(wpost)[1] if wpost else 0), 'iteration')
