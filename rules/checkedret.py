"""CHECKEDRET — the boolean verdict of an in-repository function is not thrown away (C12, C20, C01, C09).

Throughout libvata a `bool` result is a verdict the caller needs: "found", "inserted", "positioned on an element", "included".
On the tree every call of an in-repo function returning `bool` uses the result, with one exception that was read and frozen
(below).  Instance: every such call.  Obligation: the value is used (tested, stored, returned, passed on).  A call whose value
is discarded marks a callee whose contract changed while this caller was not adapted (seed C12-10: `init()` of the accepting-
transition iterator became `bool init()` = "positioned on a state that has rules"; `operator++` went on ignoring it and left the
iterator singular on the first final state without rules, so the rules of the remaining final states were never enumerated)."""
from vfacts import strip, walk

RULE = 'CHECKEDRET'
FLOOR = 150
# one named symbol each, with the reason (confirmed by reading)
FROZEN = {
    'VATA::ExplicitFACongrEquivFunctor::GetCongrClosure': 'called for its side effect on the congruence map; the verdict only matters to the early-exit variant of the caller',
}
STMT_ROLES = ('th', 'el', 'body', 'inc')


def run(unit, em):
    for fn in unit.functions:
        if fn.body is None or not ('/src/' in fn.file or '/include/' in fn.file or '/cli/' in fn.file):
            continue
        for c in fn.calls():
            if not c.get('inrepo') or c['k'] not in ('CXXMemberCallExpr', 'CallExpr', 'CXXOperatorCallExpr'):
                continue
            if c['k'] == 'CXXOperatorCallExpr' and c.get('op') != '()':
                continue
            if unit.ty(c).strip() != 'bool':
                continue
            par = c.get('_p')
            child = c
            while par is not None and par['k'] in ('ExprWithCleanups', 'ImplicitCastExpr', 'ParenExpr'):
                child, par = par, par.get('_p')
            discarded = par is not None and (par['k'] == 'CompoundStmt' or
                                             (par['k'] in ('IfStmt', 'ForStmt', 'WhileStmt', 'CXXForRangeStmt', 'DoStmt', 'LabelStmt', 'CaseStmt', 'DefaultStmt') and child.get('_role') in STMT_ROLES + ('sub', 'ch')) and
                                             not (par['k'] in ('IfStmt', 'WhileStmt', 'DoStmt', 'ForStmt') and child.get('_role') == 'c'))
            if par is not None and par['k'] == 'CStyleCastExpr':
                discarded = False
            txt = unit.text(c, 60)
            q = c.get('q') or ''
            if not discarded:
                em.ok(c, txt, 'the verdict is used')
            elif q in FROZEN:
                em.ok(c, txt, 'frozen exception: ' + FROZEN[q])
            else:
                em.violation(c, txt, 'the `bool` result of %s is discarded here although every other caller in the library acts on such verdicts: the callee reports something (found / positioned / inserted) that this '
                             'caller goes on without knowing' % q.replace('VATA::', ''))
