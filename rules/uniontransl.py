"""UNIONTRANSL — a union that renumbers both operands keeps their state spaces apart (C02, C08, C10).

Instances: every function that re-indexes two *different* operand automata into one destination
(`lhs.ReindexStates(res, T1); rhs.ReindexStates(res, T2)`): the four `Union` cores.

  U1  the translation maps backing T1 and T2 are disjoint storage.  The map of a translator is the first
      constructor argument; `*p` resolves to the points-to set of p = {the caller's map, if p is a
      parameter} + {x : `p = &x` in the function}.  A map common to both sets means an rhs state whose
      number occurs in lhs is taken as already translated and glued onto the lhs state.
  U2  the fresh-id callables of T1 and T2 draw from ONE counter captured by reference (two counters, or a
      by-value capture, would hand out the same numbers to both operands).
"""
from vfacts import strip, walk, is_node, method_name, root_path
from .prov import var_table, assignments

RULE = 'UNIONTRANSL'
FLOOR = 6
ANCHORS = ['ExplicitTreeAutCore::Union', 'ExplicitFiniteAutCore::Union', 'BDDBUTreeAutCore::Union', 'BDDTDTreeAutCore::Union']


def points_to(unit, fn, e, depth=0):
    """storage the lvalue expression e may denote: set of ('param', d) / ('local', d)"""
    e = strip(e)
    if e is None or depth > 4:
        return None
    vt = var_table(fn)
    if e['k'] == 'DeclRefExpr':
        v = vt.get(e.get('d'))
        if v is None:
            return None
        t = unit.ty(v['decl'])
        if t.rstrip().endswith('&') and v['kind'] == 'local' and is_node(v['decl'].get('init')):
            return points_to(unit, fn, v['decl']['init'], depth + 1)
        return {('param' if v['kind'] == 'param' else 'local', e['d'])}
    if e['k'] == 'UnaryOperator' and e.get('op') == '*':
        p = strip(e['ch'][0])
        if p is None or p['k'] != 'DeclRefExpr':
            return None
        v = vt.get(p['d'])
        if v is None:
            return None
        out = set()
        if v['kind'] == 'param':
            out.add(('param', p['d']))
        elif is_node(v['decl'].get('init')):
            r = addr_of(unit, fn, v['decl']['init'], depth)
            if r is None:
                return None
            out |= r
        for lhs, rhs, an in assignments(fn):
            l = strip(lhs)
            if l is not None and l['k'] == 'DeclRefExpr' and l.get('d') == p['d']:
                r = addr_of(unit, fn, rhs, depth)
                if r is None:
                    return None
                out |= r
        return out
    return None


def addr_of(unit, fn, e, depth):
    e = strip(e)
    if e is None:
        return None
    if e['k'] == 'UnaryOperator' and e.get('op') == '&':
        return points_to(unit, fn, e['ch'][0], depth + 1)
    if e['k'] in ('CXXNullPtrLiteralExpr', 'GNUNullExpr', 'IntegerLiteral'):
        return set()
    if e['k'] == 'DeclRefExpr':      # pointer copied from another pointer
        return points_to(unit, fn, {'k': 'UnaryOperator', 'op': '*', 'ch': [e], 'i': -1}, depth + 1)
    return None


def counter_of(fn, e):
    """decl id of the counter a fresh-id callable post-increments through a by-reference capture, else None"""
    lam = None
    vt = var_table(fn)
    for n in walk(e):
        if n['k'] == 'LambdaExpr':
            lam = n
            break
        if n['k'] == 'DeclRefExpr' and n.get('d') in vt:
            v = vt[n['d']]
            if is_node(v['decl'].get('init')):
                for m in walk(v['decl']['init']):
                    if m['k'] == 'LambdaExpr':
                        lam = m
                        break
            if lam is not None:
                break
    if lam is None:
        return None, None
    for n in walk(lam.get('body')):
        if n['k'] == 'UnaryOperator' and n.get('op') in ('++',):
            r = strip(n['ch'][0])
            if r is not None and r['k'] == 'DeclRefExpr':
                for c in lam.get('captures', []):
                    if c.get('d') == r['d']:
                        return r['d'], bool(c.get('byref'))
                if lam.get('defcap') == '&':
                    return r['d'], True
    return None, None


def run(unit, em):
    for fn in unit.functions:
        if fn.body is None:
            continue
        params = {p['d'] for p in fn.params}
        re = []
        for c in fn.calls():
            if c['k'] == 'CXXMemberCallExpr' and method_name(c) == 'ReindexStates' and len(c.get('args', [])) >= 2:
                o = strip(c.get('obj'))
                if o is not None and o['k'] == 'DeclRefExpr' and o.get('d') in params:
                    re.append((o['d'], c))
        if len({d for d, _ in re}) < 2:
            continue
        short = fn.q.replace('VATA::', '')
        if short in ANCHORS:
            em.anchor(fn, short)
        (d1, c1), (d2, c2) = re[0], [x for x in re if x[0] != re[0][0]][0]
        dst1, dst2 = root_path(c1['args'][0]), root_path(c2['args'][0])
        if dst1 is None or dst1 != dst2:
            continue
        vt = var_table(fn)
        tr = []
        for c in (c1, c2):
            t = strip(c['args'][1])
            v = vt.get(t.get('d')) if t is not None and t['k'] == 'DeclRefExpr' else None
            init = strip(v['decl'].get('init')) if v and is_node(v['decl'].get('init')) else None
            tr.append(init if init is not None and init['k'] == 'CXXConstructExpr' and len(init.get('args', [])) >= 2 else None)
        desc = '%s: translators of the two operands' % short
        if tr[0] is None or tr[1] is None:
            if (strip(c1['args'][1]) or {}).get('d') == (strip(c2['args'][1]) or {}).get('d') and (strip(c1['args'][1]) or {}).get('d') is not None:
                em.violation(c2, desc, 'both operands are re-indexed through one translator: equal state numbers of the operands are identified', 'U1')
            else:
                em.unknown(c2, desc, 'translator construction not resolved', 'U1')
            continue
        s1, s2 = points_to(unit, fn, tr[0]['args'][0]), points_to(unit, fn, tr[1]['args'][0])
        if s1 is None or s2 is None:
            em.unknown(c2, desc, 'translation map storage not resolved', 'U1')
        elif s1 & s2:
            names = ', '.join(sorted((vt[d]['decl'].get('n') or '?') for _, d in (s1 & s2)))
            em.violation(c2, desc, 'the translation maps of the two operands can be the same object (%s): an rhs state whose number occurs in lhs is treated as already translated and glued onto the lhs state' % names, 'U1')
        else:
            em.ok(c2, desc, 'translation maps are disjoint storage (%d / %d candidates)' % (len(s1), len(s2)), 'U1')
        k1, r1 = counter_of(fn, tr[0]['args'][1])
        k2, r2 = counter_of(fn, tr[1]['args'][1])
        desc = '%s: fresh-id counter' % short
        if k1 is None or k2 is None:
            em.unknown(c2, desc, 'fresh-id callable not resolved', 'U2')
        elif k1 != k2:
            em.violation(c2, desc, 'the two translators count fresh states with different counters: both operands receive the same new numbers', 'U2')
        elif not (r1 and r2):
            em.violation(c2, desc, 'the counter is captured by value: each translator counts from its own copy and both operands receive the same new numbers', 'U2')
        else:
            em.ok(c2, desc, 'one counter captured by reference feeds both translators', 'U2')
