"""FLAGRESET — an accumulated boolean is reset before it is accumulated again after having been read (C01, C09, C19).

Instance: a local `bool f` that is accumulated (`f = f || e`, `f |= e`, `f = f && e`, `f &= e`, or set to the
constant opposite to its initialiser: `bool f = false; ... f = true;`) and read in a branch condition.  The accumulation makes f sticky: OR-accumulated flags stay true, AND-accumulated ones stay
false (the *dirty* value).  Obligation: on every CFG path that leaves a read of f with f dirty (only the
branch edges consistent with the dirty value are followed, so `res &= x; if (!res) return false;` is fine)
and reaches a later accumulation of f, f is assigned afresh (plain assignment / re-declaration).  Otherwise
a verdict for one element (e.g. "some B-state for this leaf symbol is accepting") leaks into the next
element's test, and which element comes first is decided by hash-map order."""
from vfacts import strip, walk, is_node, must_pass_through
from .prov import var_table

RULE = 'FLAGRESET'
FLOOR = 2
ANCHORS = ['ExplicitUpwardInclusion::checkInternal']


LOOPS = ('ForStmt', 'WhileStmt', 'DoStmt', 'CXXForRangeStmt')


def loop_depth(n):
    k = 0
    p = n.get('_p') if n is not None else None
    while p is not None:
        if p['k'] in LOOPS:
            k += 1
        p = p.get('_p')
    return k


def per_iteration_twin(unit, fn, v):
    """a sibling implementation (registered pair, rules/sibling.py) of the same method declares a same-named bool local
    deeper inside its loops: there the flag is per iteration, so here it must be reset per iteration as well"""
    from .sibling import PAIRS
    cls = fn.q.rsplit('::', 1)[0]
    twin = None
    for a, b in PAIRS:
        if cls.startswith(a) and not cls.startswith(b):
            twin = b
        elif cls.startswith(b):
            twin = a
    if twin is None:
        return False
    mname = fn.q.rsplit('::', 1)[-1]
    mine = loop_depth(v['node'])
    for g in unit.functions:
        if g.body is None or g.q.rsplit('::', 1)[-1] != mname or not g.q.rsplit('::', 1)[0].startswith(twin):
            continue
        if twin == PAIRS[0][0] and g.q.rsplit('::', 1)[0].startswith(PAIRS[0][1]):
            continue
        for d2, v2 in var_table(g).items():
            if v2['kind'] == 'local' and v2['decl'].get('n') == v['decl'].get('n') and unit.ty(v2['decl']).strip() == 'bool':
                if loop_depth(v2['node']) > mine:
                    return True
    return False


def run(unit, em):
    for fn in unit.functions:
        if fn.body is None:
            continue
        vt = var_table(fn)
        accs = {}
        csets = set()
        for n in fn.walk(lambdas=False):
            d = kind = None
            if n['k'] == 'CompoundAssignOperator' and n.get('op') in ('|=', '&='):
                l = strip(n['ch'][0])
                if l is not None and l['k'] == 'DeclRefExpr':
                    d, kind = l.get('d'), ('or' if n['op'] == '|=' else 'and')
            elif n['k'] == 'BinaryOperator' and n.get('op') == '=':
                l, r = strip(n['ch'][0]), strip(n['ch'][1])
                if l is not None and l['k'] == 'DeclRefExpr' and r is not None and r['k'] == 'BinaryOperator' and r.get('op') in ('||', '&&', '|', '&'):
                    if any((strip(x) or {}).get('d') == l.get('d') for x in r['ch']):
                        d, kind = l.get('d'), ('or' if r['op'] in ('||', '|') else 'and')
            if d is None and n['k'] == 'BinaryOperator' and n.get('op') == '=':
                # constant set `f = true` of a flag whose initial value is the other constant: f = f || true
                l, r = strip(n['ch'][0]), strip(n['ch'][1])
                if l is not None and l['k'] == 'DeclRefExpr' and l.get('d') in vt and r is not None and r['k'] == 'CXXBoolLiteralExpr':
                    v0 = vt[l['d']]
                    i0 = strip(v0['decl'].get('init')) if v0['kind'] == 'local' and is_node(v0['decl'].get('init')) else None
                    if i0 is not None and i0['k'] == 'CXXBoolLiteralExpr' and bool(i0.get('v')) != bool(r.get('v')):
                        d, kind = l['d'], ('or' if bool(r.get('v')) else 'and')
                        csets.add(d)
            if d is not None and d in vt and vt[d]['kind'] == 'local' and unit.ty(vt[d]['decl']).strip() == 'bool':
                accs.setdefault(d, ([], set()))
                accs[d][0].append(n)
                accs[d][1].add(kind)
        if not accs:
            continue
        short = fn.q.replace('VATA::', '')
        cfg = fn.cfg()
        if cfg is None:
            continue
        anchored = False
        for d, (fills, kinds) in accs.items():
            if len(kinds) != 1:
                continue
            if d in csets and not per_iteration_twin(unit, fn, vt[d]):
                continue      # a constant-set flag is sticky by design unless a sibling implementation says otherwise
            dirty = (list(kinds)[0] == 'or')
            reads = []
            for n in fn.walk(lambdas=False):
                if n['k'] in ('IfStmt', 'WhileStmt', 'DoStmt', 'ForStmt', 'ConditionalOperator'):
                    c = n.get('c') if n['k'] != 'ConditionalOperator' else n['ch'][0]
                    if is_node(c):
                        for x in walk(c):
                            if x['k'] == 'DeclRefExpr' and x.get('d') == d:
                                reads.append(x)
            # the flag handed on as a value (`res &= tempres;`, `all = all && f;`, `return`/argument uses inside the loop that
            # accumulates it): also a read after which the flag must start afresh for the next element
            acc_loops = [L for L in fn.walk(lambdas=False) if L['k'] in LOOPS and any(any(x is f_ for x in walk(L)) for f_ in fills)]
            for x in fn.walk(lambdas=False):
                if x['k'] != 'DeclRefExpr' or x.get('d') != d or any(x is r_ for r_ in reads):
                    continue
                if any(any(y is x for y in walk(f_)) for f_ in fills):
                    continue        # part of its own accumulation
                par = x.get('_p')
                while par is not None and par['k'] in ('ImplicitCastExpr', 'ParenExpr'):
                    par = par.get('_p')
                if par is not None and par['k'] == 'BinaryOperator' and par.get('op') == '=' and strip(par['ch'][0]) is x:
                    continue        # a plain assignment to the flag
                if not any(any(y is x for y in walk(L)) for L in acc_loops):
                    continue        # read outside the loops that accumulate it (the final verdict)
                reads.append(x)
            if not reads:
                continue
            if short in ANCHORS and not anchored:
                em.anchor(fn, short)
                anchored = True

            def marker(n, d=d, fills=fills):
                if n['k'] == 'BinaryOperator' and n.get('op') == '=' and (strip(n['ch'][0]) or {}).get('d') == d and not any(n is f_ for f_ in fills):
                    return True
                if n['k'] == 'DeclStmt' and any(x['d'] == d for x in n.get('decls', [])):
                    return True
                return False

            def edge(c, d=d, dirty=dirty):
                c = strip(c)
                if c is None:
                    return None
                if c['k'] == 'DeclRefExpr' and c.get('d') == d:
                    return dirty
                if c['k'] == 'UnaryOperator' and c.get('op') == '!':
                    i = strip(c['ch'][0])
                    if i is not None and i['k'] == 'DeclRefExpr' and i.get('d') == d:
                        return not dirty
                return None
            name = vt[d]['decl'].get('n') or '?'
            for r in reads:
                pos = cfg.locate(r)
                if pos is None:
                    continue
                ok, w = must_pass_through(cfg, pos, lambda n: any(n is f_ for f_ in fills), marker, start_after=False, edge_filter=edge)
                txt = '%s read at line %d' % (name, unit.loc(r)[1])
                if ok:
                    em.ok(r, txt, 'reset before the next accumulation on every path that leaves this test with %s == %s' % (name, 'true' if dirty else 'false'), 'reset')
                else:
                    em.violation(r, txt, 'after this test `%s` can still be %s when it is accumulated again at line %d without having been assigned afresh: the verdict of one element leaks into the next one' % (
                        name, 'true' if dirty else 'false', unit.loc(w)[1] if w else 0), 'reset')
