"""FLAGRESET — an accumulated boolean is reset before it is accumulated again after having been read (C01, C09, C19).

Instance: a local `bool f` that is accumulated (`f = f || e`, `f |= e`, `f = f && e`, `f &= e`) and read in a
branch condition.  The accumulation makes f sticky: OR-accumulated flags stay true, AND-accumulated ones stay
false (the *dirty* value).  Obligation: on every CFG path that leaves a read of f with f dirty (only the
branch edges consistent with the dirty value are followed, so `res &= x; if (!res) return false;` is fine)
and reaches a later accumulation of f, f is assigned afresh (plain assignment / re-declaration).  Otherwise
a verdict for one element (e.g. "some B-state for this leaf symbol is accepting") leaks into the next
element's test, and which element comes first is decided by hash-map order."""
from vfacts import strip, walk, is_node, must_pass_through
from .prov import var_table

RULE = 'FLAGRESET'
FLOOR = 2
ANCHORS = ['ExplicitUpwardInclusion::checkInternal']


def run(unit, em):
    for fn in unit.functions:
        if fn.body is None:
            continue
        vt = var_table(fn)
        accs = {}
        for n in fn.walk(lambdas=False):
            d = kind = None
            if n['k'] == 'CompoundAssignOperator' and n.get('op') in ('|=', '&='):
                l = strip(n['ch'][0])
                if l is not None and l['k'] == 'DeclRefExpr':
                    d, kind = l.get('d'), ('or' if n['op'] == '|=' else 'and')
            elif n['k'] == 'BinaryOperator' and n.get('op') == '=':
                l, r = strip(n['ch'][0]), strip(n['ch'][1])
                if l is not None and l['k'] == 'DeclRefExpr' and r is not None and r['k'] == 'BinaryOperator' and r.get('op') in ('||', '&&', '|', '&'):
                    if any((strip(x) or {}).get('d') == l.get('d') for x in r['ch']):
                        d, kind = l.get('d'), ('or' if r['op'] in ('||', '|') else 'and')
            if d is not None and d in vt and vt[d]['kind'] == 'local' and unit.ty(vt[d]['decl']).strip() == 'bool':
                accs.setdefault(d, ([], set()))
                accs[d][0].append(n)
                accs[d][1].add(kind)
        if not accs:
            continue
        short = fn.q.replace('VATA::', '')
        cfg = fn.cfg()
        if cfg is None:
            continue
        anchored = False
        for d, (fills, kinds) in accs.items():
            if len(kinds) != 1:
                continue
            dirty = (list(kinds)[0] == 'or')
            reads = []
            for n in fn.walk(lambdas=False):
                if n['k'] in ('IfStmt', 'WhileStmt', 'DoStmt', 'ForStmt', 'ConditionalOperator'):
                    c = n.get('c') if n['k'] != 'ConditionalOperator' else n['ch'][0]
                    if is_node(c):
                        for x in walk(c):
                            if x['k'] == 'DeclRefExpr' and x.get('d') == d:
                                reads.append(x)
            if not reads:
                continue
            if short in ANCHORS and not anchored:
                em.anchor(fn, short)
                anchored = True

            def marker(n, d=d, fills=fills):
                if n['k'] == 'BinaryOperator' and n.get('op') == '=' and (strip(n['ch'][0]) or {}).get('d') == d and not any(n is f_ for f_ in fills):
                    return True
                if n['k'] == 'DeclStmt' and any(x['d'] == d for x in n.get('decls', [])):
                    return True
                return False

            def edge(c, d=d, dirty=dirty):
                c = strip(c)
                if c is None:
                    return None
                if c['k'] == 'DeclRefExpr' and c.get('d') == d:
                    return dirty
                if c['k'] == 'UnaryOperator' and c.get('op') == '!':
                    i = strip(c['ch'][0])
                    if i is not None and i['k'] == 'DeclRefExpr' and i.get('d') == d:
                        return not dirty
                return None
            name = vt[d]['decl'].get('n') or '?'
            for r in reads:
                pos = cfg.locate(r)
                if pos is None:
                    continue
                ok, w = must_pass_through(cfg, pos, lambda n: any(n is f_ for f_ in fills), marker, start_after=False, edge_filter=edge)
                txt = '%s read at line %d' % (name, unit.loc(r)[1])
                if ok:
                    em.ok(r, txt, 'reset before the next accumulation on every path that leaves this test with %s == %s' % (name, 'true' if dirty else 'false'), 'reset')
                else:
                    em.violation(r, txt, 'after this test `%s` can still be %s when it is accumulated again at line %d without having been assigned afresh: the verdict of one element leaks into the next one' % (
                        name, 'true' if dirty else 'false', unit.loc(w)[1] if w else 0), 'reset')
