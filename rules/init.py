"""INIT — no read of a scalar local that nothing has written (C20, C08).

Instance: every local of scalar type declared without initialiser. A read (lvalue-to-rvalue, ++/--,
compound assignment, by-copy capture) is a violation iff no pure write and no potential write
(address taken / bound to a non-const reference / by-reference lambda that writes) can reach it in
the CFG. Reads inside a by-reference-capturing lambda: no write earlier in the lambda, none reaching
the lambda's creation, none reachable after it."""
from vfacts import walk, strip, ancestors

RULE = 'INIT'
# std functions whose T&& parameters bind lvalues by reference but only copy their value
VALUE_FORWARDERS = {'std::make_pair', 'std::make_tuple', 'std::forward', 'std::min', 'std::max'}
FLOOR = 25


def lambda_of(n):
    """Innermost LambdaExpr whose *body* contains n (capture initialisers belong outside)."""
    cur = n
    p = cur.get('_p')
    while p is not None:
        if p['k'] == 'LambdaExpr' and not str(cur.get('_role', '')).startswith('captures'):
            return p
        cur = p
        p = cur.get('_p')
    return None


def classify(ref):
    """'write' | 'read' | 'pwrite' (potential write) | 'none' for one DeclRefExpr."""
    cur = ref
    while True:
        p = cur.get('_p')
        if p is None:
            role = str(cur.get('_role', ''))
            return 'none'
        k = p['k']
        role = str(cur.get('_role', ''))
        if k == 'ParenExpr':
            cur = p
            continue
        if k == 'ImplicitCastExpr':
            if p.get('ck') == 'LValueToRValue':
                return 'read'
            cur = p
            continue
        if k in ('BinaryOperator', 'CompoundAssignOperator'):
            op = p.get('op', '')
            lhs = p['ch'][0]
            if op == '=' and lhs is cur:
                return 'write'
            if op.endswith('=') and op not in ('==', '!=', '<=', '>=') and lhs is cur:
                return 'read'
            if op == ',':
                cur = p
                continue
            return 'read'
        if k == 'UnaryOperator':
            op = p.get('op')
            if op in ('++', '--'):
                return 'read'
            if op == '&':
                return 'pwrite'
            return 'read'
        if k in ('CallExpr', 'CXXMemberCallExpr', 'CXXOperatorCallExpr', 'CXXConstructExpr'):
            pk = p.get('pk', '')
            if p.get('q') in VALUE_FORWARDERS:
                return 'read'  # forwarding-reference parameter of a function that only copies the value
            if role == 'obj':
                return 'pwrite'
            args = p.get('args', [])
            idx = None
            for i, a in enumerate(args):
                if a is cur:
                    idx = i
            if idx is None:
                return 'pwrite'
            if k == 'CXXOperatorCallExpr' and p.get('memberop'):
                if idx == 0:
                    return 'pwrite'
                idx -= 1
            if idx < len(pk):
                c = pk[idx]
                if c in 'rpm':
                    return 'pwrite'
                if c in 'cq':
                    return 'none'
                return 'read'
            return 'pwrite'
        if k == 'LambdaExpr':
            return 'none'  # by-reference capture initialiser
        if k in ('InitListExpr', 'MaterializeTemporaryExpr', 'CXXBindTemporaryExpr', 'ExprWithCleanups'):
            cur = p
            continue
        if k == 'DeclStmt':
            # init of another variable: reference binding = potential write, else read
            for d in p.get('decls', []):
                if d.get('init') is cur or d.get('init') is ref:
                    return 'pwrite' if d.get('ref') == 'r' else ('none' if d.get('ref') == 'c' else 'read')
            return 'read'
        if k in ('CompoundStmt', 'IfStmt', 'ForStmt', 'WhileStmt', 'ReturnStmt', 'CXXForRangeStmt'):
            return 'none' if k == 'CompoundStmt' else 'read'
        return 'read'


def reach_from(cfg, pos):
    """Set of blocks fully reachable from element position pos=(b,p) and the tail of b itself."""
    b, p = pos
    seen = set()
    st = list(cfg.succ[b])
    while st:
        x = st.pop()
        if x in seen:
            continue
        seen.add(x)
        st.extend(cfg.succ[x])
    return seen


def can_reach(cfg, src, dst):
    if src is None or dst is None:
        return True  # unresolved position: assume reachable (never report)
    if src[0] == dst[0] and src[1] < dst[1]:
        return True
    return dst[0] in reach_from(cfg, src)


def run(unit, em):
    for fn in unit.functions:
        if fn.body is None:
            continue
        cands = []
        for n in fn.walk():
            if n['k'] == 'DeclStmt':
                for d in n.get('decls', []):
                    if d.get('scalar') and not d.get('hasinit') and not d.get('static') and not d.get('ref'):
                        cands.append((n, d))
        if not cands:
            continue
        allrefs = {}
        for n in fn.walk():
            if n['k'] == 'DeclRefExpr' and n.get('dk') == 'local':
                allrefs.setdefault(n['d'], []).append(n)
        for ds, d in cands:
            name = '%s %s' % (unit.tname(d['ts']), d['n'])
            refs = allrefs.get(d['d'], [])
            home = lambda_of(ds)
            home_cfg = fn.lambda_cfg(home) if home is not None else fn.cfg()
            if home_cfg is None:
                em.unknown(ds, name, 'no CFG')
                continue
            writes, reads = [], []   # (position, origin lambda id or None) / (ref, position)
            per_lambda = {}
            for r in refs:
                kind = classify(r)
                lam = lambda_of(r)
                if lam is home:
                    pos = home_cfg.locate(r)
                    if kind in ('write', 'pwrite'):
                        writes.append((pos, None))
                    elif kind == 'read':
                        reads.append((r, pos))
                else:
                    # lift to the outermost lambda nested directly in `home`
                    top = lam
                    while True:
                        up = lambda_of(top)
                        if up is home or up is None:
                            break
                        top = up
                    per_lambda.setdefault(top['i'], (top, []))[1].append((kind, r, lam))
            # a nested by-reference lambda that writes counts as a potential write at its creation point
            lam_pos = {}
            for lid, (top, lst) in per_lambda.items():
                lam_pos[lid] = home_cfg.locate(top)
                byref = any(c.get('d') == d['d'] and c.get('byref') for c in top.get('captures', []))
                if byref and any(k in ('write', 'pwrite') for k, _, _ in lst):
                    writes.append((lam_pos[lid], lid))
            bad = None
            for r, pos in reads:
                if not any(can_reach(home_cfg, w, pos) for w, _ in writes):
                    bad = (r, 'read of %s with no reaching write' % d['n'])
                    break
            if bad is None:
                for lid, (top, lst) in per_lambda.items():
                    lp = lam_pos[lid]
                    byref = any(c.get('d') == d['d'] and c.get('byref') for c in top.get('captures', []))
                    if not byref:
                        continue  # by-copy capture: the capture initialiser is a read in the home CFG
                    for kind, r, lam in lst:
                        if kind != 'read':
                            continue
                        lcfg = fn.lambda_cfg(lam)
                        if lcfg is None:
                            continue
                        rpos = lcfg.locate(r)
                        inner_w = [lcfg.locate(x) for k2, x, l2 in lst if l2 is lam and k2 in ('write', 'pwrite')]
                        if any(can_reach(lcfg, w, rpos) for w in inner_w):
                            continue
                        outer = [w for w, org in writes if org != lid]
                        if any(can_reach(home_cfg, w, lp) or can_reach(home_cfg, lp, w) for w in outer):
                            continue
                        bad = (r, 'read of %s inside a by-reference lambda: no write precedes the read in the lambda, '
                                  'reaches the lambda\'s creation, or follows it' % d['n'])
                        break
                    if bad:
                        break
            if bad is None:
                em.ok(ds, name, '%d refs' % len(refs))
            else:
                r, why = bad
                f, line, col = unit.loc(r)
                em.violation(ds, name, '%s (read at %s:%d: %s)' % (why, unit.rel(f), line, unit.text(r.get('_p') or r, 60)))
