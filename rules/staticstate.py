"""STATICSTATE — operations keep no hidden state between calls (C11).

C11: "The outcome of an operation depends only on its operands and parameters, not on which other automata were
created, modified or destroyed earlier in the same process."  Instance: every function-local `static` /
`thread_local` variable in the library sources.  Obligation: it is immutable (const-qualified object, or a const
pointer to const data), or it is emptied / re-assigned on every path before its first use in the call — a mutable static local is storage that survives the call: a scratch map that is not
cleared on every path, a counter, a cached answer make the next call depend on the previous ones (seed C11-8:
`static thread_local StateToStateMap` in Union, one of the two maps never cleared)."""
from vfacts import strip, walk

RULE = 'STATICSTATE'
FLOOR = 0
ANCHORS = []
WITNESS = 'src/staticstate.cc'


def reset_before_use(fn, decl_stmt, d):
    from vfacts import must_pass_through, method_name
    cfg = fn.cfg()
    pos = cfg.locate(decl_stmt) if cfg else None
    if pos is None:
        return False
    dd = d['d']

    def is_reset(x):
        if x['k'] == 'CXXMemberCallExpr' and method_name(x) in ('clear', 'assign') and (strip(x.get('obj')) or {}).get('d') == dd:
            return True
        if x['k'] in ('BinaryOperator', 'CXXOperatorCallExpr') and x.get('op') == '=':
            ops = x.get('ch') if x['k'] == 'BinaryOperator' else x.get('args')
            return bool(ops) and (strip(ops[0]) or {}).get('d') == dd
        return False

    def is_use(x):
        if x['k'] != 'DeclRefExpr' or x.get('d') != dd:
            return False
        p_ = x.get('_p')
        while p_ is not None and p_['k'] in ('ImplicitCastExpr', 'ParenExpr', 'MemberExpr'):
            p_ = p_.get('_p')
        return not (p_ is not None and is_reset(p_))
    ok, _ = must_pass_through(cfg, pos, is_use, is_reset)
    return ok


def run(unit, em):
    for fn in unit.functions:
        if fn.body is None or not ('/src/' in fn.file or '/include/' in fn.file or fn.file.startswith(('src/', 'include/'))):
            continue
        for n in fn.walk():
            if n['k'] != 'DeclStmt':
                continue
            for d in n.get('decls', []):
                if not d.get('static'):
                    continue
                t = unit.tname(d['t']).strip()
                txt = unit.text(n, 70)
                const_obj = t.startswith('const ') and not t.rstrip().endswith(('*', '&'))
                const_ptr = t.rstrip().endswith('*const') or t.rstrip().endswith('* const')
                if const_obj or (const_ptr and t.startswith('const ')):
                    em.ok(n, txt, 'immutable static local', 'static')
                elif reset_before_use(fn, n, d):
                    em.ok(n, txt, 'mutable static local, but emptied / re-assigned on every path before it is used in the call', 'static')
                else:
                    em.violation(n, txt, 'the function keeps the mutable object `%s` alive between calls (static / thread_local local of type %s): what one call leaves in it is seen by the next, so the result depends on earlier, unrelated calls in the process' % (d.get('n'), t[:50]), 'static')
