"""NONEMPTY — no empty cluster or tuple set is left in a rule store (C12, C20).

The iterators dereference begin() of every level unconditionally, so a state->cluster map never
holds an empty cluster and a cluster never an empty tuple set. Instance: every
`uniqueCluster(k)` / `uniqueTuplePtrSet(s)` / `uniqueRStateSet(s)` call (it creates the entry if absent).
Obligation: on every CFG path from the call to the end of the function an `insert` into (something
reached through) its result follows — where a range-for over a rule store of an operand is taken to
execute at least once (that is this very invariant, assumed for operands and established for
results). Creating the entry before a `continue`/early return that can skip the insert is the defect."""
from vfacts import strip, walk, method_name, must_pass_through, root_path, is_node
from .prov import var_table, local_sources

RULE = 'NONEMPTY'
FLOOR = 6
UNIQ = {'uniqueCluster', 'uniqueTuplePtrSet', 'uniqueRStateSet'}


def run(unit, em):
    for fn in unit.functions:
        if fn.body is None or 'explicit_' not in fn.file:
            continue
        if fn.q.rsplit('::', 1)[-1] in UNIQ | {'uniqueClusterMap'}:
            continue
        cfg = fn.cfg()
        if cfg is None:
            continue
        calls = [c for c in fn.calls() if c['k'] == 'CXXMemberCallExpr' and method_name(c) in UNIQ]
        if not calls:
            continue

        def store_loop(lp):
            t = unit.ty(strip(lp.get('range')) or lp.get('range') or {'t': -1}) if lp.get('range') else ''
            t = t.replace('const ', '')
            return ('TransitionCluster' in t or t.startswith('std::set<std::shared_ptr<std::vector<unsigned long') or
                    t.startswith('std::unordered_set<unsigned long') or t.endswith('ExplicitFiniteAut::StateSet') or 'StateToTransitionClusterMap' in t or t.startswith('std::vector<unsigned long') is False and 'TuplePtrSet' in t)
        for c in calls:
            # handles derived from this call: the call itself, locals initialised/assigned from it (transitively)
            handles = set()
            changed = True
            derived_nodes = {c['i']}
            while changed:
                changed = False
                for d, v in var_table(fn).items():
                    if d in handles or v['kind'] != 'local':
                        continue
                    for s in local_sources(fn, d):
                        if any(x['i'] in derived_nodes or (x['k'] == 'DeclRefExpr' and x.get('d') in handles) for x in walk(s)):
                            handles.add(d)
                            changed = True

            def is_insert(x):
                if x['k'] != 'CXXMemberCallExpr' or method_name(x) not in ({'insert', 'emplace', 'push_back'} | UNIQ):
                    return False
                if x is c:
                    return False
                for y in walk(x.get('obj')):
                    if y['i'] in derived_nodes or (y['k'] == 'DeclRefExpr' and y.get('d') in handles):
                        return True
                return False
            from vfacts import enclosing
            lam = enclosing(c, ('LambdaExpr',))
            ccfg = fn.lambda_cfg(lam) if lam is not None else cfg      # a call inside a local lambda is judged on the lambda's own CFG
            pos = ccfg.locate(c) if ccfg is not None else None
            if pos is None:
                continue
            # chained form  a->uniqueCluster(k)->uniqueTuplePtrSet(s)->insert(x): the outer call is the insert
            p = c.get('_p')
            chained = False
            while p is not None and p['k'] in ('ImplicitCastExpr', 'CXXOperatorCallExpr', 'MemberExpr', 'ExprWithCleanups', 'MaterializeTemporaryExpr', 'CXXBindTemporaryExpr'):
                p = p.get('_p')
            if p is not None and p['k'] == 'CXXMemberCallExpr' and method_name(p) in ({'insert', 'emplace'} | UNIQ) and any(y is c for y in walk(p.get('obj'))):
                chained = True
            txt = unit.text(c, 70)
            if chained:
                em.ok(c, txt, 'result used at once by %s' % method_name(p))
                continue
            ok, _ = must_pass_through(ccfg, pos, None, is_insert, nonempty=store_loop)
            if ok:
                em.ok(c, txt, 'an insert through the result follows on every path')
            else:
                em.violation(c, txt, 'the entry created here can stay empty: some path to the end of the function performs no insert through it (an empty cluster / tuple set makes the transition iterators dereference begin() == end())')
