"""TEXT — the Timbuk parser / serializer failure and format discipline (C13; C17 for the symbolic table).

  NPOS   a position obtained from std::string::find that is used in substr()/arithmetic is dominated by
         a comparison with npos whose failing side leaves (throw / continue / return)
  EXC    in the parser, the serializer and the loaders every `throw` raises a type derived from
         std::exception, and abort/exit/terminate/longjmp are never called
  IDX    a constant subscript v[k] / front()/back() on a vector or string derived from the input is
         dominated by an emptiness/size test covering it
  FMT    writer/reader agreement: every section keyword the serializer emits is one the parser
         dispatches on, the rule arrow and parentheses agree, and SymbolicVarAsgn's character->value
         switch is the inverse of ToString's value->character switch."""
import re
from vfacts import strip, walk, method_name, known_facts, conjuncts, is_node
from .prov import var_table, local_sources

RULE = 'TEXT'
FLOOR = 20
ANCHORS = ['parse_timbuk', 'TimbukSerializer::Serialize', 'SymbolicVarAsgn::ToString']
STD_EXC = ('std::runtime_error', 'std::logic_error', 'std::invalid_argument', 'std::out_of_range', 'std::exception',
           'std::domain_error', 'std::length_error', 'std::range_error', 'std::bad_alloc', 'std::overflow_error')
FORBIDDEN = {'abort', 'exit', 'quick_exit', '_exit', 'terminate', 'longjmp', '_Exit'}


def in_scope(fn):
    f = fn.file
    return any(x in f for x in ('timbuk_parser-nobison.cc', 'timbuk_serializer.cc', 'loadable_aut.hh', 'sym_var_asgn.cc', 'convert.hh')) or \
        'loadFromAutDesc' in fn.q or 'dumpToAutDesc' in fn.q or fn.q.endswith(('LoadFromString', 'DumpToString', 'LoadFromAutDesc', 'DumpToAutDesc'))


def derives_from_exception(unit, t):
    t = t.replace('const ', '').strip()
    if t in STD_EXC:
        return True
    for r in unit.records:
        if r['rct'] == t:
            return any(derives_from_exception(unit, unit.tname(b)) for b in r.get('bases', []))
    return False


def is_npos(e):
    e = strip(e)
    return e is not None and e['k'] == 'DeclRefExpr' and e.get('n') == 'npos'


def is_trim_call(unit, e):
    e = strip(e)
    # a copy/move construction or conversion of the call result
    while e is not None and e['k'] in ('CXXConstructExpr', 'CXXTemporaryObjectExpr') and len(e.get('args', [])) == 1:
        e = strip(e['args'][0])
    return e is not None and e['k'] == 'CallExpr' and (e.get('q') or '').split('::')[-1] == 'trim' and e.get('inrepo')


def trim_preserving_helper(unit, call, argi, depth=0):
    """an in-repo function that leaves the reference parameter argi trimmed: the last thing it does to the parameter
    is `p = trim(..)` or handing it to another such helper (all other in-place changes come before)"""
    g = unit.by_decl.get(call.get('cd'))
    if g is None or g.body is None or argi >= len(g.params) or depth > 3:
        return False
    pd = g.params[argi]['d']
    events = []
    for n in g.walk():
        k = n['k']
        if k in ('BinaryOperator', 'CXXOperatorCallExpr') and n.get('op') == '=':
            ops = n.get('ch') if k == 'BinaryOperator' else n.get('args')
            l = strip(ops[0]) if ops else None
            if l is not None and l['k'] == 'DeclRefExpr' and l.get('d') == pd:
                events.append('trim' if is_trim_call(unit, ops[1]) else 'other')
        elif k == 'CXXMemberCallExpr' and not n.get('const') and (strip(n.get('obj')) or {}).get('d') == pd:
            events.append('other')
        elif k in ('CallExpr', 'CXXMemberCallExpr'):
            pk = n.get('pk') or ''
            for i, a in enumerate(n.get('args') or []):
                sa = strip(a)
                if sa is not None and sa['k'] == 'DeclRefExpr' and sa.get('d') == pd and i < len(pk) and pk[i] == 'r':
                    events.append('trim' if (n.get('inrepo') and trim_preserving_helper(unit, n, i, depth + 1)) else 'other')
    return bool(events) and events[-1] == 'trim'


def check_trim(unit, fn, em):
    from .prov import assignments
    vt = var_table(fn)
    for n in fn.walk():
        obj = None
        if n['k'] == 'CXXMemberCallExpr' and method_name(n) == 'empty' and is_node(n.get('obj')):
            obj = strip(n['obj'])
        elif n['k'] == 'CXXOperatorCallExpr' and n.get('op') in ('==', '!=') and len(n.get('args', [])) == 2:
            a, b = strip(n['args'][0]), strip(n['args'][1])
            for x, y in ((a, b), (b, a)):
                if y is not None and y['k'] == 'StringLiteral' and y.get('v', None) == '':
                    obj = x
        if obj is None or 'basic_string<char' not in unit.ty(obj):
            continue
        txt = unit.text(n, 60)
        if obj['k'] == 'DeclRefExpr' and obj.get('d') in vt:
            v = vt[obj['d']]
            srcs = local_sources(fn, obj['d'])
            if v['kind'] == 'rangevar':
                srcs = [s for s in srcs if s is not v['node'].get('range')]
                if not srcs:
                    em.unknown(n, txt, 'element of a container, not re-assigned', 'TRIM')
                    continue
            if v['kind'] in ('param', 'lparam') and not srcs:
                em.unknown(n, txt, 'parameter tested as received', 'TRIM')
                continue
            bad = [s for s in srcs if not is_trim_call(unit, s)]
            # in-place modification through a non-const reference: only by helpers that leave it trimmed
            for c in fn.calls():
                pk = c.get('pk') or ''
                for i, a in enumerate(c.get('args') or []):
                    sa = strip(a)
                    if sa is not None and sa['k'] == 'DeclRefExpr' and sa.get('d') == obj['d'] and i < len(pk) and pk[i] == 'r':
                        if not (c.get('inrepo') and trim_preserving_helper(unit, c, i)):
                            bad.append(c)
            if not srcs:
                em.unknown(n, txt, 'no source of the tested string found', 'TRIM')
            elif bad:
                em.violation(n, txt, '`%s` can hold untrimmed input text here (from `%s`): blank-only content such as "( )" counts as content, while the serializer never writes it — parse(serialize(d)) differs from d' % (
                    v['decl'].get('n'), unit.text(bad[0], 40)), 'TRIM')
            else:
                em.ok(n, txt, 'tested after trim()', 'TRIM')
        elif obj['k'] == 'CXXOperatorCallExpr' and obj.get('op') == '[]' and obj.get('args'):
            base = strip(obj['args'][0])
            ok = False
            if base is not None and base['k'] == 'DeclRefExpr':
                for lp in fn.walk():
                    if lp['k'] == 'CXXForRangeStmt' and (strip(lp.get('range')) or {}).get('d') == base.get('d'):
                        vd = lp['var']['d']
                        for lhs, rhs, an in assignments(fn):
                            l = strip(lhs)
                            if l is not None and l.get('d') == vd and is_trim_call(unit, rhs):
                                ok = True
            if ok:
                em.ok(n, txt, 'every element was replaced by its trim() in a preceding loop', 'TRIM')
            else:
                em.unknown(n, txt, 'element of a container whose elements are not known to be trimmed', 'TRIM')


def run(unit, em):
    ser_words, parse_words = None, None
    for fn in unit.functions:
        if fn.body is None or not in_scope(fn):
            continue
        short = fn.q.replace('VATA::Parsing::', '').replace('VATA::Serialization::', '').replace('VATA::', '')
        if short in ANCHORS:
            em.anchor(fn, short)
        # ---- EXC
        for n in fn.walk():
            if n['k'] == 'CXXThrowExpr':
                ch = n.get('ch') or []
                if not ch or ch[0] is None:
                    em.ok(n, 'throw;', 're-throw', 'EXC')
                    continue
                t = unit.ty(strip(ch[0]) or ch[0])
                if derives_from_exception(unit, t):
                    em.ok(n, unit.text(n, 60), t, 'EXC')
                else:
                    em.violation(n, unit.text(n, 60), 'throws %s, which does not derive from std::exception: callers catching std::exception are bypassed and the process terminates' % t, 'EXC')
            if n['k'] == 'CallExpr' and (n.get('q') or '').split('::')[-1] in FORBIDDEN:
                em.violation(n, unit.text(n, 60), 'malformed input must surface as an exception, not as process termination', 'EXC')
        # ---- NPOS
        vt = var_table(fn)
        for d, v in vt.items():
            if v['kind'] != 'local':
                continue
            srcs = local_sources(fn, d)
            if not srcs or not all((strip(s) or {}).get('k') == 'CXXMemberCallExpr' and method_name(strip(s)) in ('find', 'rfind', 'find_first_of', 'find_last_of') and
                                   'basic_string' in (strip(s).get('q') or '') for s in srcs):
                continue
            for n in fn.walk():
                if n['k'] != 'DeclRefExpr' or n.get('d') != d:
                    continue
                # a use inside substr(...) or arithmetic
                p = n.get('_p')
                use = None
                q = n
                while p is not None and p['k'] in ('ImplicitCastExpr', 'ParenExpr'):
                    q, p = p, p.get('_p')
                if p is None:
                    continue
                if p['k'] == 'BinaryOperator' and p.get('op') in ('+', '-', '*'):
                    use = p
                elif p['k'] == 'CXXMemberCallExpr' and method_name(p) in ('substr', 'erase', 'at') and any(a is q for a in p.get('args', [])):
                    use = p
                if use is None:
                    continue
                facts, _ = known_facts(n)
                good = False
                for pol, atom in facts:
                    a = strip(atom)
                    if a is None or a['k'] != 'BinaryOperator' or a.get('op') not in ('==', '!='):
                        continue
                    l, r = a['ch']
                    if (is_npos(l) and (strip(r) or {}).get('d') == d) or (is_npos(r) and (strip(l) or {}).get('d') == d):
                        if (a['op'] == '==' and pol is False) or (a['op'] == '!=' and pol is True):
                            good = True
                txt = unit.text(use, 60)
                if good:
                    em.ok(n, txt, '%s != npos established' % v['decl']['n'], 'NPOS')
                else:
                    em.violation(n, txt, '%s comes from find() and is used here without a dominating comparison with npos' % v['decl']['n'], 'NPOS')
        # ---- IDX
        for n in fn.walk():
            idx = None
            if n['k'] == 'CXXOperatorCallExpr' and n.get('op') == '[]' and len(n.get('args', [])) == 2:
                i = strip(n['args'][1])
                bt = unit.ty(strip(n['args'][0]) or n['args'][0]).replace('const ', '')
                if i is not None and i['k'] == 'IntegerLiteral' and bt.startswith(('std::vector<', 'std::basic_string<')):
                    idx = (n['args'][0], i['v'])
            elif n['k'] == 'CXXMemberCallExpr' and method_name(n) in ('front', 'back') and unit.ty(strip(n.get('obj')) or n['obj']).replace('const ', '').startswith(('std::vector<', 'std::basic_string<')):
                idx = (n['obj'], 0)
            if idx is None:
                continue
            base, k = idx
            bt = unit.text(strip(base), 0)
            facts, loops = known_facts(n)
            good = False
            for pol, atom in facts:
                a = strip(atom)
                if a is None:
                    continue
                txt = unit.text(a, 0)
                if bt in txt and ('size()' in txt or 'empty()' in txt or 'length()' in txt):
                    good = True
            # for (i = 1; i < v.size(); ...) style or explicit size test earlier in a conjunction
            txtn = unit.text(n, 50)
            if good:
                em.ok(n, txtn, 'dominated by a size/emptiness test on %s' % bt, 'IDX')
            else:
                em.violation(n, txtn, 'element %d of %s is read without a dominating size/emptiness test: out-of-bounds on malformed input' % (k, bt), 'IDX')
        # ---- FMT: collect words
        if short == 'TimbukSerializer::Serialize':
            ser_words = (fn, [n['v'] for n in fn.walk() if n['k'] == 'StringLiteral' and 'v' in n])
        if short == 'parse_timbuk':
            # the reader's vocabulary: parse_timbuk and the helpers of its unit (the rule-line parser may live in a helper)
            words = []
            for g in unit.functions:
                if g.body is not None and g.file == fn.file:
                    words += [n['v'] for n in g.walk() if n['k'] == 'StringLiteral' and 'v' in n]
            parse_words = (fn, words)
        if short in ('SymbolicVarAsgn::ToString',):
            pass
    # ---- TRIM: in the parser, emptiness of input text is decided on trimmed text
    for fn in unit.functions:
        if fn.body is not None and 'timbuk_parser-nobison.cc' in fn.file:
            check_trim(unit, fn, em)
    # ---- WS: one notion of whitespace across the parser's helpers (trim / read_word / contains_whitespace)
    classes = {}
    for fn in unit.functions:
        if fn.body is None or 'timbuk_parser-nobison.cc' not in fn.file:
            continue
        for n in fn.walk():
            if n['k'] == 'DeclRefExpr' and n.get('dk') == 'func' and n.get('n') in ('isspace', 'isblank'):
                classes.setdefault('std::' + n['n'], []).append((fn, n))
            if n['k'] == 'CXXMemberCallExpr' and method_name(n) in ('find_first_not_of', 'find_last_not_of', 'find_first_of', 'find_last_of') and n.get('args'):
                a = strip(n['args'][0])
                if a is not None and a['k'] == 'DeclRefExpr':
                    for s_ in local_sources(fn, a.get('d')):
                        ss = strip(s_)
                        if ss is not None and ss['k'] == 'StringLiteral':
                            a = ss
                if a is not None and a['k'] == 'StringLiteral' and a.get('v', '').strip(' \t\r\n\v\f') == '' and a.get('v'):
                    classes.setdefault('set %r' % a['v'], []).append((fn, n))
    if classes:
        allsites = [s for v in classes.values() for s in v]
        if len(classes) == 1:
            k = next(iter(classes))
            for fn, n in allsites:
                em.ok(n, 'whitespace class in %s' % fn.q.split('::')[-1], k, 'WS')
        else:
            major = max(classes, key=lambda k: len(classes[k]))
            for k, sites in classes.items():
                for fn, n in sites:
                    if k == major:
                        em.ok(n, 'whitespace class in %s' % fn.q.split('::')[-1], k, 'WS')
                    else:
                        em.violation(n, 'whitespace class in %s' % fn.q.split('::')[-1], '%s uses %s while the other helpers use %s: a character that one helper treats as blank and another as text makes `while (!str.empty()) read_word(str)` consume nothing (hang) or splits words differently' % (fn.q.split('::')[-1], k, major), 'WS')
    # FMT within one unit is impossible for parser vs serializer (different units): emit facts, merge in finalize via records
    if ser_words:
        fn, ws = ser_words
        kw = sorted({w.strip() for w in ws for w in re.findall(r'[A-Z][a-z]+(?: [A-Z][a-z]+)?', w)})
        em.info(fn, 'FMT-writer', 'keywords=' + ','.join(kw) + ';arrow=' + ('->' if any('->' in w for w in ws) else '') + ';lp=' + ('(' if any('(' in w for w in ws) else '') + ';rp=' + (')' if any(')' in w for w in ws) else ''))
    if parse_words:
        fn, ws = parse_words
        kw = sorted({w for w in ws if re.fullmatch(r'[A-Z][a-z]+', w)})
        em.info(fn, 'FMT-reader', 'keywords=' + ','.join(kw) + ';arrow=' + ('->' if '->' in ws else '') + ';lp=' + ('(' if '(' in ws else '') + ';rp=' + (')' if ')' in ws else ''))
    # NUM: numeric tokens are written with the type they are read with (a rank of -1 written through an unsigned type
    # comes out as 18446744073709551615, which FromString<int> rejects)
    for fn in unit.functions:
        if fn.body is None:
            continue
        sh = fn.q.split('::')[-1]
        if fn.q.endswith('TimbukSerializer::Serialize'):
            ts = sorted({unit.ty(c['args'][0]).replace('const ', '').replace('&', '').strip() for c in fn.calls()
                         if (c.get('q') or '').endswith('Convert::ToString') and c.get('args')})
            if ts:
                em.info(fn, 'NUM-writer', 'types=' + ','.join(ts))
        if 'timbuk_parser-nobison.cc' in fn.file:
            ts = sorted({unit.ty(c).replace('const ', '').strip() for c in fn.calls() if (c.get('q') or '').endswith('Convert::FromString')})
            if ts:
                em.info(fn, 'NUM-reader', 'types=' + ','.join(ts))
    # symbolic table: both functions are in sym_var_asgn.cc
    rd, wr = {}, {}
    rfn = wfn = None
    for fn in unit.functions:
        if fn.body is None or 'sym_var_asgn.cc' not in fn.file:
            continue
        for sw in fn.walk():
            if sw['k'] != 'SwitchStmt':
                continue
            for cs in walk(sw['body']):
                if cs['k'] != 'CaseStmt':
                    continue
                lhs = strip(cs.get('lhs'))
                sub = cs.get('sub')
                if lhs is None or sub is None:
                    continue
                if lhs['k'] == 'CharacterLiteral':      # reader: char -> value
                    for x in walk(sub):
                        if x['k'] == 'DeclRefExpr' and x.get('dk') == 'enumconst':
                            rd[chr(lhs['v'])] = x['n']
                            rfn = fn
                else:                                     # writer: value -> char
                    name = None
                    for x in walk(lhs):
                        if x['k'] == 'DeclRefExpr' and x.get('dk') == 'enumconst':
                            name = x['n']
                    for x in walk(sub):
                        if x['k'] == 'CharacterLiteral' and name:
                            wr[name] = chr(x['v'])
                            wfn = fn
    if rd and wr:
        inv = {v: k for k, v in rd.items()}
        if inv == wr:
            em.ok(wfn, 'SymbolicVarAsgn character table', 'reader %s is the inverse of writer %s' % (rd, wr), 'FMT')
        else:
            em.violation(wfn, 'SymbolicVarAsgn character table', 'ToString writes %s but the parser reads %s: a dumped assignment is re-read as a different one' % (wr, rd), 'FMT')


def finalize(records, em_factory):
    """cross-unit writer/reader agreement"""
    w = [r for r in records if r['rule'] == RULE and r['kind'] == 'info' and r['construct'] == 'FMT-writer']
    rd = [r for r in records if r['rule'] == RULE and r['kind'] == 'info' and r['construct'] == 'FMT-reader']
    out = []
    if not w or not rd:
        return out
    def parse(d):
        return dict(x.split('=', 1) for x in d.split(';'))
    pw, pr = parse(w[0]['detail']), parse(rd[0]['detail'])
    wk = set(filter(None, pw['keywords'].split(',')))
    rk = set(filter(None, pr['keywords'].split(',')))
    # "Final States" is read as the word Final followed by States
    need = set()
    for k in wk:
        need |= set(k.split(' '))
    need -= {'Automaton'} if 'Automaton' in rk else set()
    base = dict(w[0])
    miss = {k for k in need if k not in rk and k != 'Automaton'}
    if miss:
        base.update(kind='violation', construct='Timbuk section keywords', obligation='FMT',
                    detail='the serializer emits %s which the parser does not dispatch on (reader accepts %s): a dump cannot be loaded again' % (sorted(miss), sorted(rk)))
    else:
        base.update(kind='ok', construct='Timbuk section keywords', obligation='FMT', detail='writer %s within reader %s' % (sorted(wk), sorted(rk)))
    out.append(base)
    b2 = dict(w[0])
    if (pw['arrow'], pw['lp'], pw['rp']) == (pr['arrow'], pr['lp'], pr['rp']) and pw['arrow']:
        b2.update(kind='ok', construct='Timbuk rule punctuation', obligation='FMT', detail='arrow and parentheses agree')
    else:
        b2.update(kind='violation', construct='Timbuk rule punctuation', obligation='FMT', detail='writer uses %s, reader expects %s' % (pw, pr))
    out.append(b2)
    nw = [r for r in records if r['rule'] == RULE and r['kind'] == 'info' and r['construct'] == 'NUM-writer']
    nr = [r for r in records if r['rule'] == RULE and r['kind'] == 'info' and r['construct'] == 'NUM-reader']
    if nw and nr:
        wt = set(filter(None, nw[0]['detail'].split('=', 1)[1].split(',')))
        rt = set()
        for r in nr:
            rt |= set(filter(None, r['detail'].split('=', 1)[1].split(',')))
        b3 = dict(nw[0])
        if wt <= rt:
            b3.update(kind='ok', construct='Timbuk numeric tokens', obligation='FMT', detail='written as %s, read as %s' % (sorted(wt), sorted(rt)))
        else:
            b3.update(kind='violation', construct='Timbuk numeric tokens', obligation='FMT',
                      detail='the serializer writes numbers through %s but the parser reads them as %s: a value outside the common range (the rank -1 of a symbol declared without arity) is written in a form the parser rejects' % (sorted(wt - rt), sorted(rt)))
        out.append(b3)
    return out
