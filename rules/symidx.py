"""SYMIDX — a symbol-indexed rule list is consulted under a symbol, never as a whole (C01).

`DoubleIndexedTupleList` (vector<vector<vector<const StateTuple*>>>) maps state -> symbol -> rules;
`index[state]` is padded by resize(symbol+1), so its *length* says nothing about whether the state has
a rule for a given symbol. Instance: every size()/empty() taken on `index[state]`. Obligation: the
length is only compared relationally with a symbol (bounds check before `index[state][symbol]`);
using it as a truth value ("this state has some rule") is the violation (F1: a leaf rule of A was
matched against *any* rule of B)."""
from vfacts import strip, walk, method_name

RULE = 'SYMIDX'
FLOOR = 3
INNER = 'std::vector<std::vector<const std::vector<unsigned long> *'


def run(unit, em):
    for fn in unit.functions:
        if fn.body is None or 'explicit_tree' not in fn.file:
            continue
        for n in fn.walk():
            if n['k'] != 'CXXMemberCallExpr' or method_name(n) not in ('size', 'empty'):
                continue
            o = strip(n.get('obj'))
            if o is None:
                continue
            t = unit.ty(o).replace('const ', '')
            if not t.startswith(INNER.replace('const ', '')):
                continue
            # must be an element of the state-indexed outer vector
            if not (o['k'] == 'CXXOperatorCallExpr' and o.get('op') == '[]') and not (o['k'] == 'CXXMemberCallExpr' and method_name(o) == 'at') and o['k'] != 'DeclRefExpr':
                continue
            p = n.get('_p')
            while p is not None and p['k'] in ('ParenExpr', 'ImplicitCastExpr') and p.get('ck') != 'IntegralToBoolean':
                p = p.get('_p')
            txt = unit.text(n, 70)
            if method_name(n) == 'empty' or (p is not None and p['k'] == 'ImplicitCastExpr' and p.get('ck') == 'IntegralToBoolean') or \
               (p is not None and p['k'] == 'UnaryOperator' and p.get('op') == '!'):
                em.violation(n, txt, 'the length of a symbol-indexed rule list is used as a truth value: it is padded up to the largest symbol and does not tell whether a rule for the symbol at hand exists')
            elif p is not None and p['k'] == 'BinaryOperator' and p.get('op') in ('<', '<=', '>', '>=', '==', '!='):
                em.ok(n, txt, 'compared with a symbol index (%s)' % unit.text(p, 60))
            elif p is not None and p['k'] in ('ForStmt',):
                em.ok(n, txt, 'loop bound')
            else:
                em.ok(n, txt, 'not used as a truth value')
