"""GENPRE — a choice-function generator is only built over non-empty components (C07, C20).

Precondition inference.  A constructor that walks the elements of a container parameter and dereferences
`e.begin()` / steps back from `e.end()` of each element with no emptiness test needs every component to be
non-empty (the `assert`s that say so vanish under NDEBUG).  On an empty std::set this is a past-the-end
iterator decrement and a dereference of end().

Instance: every construction `G(X)` of such a class from a local vector X.  Obligations at the site:
  guard   the construction is controlled by `!F` for a bool local F initialised to false;
  cover   X is filled by a loop `for (i = 0; i < N; ++i)` with N the size X was created with;
  test    every path through that loop's body that reaches the next iteration passes a test
          `X[i].empty()` (a path that skips it leaves an unchecked, possibly empty component);
  flag    the true branch of that test sets F = true."""
from vfacts import strip, walk, is_node, method_name, must_pass_through, known_facts
from .prov import var_table

RULE = 'GENPRE'
FLOOR = 3
ANCHORS = ['CheckUpwardTreeInclusion']


def needs_nonempty_components(unit, ctor):
    """index of the constructor parameter whose elements are dereferenced unguarded, else None"""
    if ctor.body is None:
        return None
    # field initialised from a parameter (reference member) counts as the parameter
    alias = {}
    for i in ctor.d.get('inits') or []:
        e = strip(i.get('e') if 'e' in i else i.get('init'))
        if e is not None and e['k'] == 'DeclRefExpr' and i.get('field') is not None:
            alias[i['field']] = e.get('d')
    pids = [p['d'] for p in ctor.params]
    for n in walk(ctor.body):
        if n['k'] in ('ForStmt', 'CXXForRangeStmt', 'WhileStmt'):
            txt = unit.text(n, 0)
            derefs = [m for m in walk(n.get('body')) if m['k'] == 'CXXMemberCallExpr' and method_name(m) in ('begin', 'end')]
            tests = [m for m in walk(n) if m['k'] == 'CXXMemberCallExpr' and method_name(m) in ('empty', 'size')]
            if derefs and not tests:
                # which parameter is walked?
                for m in walk(n):
                    if m['k'] == 'DeclRefExpr' and m.get('d') in pids:
                        return pids.index(m['d'])
                    if m['k'] == 'MemberExpr' and m.get('d') in alias and alias[m['d']] in pids:
                        return pids.index(alias[m['d']])
                    if m['k'] == 'MemberExpr' and (m.get('n') or '').rstrip('_') in [p.get('n') for p in ctor.params]:
                        return [p.get('n') for p in ctor.params].index(m['n'].rstrip('_'))
    return None


ALIAS = {}


def sub_of(e, xd, idx=None):
    """e is X[i] for the local X (decl xd), directly or through a local reference `T& c = X[i]`; returns the index expression"""
    e = strip(e)
    if e is not None and e['k'] == 'DeclRefExpr' and e.get('d') in ALIAS:
        e = strip(ALIAS[e['d']])
    if e is not None and e['k'] == 'CXXOperatorCallExpr' and e.get('op') == '[]' and len(e.get('args', [])) == 2:
        b = strip(e['args'][0])
        if b is not None and b['k'] == 'DeclRefExpr' and b.get('d') == xd:
            return strip(e['args'][1])
    return None


def run(unit, em):
    pre = {}
    for fn in unit.functions:
        if fn.d.get('fk') == 'ctor' and fn.body is not None and len(fn.params) >= 1:
            k = needs_nonempty_components(unit, fn)
            if k is not None:
                pre[fn.d['d']] = (k, fn)
    if not pre:
        return
    for fn in unit.functions:
        if fn.body is None:
            continue
        vt = var_table(fn)
        ALIAS.clear()
        for d_, v_ in vt.items():
            if v_['kind'] == 'local' and unit.ty(v_['decl']).rstrip().endswith('&') and is_node(v_['decl'].get('init')):
                ALIAS[d_] = v_['decl']['init']
        for c in fn.walk():
            if c['k'] not in ('CXXConstructExpr', 'CXXTemporaryObjectExpr') or c.get('cd') not in pre:
                continue
            k, ctor = pre[c['cd']]
            if k >= len(c.get('args', [])):
                continue
            short = fn.q.replace('VATA::', '')
            if any(short.startswith(a) for a in ANCHORS):
                em.anchor(fn, ANCHORS[0])
            x = strip(c['args'][k])
            cname_ = ctor.q.split('::')[-1]
            txt = '%s(%s)' % (cname_, unit.text(x, 30) if x else '?')
            if x is None or x['k'] != 'DeclRefExpr' or x.get('d') not in vt or vt[x['d']]['kind'] != 'local':
                em.unknown(c, txt, 'the domain is not a local container', 'guard')
                continue
            xd = x['d']
            # guard
            facts, _ = known_facts(c)
            F = None
            for pol, atom in facts:
                a = strip(atom)
                if a is not None and a['k'] == 'DeclRefExpr' and pol is False and a.get('d') in vt and unit.ty(vt[a['d']]['decl']).strip() == 'bool':
                    F = a['d']
            if F is None:
                em.violation(c, txt, 'the generator dereferences begin()/end() of every component of `%s`, but its construction is not controlled by an emptiness flag' % unit.text(x, 30), 'guard')
                continue
            em.ok(c, txt, 'constructed only when `%s` is false' % vt[F]['decl'].get('n'), 'guard')
            # the filling loop
            loops = []
            for n in fn.walk(lambdas=False):
                if n['k'] == 'ForStmt' and is_node(n.get('body')) and any(sub_of(m, xd) is not None for m in walk(n['body'])):
                    loops.append(n)
            if len(loops) != 1:
                em.unknown(c, txt, 'expected one index loop filling the domain, found %d' % len(loops), 'cover')
                continue
            L = loops[0]
            iv = None
            cond = strip(L.get('c'))
            if cond is not None and cond['k'] == 'BinaryOperator' and cond.get('op') in ('<', '!='):
                l = strip(cond['ch'][0])
                if l is not None and l['k'] == 'DeclRefExpr':
                    iv = l['d']
                    bound = unit.text(strip(cond['ch'][1]), 0)
            init = strip(vt[xd]['decl'].get('init')) if is_node(vt[xd]['decl'].get('init')) else None
            size_txt = unit.text(strip(init['args'][0]), 0) if init is not None and init.get('args') else None
            if iv is None or size_txt is None:
                em.unknown(L, txt + ': cover', 'loop bound / size of the domain not resolved', 'cover')
            elif bound == size_txt and cond['op'] == '<':
                em.ok(L, txt + ': cover', 'the loop visits every index below %s, the size the domain was created with' % size_txt, 'cover')
            else:
                em.violation(L, txt + ': cover', 'the checking loop runs to %s but the domain has %s components: the remaining ones are never tested' % (bound, size_txt), 'cover')
            # test on every path to the next iteration
            def is_test(n):
                if n['k'] == 'CXXMemberCallExpr' and method_name(n) == 'empty':
                    i = sub_of(n.get('obj'), xd)
                    return i is not None and i.get('d') == iv
                return False
            cfg = fn.cfg()
            inc = L.get('inc')
            body = L['body']
            first = None
            for m in walk(body):
                if cfg is not None and cfg.locate(m) is not None and m is not body:
                    first = m
                    break
            if cfg is None or not is_node(inc) or first is None:
                em.unknown(L, txt + ': test', 'CFG of the loop not resolved', 'test')
                continue
            inc_ids = {id(m) for m in walk(inc)}
            pos = cfg.locate(first)
            ok, w = must_pass_through(cfg, pos, lambda n: id(n) in inc_ids, is_test, start_after=False)
            if ok:
                em.ok(L, txt + ': test', 'every path to the next iteration tests %s[%s].empty()' % (unit.text(x, 30), vt[iv]['decl'].get('n')), 'test')
            else:
                em.violation(L, txt + ': test', 'a path through the loop body reaches the next index without testing %s[%s].empty(): an empty component then reaches %s, which decrements end() and dereferences begin() of an empty set' % (
                    unit.text(x, 30), vt[iv]['decl'].get('n'), cname_), 'test')
            # flag
            flagged = False
            for n in walk(body):
                if n['k'] == 'IfStmt' and is_node(n.get('c')) and any(is_test(m) for m in walk(n['c'])):
                    for m in walk(n.get('th')):
                        if m['k'] == 'BinaryOperator' and m.get('op') == '=' and (strip(m['ch'][0]) or {}).get('d') == F and (strip(m['ch'][1]) or {}).get('k') == 'CXXBoolLiteralExpr' and (strip(m['ch'][1]) or {}).get('v') in (True, 1, 'true'):
                            flagged = True
            if flagged:
                em.ok(L, txt + ': flag', 'an empty component sets the guarding flag', 'flag')
            else:
                em.violation(L, txt + ': flag', 'finding an empty component does not set `%s`, the flag that guards the construction' % vt[F]['decl'].get('n'), 'flag')
