"""DRAIN — a worklist is processed until it is empty (C15, C03, C10, C08).

Instance: every `while (!W.empty())` loop over a work container. Obligation: the loop is left early
(`break` bound to this loop) only from a branch that has established the goal of the search
(it sets a final state / result flag, or jumps to the found-label); a `break` taken merely because
the popped element has nothing to contribute (`lookup == end()`, null cluster) abandons the elements
still queued. `continue` is the accepted idiom for such elements. `goto`/`return` are not instances."""
from vfacts import strip, walk, method_name, enclosing, is_node

RULE = 'DRAIN'
FLOOR = 10
LOOPS = ('ForStmt', 'WhileStmt', 'CXXForRangeStmt', 'DoStmt', 'SwitchStmt')


def is_worklist_loop(unit, n):
    """(worklist text, [extra conjuncts of the loop condition]) for `while (!W.empty() [&& ...])`"""
    if n['k'] != 'WhileStmt':
        return None
    from vfacts import conjuncts
    W, extra = None, []
    for pol, atom in conjuncts(n['c'], True):
        a = strip(atom)
        if pol is False and a is not None and a['k'] == 'CXXMemberCallExpr' and method_name(a) == 'empty' and W is None:
            W = unit.text(strip(a.get('obj')), 0)
        else:
            extra.append((pol, atom))
    return (W, extra) if W else None


def run(unit, em):
    for fn in unit.functions:
        f = fn.file
        if fn.body is None or '/src/' not in f or '/mtbdd/' in f or '/util/' in f:
            continue
        for lp in fn.walk():
            wl = is_worklist_loop(unit, lp)
            if not wl:
                continue
            W, extra = wl
            for pol, atom in extra:
                a = strip(atom)
                sizes = [x for x in walk(atom) if x['k'] == 'CXXMemberCallExpr' and method_name(x) == 'size']
                objs = {unit.text(strip(x.get('obj')), 0) for x in sizes}
                if len(objs) >= 2:
                    em.violation(lp, 'while (!%s.empty() && ...)' % W, 'the worklist loop also stops on `%s`, a comparison of the cardinalities of two different containers: equal counts do not mean everything was reached, queued elements are abandoned' % unit.text(atom, 70))
                else:
                    em.ok(lp, 'while (!%s.empty() && ...)' % W, 'extra exit condition is not a cardinality comparison')
            breaks = []
            for n in walk(lp['body'], lambdas=False):
                if n['k'] == 'BreakStmt' and enclosing(n, LOOPS) is lp:
                    breaks.append(n)
            name = 'while (!%s.empty())' % W
            if not breaks:
                em.ok(lp, name, 'runs until the worklist is empty (leaves only by return/goto after a result)')
                continue
            for b in breaks:
                # the statements that precede the break in its block: do they record a result?
                p = b.get('_p')
                sibs = p.get('ch', []) if p is not None and p['k'] == 'CompoundStmt' else []
                records = False
                for s in sibs:
                    if s is b:
                        break
                    for x in walk(s):
                        if x['k'] in ('BinaryOperator', 'CXXOperatorCallExpr') and x.get('op') == '=':
                            records = True
                        if x['k'] == 'CXXMemberCallExpr' and method_name(x) in ('SetStateFinal', 'insert', 'push_back'):
                            records = True
                if records:
                    em.ok(b, name + ': break', 'taken after recording a result')
                else:
                    em.violation(b, name + ': break', 'the worklist loop is abandoned while elements may still be queued, from a branch that records no result (use `continue` for an element that contributes nothing)')
