"""DRAIN — a worklist is processed until it is empty (C15, C03, C10, C08).

Instance: every `while (!W.empty())` loop over a work container. Obligation: the loop is left early
(`break` bound to this loop) only from a branch that has established the goal of the search
(it sets a final state / result flag, or jumps to the found-label); a `break` taken merely because
the popped element has nothing to contribute (`lookup == end()`, null cluster) abandons the elements
still queued. `continue` is the accepted idiom for such elements. `goto`/`return` are not instances.

Clause `foreach`: a range-for loop of a void member function whose body records elements (non-const call on the
own object) is left by `break`/`return` only from a branch that recorded a verdict just before (assignment /
non-const call) or that is controlled by a verdict flag (bool field or local); an element that needs no work
is skipped, it does not end the loop (seed C07-6)."""
from vfacts import strip, walk, method_name, enclosing, is_node

RULE = 'DRAIN'
FLOOR = 60
LOOPS = ('ForStmt', 'WhileStmt', 'CXXForRangeStmt', 'DoStmt', 'SwitchStmt')


def is_worklist_loop(unit, n):
    """(worklist text, [extra conjuncts of the loop condition]) for `while (!W.empty() [&& ...])`"""
    if n['k'] != 'WhileStmt':
        return None
    from vfacts import conjuncts
    W, extra = None, []
    for pol, atom in conjuncts(n['c'], True):
        a = strip(atom)
        if pol is False and a is not None and a['k'] == 'CXXMemberCallExpr' and method_name(a) == 'empty' and W is None:
            W = unit.text(strip(a.get('obj')), 0)
        else:
            extra.append((pol, atom))
    return (W, extra) if W else None


def run(unit, em):
    for fn in unit.functions:
        f = fn.file
        if fn.body is None or '/src/' not in f or '/mtbdd/' in f or '/util/' in f:
            continue
        for lp in fn.walk():
            wl = is_worklist_loop(unit, lp)
            if not wl:
                continue
            W, extra = wl
            for pol, atom in extra:
                a = strip(atom)
                from .prov import bool_leaves
                sizes = [x for leaf in bool_leaves(fn, atom) for x in walk(leaf) if x['k'] == 'CXXMemberCallExpr' and method_name(x) == 'size' and
                         leaf['k'] == 'BinaryOperator' and leaf.get('op') in ('==', '!=', '<', '>', '<=', '>=')]
                sizes = sizes or [x for x in walk(atom) if x['k'] == 'CXXMemberCallExpr' and method_name(x) == 'size']
                objs = {unit.text(strip(x.get('obj')), 0) for x in sizes}
                if len(objs) >= 2:
                    em.violation(lp, 'while (!%s.empty() && ...)' % W, 'the worklist loop also stops on `%s`, a comparison of the cardinalities of two different containers (%s): equal counts do not mean everything was reached, queued elements are abandoned' % (unit.text(atom, 70), ' / '.join(sorted(objs))))
                else:
                    em.ok(lp, 'while (!%s.empty() && ...)' % W, 'extra exit condition is not a cardinality comparison')
            breaks = []
            for n in walk(lp['body'], lambdas=False):
                if n['k'] == 'BreakStmt' and enclosing(n, LOOPS) is lp:
                    breaks.append(n)
            name = 'while (!%s.empty())' % W
            if not breaks:
                em.ok(lp, name, 'runs until the worklist is empty (leaves only by return/goto after a result)')
                continue
            for b in breaks:
                # the statements that precede the break in its block: do they record a result?
                p = b.get('_p')
                sibs = p.get('ch', []) if p is not None and p['k'] == 'CompoundStmt' else []
                records = False
                for s in sibs:
                    if s is b:
                        break
                    for x in walk(s):
                        if x['k'] in ('BinaryOperator', 'CXXOperatorCallExpr') and x.get('op') == '=':
                            records = True
                        if x['k'] == 'CXXMemberCallExpr' and method_name(x) in ('SetStateFinal', 'insert', 'push_back'):
                            records = True
                if records:
                    em.ok(b, name + ': break', 'taken after recording a result')
                else:
                    em.violation(b, name + ': break', 'the worklist loop is abandoned while elements may still be queued, from a branch that records no result (use `continue` for an element that contributes nothing)')
        # ---- foreach: a per-element processing loop of a void member function is only left on a verdict
        isvoid = unit.tname(fn.d.get('ret')) == 'void'
        if not fn.d.get('cls'):
            continue
        for lp in fn.walk(lambdas=False):
            if lp['k'] != 'CXXForRangeStmt' or not is_node(lp.get('body')):
                continue
            # processing loop: its body calls a non-const member function of the own object (records the element)
            if isvoid:
                records_elem = any(x['k'] == 'CXXMemberCallExpr' and not x.get('const') and x.get('inrepo') and
                                   (strip(x.get('obj')) is None or (strip(x.get('obj')) or {}).get('k') == 'CXXThisExpr')
                                   for x in walk(lp['body'], lambdas=False))
                # ... or collects into an out-parameter (`pre.push_back(block)` in SimulationEngine::buildPre)
                records_elem = records_elem or any(x['k'] == 'CXXMemberCallExpr' and method_name(x) in ('push_back', 'emplace_back', 'insert', 'emplace') and
                                                   (strip(x.get('obj')) or {}).get('k') == 'DeclRefExpr' and (strip(x.get('obj')) or {}).get('dk') == 'param'
                                                   for x in walk(lp['body'], lambdas=False))
            else:
                # value-returning builders (static operations): the loop records into a local result automaton / map
                records_elem = any(x['k'] == 'CXXMemberCallExpr' and not x.get('const') and x.get('inrepo') and
                                   (strip(x.get('obj')) or {}).get('k') == 'DeclRefExpr' and (strip(x.get('obj')) or {}).get('dk') == 'local'
                                   for x in walk(lp['body'], lambdas=False))
            if not records_elem:
                continue
            exits = [n for n in walk(lp['body'], lambdas=False)
                     if (n['k'] == 'BreakStmt' and enclosing(n, LOOPS) is lp) or (isvoid and n['k'] == 'ReturnStmt' and enclosing(n, ('LambdaExpr',)) is None)]
            name = 'for (%s : ...) in %s' % (lp['var'].get('n'), fn.q.split('::')[-1])
            if not exits:
                em.ok(lp, name, 'every element is visited', 'foreach')
                continue
            for b in exits:
                p = b.get('_p')
                sibs = p.get('ch', []) if p is not None and p['k'] == 'CompoundStmt' else []
                verdict = False
                for s in sibs:
                    if s is b:
                        break
                    for x in walk(s):
                        if x['k'] in ('BinaryOperator', 'CXXOperatorCallExpr', 'CompoundAssignOperator') and x.get('op', '').endswith('=') and x.get('op') not in ('==', '!=', '<=', '>='):
                            verdict = True
                        if x['k'] == 'CXXMemberCallExpr' and not x.get('const'):
                            verdict = True
                iff = enclosing(b, ('IfStmt',) + LOOPS)
                if not verdict and iff is not None and iff['k'] == 'IfStmt':
                    c = strip(iff.get('c'))
                    while c is not None and c['k'] == 'UnaryOperator' and c.get('op') == '!':
                        c = strip(c['ch'][0])
                    if c is not None and (c['k'] == 'MemberExpr' or (c['k'] == 'DeclRefExpr' and unit.ty(c).strip() == 'bool')):
                        verdict = True      # the exit is controlled by a verdict flag itself
                if verdict:
                    em.ok(b, name + ': exit', 'left after a verdict was recorded / on a verdict flag', 'foreach')
                else:
                    em.violation(b, name + ': exit', 'the loop over the elements is left from a branch that records no verdict: the remaining elements are never processed (an element that needs no work is skipped with `continue` / an if without else)', 'foreach')
