"""KIND — translator discipline: every state crosses the state index exactly once (C04, C14, C19, C05).

Kinds of a state-/symbol-valued expression, inferred from *typed sources* (never from names):
  A      automaton state as stored: key of a state->cluster map entry, element of a child tuple reached
         through a TuplePtr / StateTuple*, element of a final/start state set, element of an NFA
         successor set
  Sym    symbol as stored: key of a cluster entry
  T(x)   result of applying translator object x (x[e], x.at(e), x(e)) to a state
  TS(x)  result of applying a translator to a symbol
  Aux    a counter-allocated auxiliary LTS node (never a state)
joined flow-insensitively over locals, range-for variables and fields of local structs (through
constructor member-initialisers at their construction sites).
Violations: (1) double translation — a translator applied to a T(.) value; (2) missing translation
— an A value reaching a sink that lives in the translated space (ExplicitLTS::addTransition state
arguments, partition blocks; in ReindexStates-like functions every state handed to the destination
automaton); (3) role swap — in rule-copying functions parent/child/symbol roles are preserved
(a child-derived value used where the parent goes, or a state where the symbol goes).
Unresolved kinds are never reported."""
from vfacts import strip, walk, method_name, root_path, is_node, children, call_obj
from .prov import var_table, local_sources, origins

RULE = 'KIND'
FLOOR = 25
ANCHORS = ['ExplicitTreeAutCore::TranslateDownward', 'ExplicitTreeAutCore::TranslateUpward', 'ExplicitTreeAutCore::ReindexStates',
           'ExplicitFiniteAutCore::ReindexStates']
SCOPE = ('TranslateSymbols', 'TranslateDownward', 'TranslateUpward', 'ReindexStates', 'TranslateSymbols', 'CollapseStates', 'BuildStateIndex',
         'TranslateForward', 'TranslateBackward', 'Translate')
UL = 'unsigned long'


def is_state_cluster_entry(t):
    t = t.replace('const ', '')
    return t.startswith('std::pair<unsigned long, std::shared_ptr<') and 'TransitionCluster>' in t.replace(' ', '')


def is_symbol_entry(t):
    t = t.replace('const ', '')
    return (t.startswith('std::pair<unsigned long, std::shared_ptr<std::set<std::shared_ptr<std::vector<unsigned long') or
            t.startswith('std::pair<unsigned long, std::unordered_set<unsigned long') or
            t.startswith('std::pair<unsigned long, VATA::ExplicitFiniteAut::StateSet'))


def is_tuple_handle(t):
    t = t.replace('const ', '').strip()
    return t.startswith('std::shared_ptr<std::vector<unsigned long') or t.startswith('std::vector<unsigned long') and t.rstrip().endswith('*')


def is_translator_type(t):
    t = t.replace('const ', '')
    return ('Translator' in t or 'AbstractReindexF' in t or t.startswith('std::unordered_map<unsigned long, unsigned long') or
            t.startswith('std::map<unsigned long, unsigned long') or 'AbstractSymbolTranslateF' in t)


class Kinds:
    def __init__(self, unit, fn):
        self.unit, self.fn = unit, fn
        self.memo = {}

    def join(self, ks):
        ks = [k for k in ks if k is not None]
        if not ks:
            return None
        if all(k == ks[0] for k in ks):
            return ks[0]
        if all(isinstance(k, tuple) and k[0] in ('T', 'T?') or k == 'Aux' for k in ks):
            return ('T', ('several', 'translators/counters'))
        return 'MIXED'

    def var(self, d, stack):
        if d in self.memo:
            return self.memo[d]
        if d in stack:
            return None
        v = var_table(self.fn).get(d)
        if v is None or v['kind'] in ('param', 'lparam'):
            return None
        ks = []
        if v['kind'] == 'rangevar':
            ks.append(self.element_kind(v['node'].get('range'), stack | {d}))
        else:
            for s in local_sources(self.fn, d):
                ks.append(self.expr(s, stack | {d}))
        r = self.join(ks)
        if not stack:
            self.memo[d] = r
        return r

    def element_kind(self, rng, stack):
        """kind of the elements obtained by iterating expression rng"""
        r = strip(rng)
        if r is None:
            return None
        rp = root_path(r)
        if rp and rp[-1] in ('finalStates_', 'startStates_', 'GetFinalStates()', 'GetStartStates()'):
            return 'A'
        # *tuple  (TuplePtr / StateTuple*)
        if r['k'] in ('UnaryOperator', 'CXXOperatorCallExpr') and r.get('op') == '*':
            inner = r['ch'][0] if r['k'] == 'UnaryOperator' else r['args'][0]
            if is_tuple_handle(self.unit.ty(strip(inner) or inner)):
                return 'A'
        # successor set of an NFA cluster entry:  entry.second  with entry a symbol entry holding a set of states
        if r['k'] == 'MemberExpr' and r['n'] == 'second' and r.get('ch'):
            bt = self.unit.ty(strip(r['ch'][0]) or r['ch'][0])
            if bt.replace('const ', '').startswith(('std::pair<unsigned long, std::unordered_set<unsigned long', 'std::pair<unsigned long, VATA::ExplicitFiniteAut::StateSet')):
                return 'A'
        return None

    def field_kind(self, e, stack):
        """kind of a field of a local struct, through its constructor's member-initialisers"""
        fname = e['n']
        rec = e.get('cls')
        if not rec:
            return None
        ks = []
        for ctor in self.unit.functions:
            if ctor.d.get('fk') != 'ctor' or ctor.cls != rec:
                continue
            pidx = None
            for i in ctor.d.get('inits', []):
                if i.get('n') == fname and is_node(i.get('init')):
                    s = strip(i['init'])
                    if s is not None and s['k'] == 'DeclRefExpr':
                        for k, p in enumerate(ctor.params):
                            if p['d'] == s.get('d'):
                                pidx = k
            if pidx is None:
                continue
            for n in self.fn.walk():
                if n['k'] in ('CXXConstructExpr', 'CXXTemporaryObjectExpr') and n.get('cd') == ctor.d['d'] and len(n.get('args', [])) > pidx:
                    ks.append(self.expr(n['args'][pidx], stack))
        return self.join(ks)

    def translator_app(self, e):
        """(translator expr, argument expr) if e applies a translator-like object"""
        if e['k'] == 'CXXOperatorCallExpr' and e.get('op') in ('[]', '()') and len(e.get('args', [])) == 2:
            x, a = e['args']
        elif e['k'] == 'CXXMemberCallExpr' and method_name(e) in ('at', 'operator()') and len(e.get('args', [])) == 1:
            x, a = e.get('obj'), e['args'][0]
        else:
            return None
        xs = strip(x)
        if xs is None or not is_translator_type(self.unit.ty(xs)):
            return None
        if self.unit.ty(e).replace('const ', '').strip() != UL:
            return None
        return x, a

    def expr(self, e, stack=frozenset()):
        e = strip(e)
        if e is None:
            return None
        k = e['k']
        if k == 'DeclRefExpr':
            return self.var(e.get('d'), stack)
        ta = self.translator_app(e)
        if ta:
            x, a = ta
            ak = self.expr(a, stack)
            xr = root_path(x) or ('?',)
            if ak == 'Sym':
                return ('TS', xr)
            if ak == 'A' or (isinstance(ak, tuple) and ak[0] == 'T'):
                return ('T', xr)
            return ('T?', xr)   # translated value of an argument whose kind is unresolved
        if k == 'MemberExpr' and e.get('ch'):
            base = strip(e['ch'][0]) or e['ch'][0]
            bt = self.unit.ty(base)
            if e['n'] == 'first':
                if is_state_cluster_entry(bt):
                    return 'A'
                if is_symbol_entry(bt):
                    return 'Sym'
                return None
            if e.get('dk') == 'field' and self.unit.ty(e).replace('const ', '').strip() == UL:
                return self.field_kind(e, stack)
            return None
        # element of a tuple:  (*tuple)[i], tuple->front(), tuple->at(i)
        if k == 'CXXOperatorCallExpr' and e.get('op') == '[]' and e.get('args'):
            b = strip(e['args'][0])
            if b is not None and b['k'] in ('UnaryOperator', 'CXXOperatorCallExpr') and b.get('op') == '*':
                inner = b['ch'][0] if b['k'] == 'UnaryOperator' else b['args'][0]
                if is_tuple_handle(self.unit.ty(strip(inner) or inner)):
                    return 'A'
            return None
        if k == 'CXXMemberCallExpr' and method_name(e) in ('front', 'back', 'at') and is_node(e.get('obj')):
            o = strip(e['obj'])
            if o is not None and o['k'] in ('UnaryOperator', 'CXXOperatorCallExpr') and o.get('op') in ('*', '->'):
                inner = o['ch'][0] if o['k'] == 'UnaryOperator' else o['args'][0]
                if is_tuple_handle(self.unit.ty(strip(inner) or inner)):
                    return 'A'
            # tuple->front(): obj is the implicit deref of the pointer
            if is_tuple_handle(self.unit.ty(o)) if o is not None else False:
                return 'A'
            return None
        if k == 'UnaryOperator' and e.get('op') in ('++', '--'):
            return 'Aux' if e.get('postfix') is not None or True else None
        if k == 'CXXMemberCallExpr' and method_name(e) == 'size':
            return 'Aux'
        if k == 'ConditionalOperator':
            return self.join([self.expr(e['ch'][1], stack), self.expr(e['ch'][2], stack)])
        return None


def kname(k):
    if k is None:
        return 'unknown'
    if isinstance(k, tuple):
        return '%s(%s)' % (k[0], '.'.join(k[1][1:]) or k[1][0])
    return k


ROLE_SCOPE = ('RemoveUselessStates', 'GetCandidateTree', 'TranslateSymbols', 'ReindexStates', 'CopyTransitionsFrom', 'RemoveUnreachableStates')


def run_roles(unit, fn, em):
    """rule-copying functions keep symbol and parent roles: internalAddTransition/AddTransition(children, symbol, parent)"""
    K = Kinds(unit, fn)
    for c in fn.calls():
        if method_name(c) not in ('internalAddTransition', 'AddTransition') or len(c.get('args', [])) != 3:
            continue
        if 'ExplicitTreeAut' not in (c.get('q') or ''):
            continue
        ks, kp = K.expr(c['args'][1]), K.expr(c['args'][2])
        txt = unit.text(c, 90)
        bad = None
        if ks == 'A' or (isinstance(ks, tuple) and ks[0] == 'T'):
            bad = 'a state (%s) is passed where the symbol goes' % kname(ks)
        elif kp == 'Sym' or (isinstance(kp, tuple) and kp[0] == 'TS'):
            bad = 'a symbol (%s) is passed where the parent state goes' % kname(kp)
        if bad:
            em.violation(c, txt, 'role swap in a copied rule: ' + bad, 'role')
        elif ks is None and kp is None:
            em.unknown(c, txt, 'roles not resolved', 'role')
        else:
            em.ok(c, txt, 'symbol is %s, parent is %s' % (kname(ks), kname(kp)), 'role')


def leaf_sources(fn, e, depth=0, seen=None):
    """leaf expressions a value can come from, expanding locals through their initialisers and assignments"""
    seen = seen if seen is not None else set()
    e = strip(e)
    if e is None or depth > 8:
        return []
    if e['k'] == 'DeclRefExpr':
        v = var_table(fn).get(e.get('d'))
        if v is not None and v['kind'] == 'local':
            if e['d'] in seen:
                return []
            seen.add(e['d'])
            out = []
            srcs = local_sources(fn, e['d'])
            if not srcs:
                return [e]
            for s in srcs:
                out += leaf_sources(fn, s, depth + 1, seen)
            return out
    if e['k'] == 'ConditionalOperator':
        return leaf_sources(fn, e['ch'][1], depth + 1, seen) + leaf_sources(fn, e['ch'][2], depth + 1, seen)
    return [e]


def flag_guarded_memo(unit, fn, K):
    """is some assignment `x = <symbol map applied>` controlled by a condition that reads a bool local (validity flag)?"""
    from vfacts import guards
    from .prov import assignments
    vt = var_table(fn)
    for lhs, rhs, an in assignments(fn):
        if not K.translator_app(strip(rhs)):
            continue
        for pol, cnd, how in guards(an):
            if pol == 'loop' or not is_node(cnd):
                continue
            for x in walk(cnd):
                if x['k'] == 'DeclRefExpr' and x.get('d') in vt and vt[x['d']]['kind'] == 'local' and unit.ty(vt[x['d']]['decl']).replace('const ', '').strip() == 'bool':
                    return True
    return False


def run_symbol_image(unit, fn, em):
    """TranslateSymbols: the symbol of every rule added to the result is, on every data-flow source, an application
    of the symbol map (a default-constructed or literal symbol is not an image)"""
    K = Kinds(unit, fn)
    for c in fn.calls():
        if method_name(c) not in ('internalAddTransition', 'AddTransition') or len(c.get('args', [])) != 3:
            continue
        leaves = leaf_sources(fn, c['args'][1])
        txt = unit.text(c, 90)
        bad = [l for l in leaves if not K.translator_app(l)]
        if not leaves:
            em.unknown(c, txt, 'sources of the symbol not resolved', 'image')
        elif bad and flag_guarded_memo(unit, fn, K):
            em.unknown(c, txt, 'the symbol has a non-image initial value, but its translation is memoised under a boolean validity flag: feasibility of the initial value reaching this call is not decided', 'image')
        elif bad:
            em.violation(c, txt, 'the symbol of the image rule can come from `%s`, which is not an application of the symbol map: that rule is not the image of a rule of the input' % unit.text(bad[0], 40), 'image')
        else:
            em.ok(c, txt, 'the symbol is the symbol map applied (%d source(s))' % len(leaves), 'image')


def run(unit, em):
    for fn in unit.functions:
        name = fn.q.split('::')[-1]
        if fn.body is not None and name in ROLE_SCOPE and 'explicit_tree' in fn.file:
            run_roles(unit, fn, em)
        if fn.body is not None and name == 'TranslateSymbols' and 'explicit_tree_aut_core' in fn.file:
            run_symbol_image(unit, fn, em)
        if fn.body is None or name not in SCOPE:
            continue
        if not ('explicit_' in fn.file or 'bdd_' in fn.file):
            continue
        short = fn.q.replace('VATA::', '')
        if short in ANCHORS:
            em.anchor(fn, short)
        K = Kinds(unit, fn)
        # destination automaton of rule-copying functions: first non-const reference parameter of the own class type
        dst = None
        for p in fn.params:
            if p.get('ref') == 'r' and fn.cls and unit.tname(p['t']).replace(' &', '').strip() == unit.tname(fn.d.get('rc', -1)):
                dst = p['d']
                break
        for n in fn.walk():
            # (1) translator applications
            ta = K.translator_app(n) if n['k'] in ('CXXOperatorCallExpr', 'CXXMemberCallExpr') else None
            if ta:
                x, a = ta
                ak = K.expr(a)
                txt = unit.text(n, 80)
                if isinstance(ak, tuple) and ak[0] == 'T':
                    em.violation(n, txt, 'double translation: the argument is already %s; translating it again makes the result depend on the state numbering' % kname(ak), 'double')
                elif ak in ('A', 'Sym'):
                    em.ok(n, txt, 'translates a stored %s once' % ('state' if ak == 'A' else 'symbol'), 'double')
                continue
            # (2) sinks
            if n['k'] != 'CXXMemberCallExpr':
                continue
            m = method_name(n)
            args = n.get('args', [])
            # (4) a translated key must be merged, not inserted: images of different keys may coincide
            if m in ('insert', 'emplace') and len(args) == 1:
                ot = unit.ty(strip(n.get('obj')) or n['obj']).replace('const ', '')
                a0 = strip(args[0])
                if ('TransitionCluster' in ot or 'StateToTransitionClusterMap' in ot) and a0 is not None and a0['k'] == 'CallExpr' and a0.get('q') == 'std::make_pair' and a0.get('args'):
                    kk = K.expr(a0['args'][0])
                    txt = unit.text(n, 90)
                    if isinstance(kk, tuple) and kk[0] in ('T', 'TS', 'T?'):
                        em.violation(n, txt, 'a rule store entry is insert()ed under a translated key (%s): when two keys have the same image the second insert is ignored and its rules are dropped; merge through unique*() instead' % kname(kk), 'collide')
                    else:
                        em.ok(n, txt, 'key is not a translated value', 'collide')
            sinks = []
            if m == 'addTransition' and 'ExplicitLTS' in unit.ty(strip(n.get('obj')) or n.get('obj')) and len(args) == 3:
                sinks = [(args[0], 'LTS source node'), (args[2], 'LTS target node')]
            elif m == 'push_back' and len(args) == 1:
                rp = root_path(n.get('obj'))
                if rp and rp[:2] == ('param', 'partition'):
                    sinks = [(args[0], 'partition block')]
                elif dst is not None and rp and rp[0] == 'local' and unit.ty(strip(n.get('obj')) or n['obj']).replace('const ', '').startswith('std::vector<unsigned long'):
                    sinks = [(args[0], 'child of a rule built for the destination')]
            elif dst is not None and args:
                o = n.get('obj')
                if o is not None and dst in origins(fn, o, stop={dst}):
                    if m in ('SetStateFinal', 'SetExistingStateStart', 'SetStateStart', 'uniqueCluster'):
                        sinks = [(args[0], '%s of the destination' % m)]
                    elif m == 'insert' and len(args) == 1 and unit.ty(strip(args[0]) or args[0]).replace('const ', '').strip() == UL:
                        sinks = [(args[0], 'successor state stored in the destination')]
                    elif m in ('AddTransition', 'internalAddTransition') and len(args) == 3:
                        sinks = [(args[2], 'parent of a rule of the destination')]
            for a, what in sinks:
                ak = K.expr(a)
                txt = unit.text(n, 90)
                if ak == 'A':
                    em.violation(n, txt, 'missing translation: a stored automaton state reaches the %s without passing the state index' % what, 'missing:' + what)
                elif ak == 'Sym':
                    em.violation(n, txt, 'a stored symbol is used as the %s' % what, 'missing:' + what)
                elif ak in (None, 'MIXED'):
                    em.unknown(n, txt, 'kind of the %s not resolved' % what, 'missing:' + what)
                else:
                    em.ok(n, txt, '%s is %s' % (what, kname(ak)), 'missing:' + what)
