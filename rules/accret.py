"""ACCRET — what was accumulated is what is returned (C03, C08, C10, C15 and every by-value builder).

Contradiction rule (Engler et al.: stated beliefs).  A function that returns an automaton by value,
declares a local accumulator of that type and mutates it (non-const member call, assignment, passed as a
non-const reference) states the belief "this object is the result".  A `return E` reachable from such a
mutation where E derives from no accumulator of the function (a fresh default-constructed object, an
unrelated call) discards the accumulated content: either the mutation is dead or the return is wrong.

Instance = (function, return statement) for functions whose return type is an in-repo automaton core/
facade class and which mutate a local of that type.  Early returns before any mutation (input already
empty, shared-table fast path) are not instances.  Accepted: E mentions an accumulator anywhere
(`res`, `res.RemoveUselessStates()`, `Aut(std::move(res))`, `f(res)`)."""
import re
from vfacts import strip, walk, is_node, method_name, must_pass_through
from .prov import var_table

RULE = 'ACCRET'
FLOOR = 12
ANCHORS = ['ExplicitFiniteAutCore::GetCandidateTree', 'ExplicitTreeAutCore::GetCandidateTree',
           'ExplicitTreeAutCore::RemoveUselessStates', 'ExplicitTreeAutCore::RemoveUnreachableStates']

AUT = re.compile(r'^(const )?(VATA::)?(Explicit(Tree|Finite)Aut(Core)?|BDD(BU|TD)TreeAutCore|BDD(BottomUp|TopDown)TreeAut|ExplicitFA)\b')


def base_type(t):
    return t.replace('const ', '').replace('&', '').replace('VATA::', '').strip()


def run(unit, em):
    for fn in unit.functions:
        if fn.body is None:
            continue
        rt = base_type(unit.tname(fn.d.get('ret')))
        if not AUT.match(rt):
            continue
        vt = var_table(fn)
        acc = {d for d, v in vt.items() if v['kind'] == 'local' and base_type(unit.ty(v['decl'])) == rt
               and not unit.ty(v['decl']).rstrip().endswith('&')}
        if not acc:
            continue
        # mutations of an accumulator
        muts = []
        for n in fn.walk(lambdas=True):
            k = n['k']
            tgt = None
            if k == 'CXXMemberCallExpr' and not n.get('const'):
                tgt = strip(n.get('obj'))
            elif k == 'CXXOperatorCallExpr' and n.get('op') in ('=', '+=') and n.get('args'):
                tgt = strip(n['args'][0])
            elif k in ('CallExpr', 'CXXMemberCallExpr', 'CXXConstructExpr'):
                pk = n.get('pk') or ''
                for i, a in enumerate(n.get('args') or []):
                    if i < len(pk) and pk[i] == 'r':
                        s = strip(a)
                        if s is not None and s['k'] == 'DeclRefExpr' and s.get('d') in acc:
                            muts.append((s['d'], n))
            if k == 'CXXMemberCallExpr':
                pk = n.get('pk') or ''
                for i, a in enumerate(n.get('args') or []):
                    if i < len(pk) and pk[i] == 'r':
                        s = strip(a)
                        if s is not None and s['k'] == 'DeclRefExpr' and s.get('d') in acc:
                            muts.append((s['d'], n))
            # field writes res.f_... (member of accumulator used as object of a non-const call / assignment)
            while tgt is not None and tgt['k'] in ('MemberExpr',) and is_node(tgt.get('obj') if 'obj' in tgt else (tgt.get('ch') or [None])[0]):
                tgt = strip(tgt.get('obj') if 'obj' in tgt else tgt['ch'][0])
            if tgt is not None and tgt['k'] == 'DeclRefExpr' and tgt.get('d') in acc:
                muts.append((tgt['d'], n))
        if not muts:
            continue
        cfg = fn.cfg()
        rets = [n for n in fn.walk(lambdas=False) if n['k'] == 'ReturnStmt']
        short = fn.q.replace('VATA::', '')
        if short in ANCHORS:
            em.anchor(fn, short)
        for r in rets:
            e = (r.get('ch') or [None])[0]
            if not is_node(e):
                continue
            mentions = {n['d'] for n in walk(e) if n['k'] == 'DeclRefExpr' and n.get('d') in acc}
            txt = unit.text(r, 70)
            if mentions:
                em.ok(r, txt, 'returns the accumulator', 'ret')
                continue
            if cfg is None:
                em.unknown(r, txt, 'no CFG', 'ret')
                continue
            hit = None
            for d, m in muts:
                pos = cfg.locate(m)
                if pos is None:
                    continue
                ok, _ = must_pass_through(cfg, pos, lambda n, r=r: n is r, lambda n: False)
                if not ok:
                    hit = (d, m)
                    break
            if hit is None:
                em.ok(r, txt, 'early return before the accumulator is touched', 'ret')
            else:
                name = vt[hit[0]]['decl'].get('n') or '?'
                em.violation(r, txt, 'the accumulator `%s` was filled at line %d on a path to this return, but the returned value does not derive from it: the accumulated states/transitions/final marks are discarded' % (name, unit.loc(hit[1])[1]), 'ret')


# ---- clause `trimchain`: useless-state removal ends in the top-down pass on every return
def run_trimchain(unit, em):
    """RemoveUselessStates = bottom-up productivity pass, then RemoveUnreachableStates (top-down) on what is left: a state
    can be productive and still unreachable from every final state.  Every return of the explicit tree core's
    RemoveUselessStates (also the cheap path that shares the input's rule store) returns `<acc>.RemoveUnreachableStates(..)`."""
    for fn in unit.functions:
        if fn.body is None or fn.q.replace('VATA::', '') != 'ExplicitTreeAutCore::RemoveUselessStates':
            continue
        for r in fn.walk(lambdas=False):
            if r['k'] != 'ReturnStmt' or not (r.get('ch') or [None])[0]:
                continue
            e = strip(r['ch'][0])
            while e is not None and e['k'] in ('CXXConstructExpr', 'CXXTemporaryObjectExpr') and len(e.get('args', [])) == 1:
                e = strip(e['args'][0])
            txt = unit.text(r, 70)
            if e is not None and e['k'] == 'DeclRefExpr':
                v = var_table(fn).get(e.get('d'))
                srcs = [strip(s) for s in __import__('rules.prov', fromlist=['local_sources']).local_sources(fn, e['d'])] if v and v['kind'] == 'local' else []
                calls = [s for s in srcs if s is not None]
                while calls and all(s['k'] in ('CXXConstructExpr', 'CXXTemporaryObjectExpr') and len(s.get('args', [])) == 1 for s in calls):
                    calls = [strip(s['args'][0]) for s in calls]
                if calls and all(s is not None and s['k'] == 'CXXMemberCallExpr' and method_name(s) == 'RemoveUnreachableStates' for s in calls):
                    e = calls[0]
            if e is not None and e['k'] == 'CXXMemberCallExpr' and method_name(e) == 'RemoveUnreachableStates':
                em.ok(r, txt, 'returns the result of the top-down pass', 'trimchain')
            else:
                em.violation(r, txt, 'this return hands back the bottom-up result without RemoveUnreachableStates(): productive states and rules that no final state can reach stay in the automaton', 'trimchain')


_run_acc = run


def run(unit, em):
    _run_acc(unit, em)
    run_trimchain(unit, em)
