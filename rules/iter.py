"""ITER — nested transition iterators re-seat every inner level when an outer level moves (C12, C20).

The hierarchy is discovered from the code: field I is *inner* to field O when some method assigns
`I = O->second->begin()`. Instances:
  (1) every `if (<end> != ++O)` / `if (++O != <end>)` in an iterator method: on its not-at-end branch
      every inner field of O is assigned before the branch returns;
  (2) every statement `O = <...>.begin()` where O has an inner field I: I is assigned later in the same
      block.
A stale inner iterator dereferences an element of the previous container (wrong or freed rule)."""
from vfacts import strip, walk, method_name, is_node, must_pass_through

RULE = 'ITER'
FLOOR = 5
ANCHORS = ['Iterator::operator++', 'AcceptTransIterator::operator++', 'DownAccessorIterator::operator++']


def field_of(e):
    e = strip(e)
    if e is not None and e['k'] == 'MemberExpr' and e.get('dk') == 'field':
        b = strip((e.get('ch') or [None])[0])
        if b is not None and b['k'] == 'CXXThisExpr':
            return e['n']
    return None


def assignments_to_fields(fn):
    """[(node, field, rhs)]"""
    out = []
    for n in fn.walk():
        if n['k'] == 'CXXOperatorCallExpr' and n.get('op') == '=' and len(n.get('args', [])) == 2:
            f = field_of(n['args'][0])
            if f:
                out.append((n, f, n['args'][1]))
        elif n['k'] == 'BinaryOperator' and n.get('op') == '=':
            f = field_of(n['ch'][0])
            if f:
                out.append((n, f, n['ch'][1]))
    return out


def begin_of_field(rhs):
    """O if rhs is O->second->begin() (or O->...begin())"""
    r = None
    for y in walk(rhs):
        if y['k'] == 'CXXMemberCallExpr' and method_name(y) in ('begin', 'cbegin'):
            r = y
            break
    if r is None:
        return None
    for x in walk(r.get('obj')):
        f = field_of(x)
        if f:
            return f
    return None


def run(unit, em):
    fns = [f for f in unit.functions if f.body is not None and f.cls and 'Iterator' in f.cls and 'ExplicitTreeAutCoreUtil' in f.cls]
    if not fns:
        return
    inner = {}
    for fn in fns:
        for n, f, rhs in assignments_to_fields(fn):
            o = begin_of_field(rhs)
            if o and o != f:
                inner.setdefault(o, set()).add(f)
    for fn in fns:
        short = fn.q.replace('VATA::ExplicitTreeAutCoreUtil::', '')
        if short in ANCHORS:
            em.anchor(fn, short)
        cfg = fn.cfg()
        if cfg is None:
            continue
        asg = assignments_to_fields(fn)

        def writes_field(x, F):
            return any(a_ is x and f_ == F for a_, f_, _ in asg)

        def end_cmp(cn, O):
            """True/False = which edge of this condition is the not-at-end edge for field O; None if unrelated"""
            c = strip(cn)
            if c is None or c['k'] != 'CXXOperatorCallExpr' or c.get('op') not in ('!=', '==') or len(c.get('args', [])) != 2:
                return None
            has_end = any(x['k'] == 'CXXMemberCallExpr' and method_name(x) in ('end', 'cend') for a_ in c['args'] for x in walk(a_))
            side_o = [a_ for a_ in c['args'] if not any(x['k'] == 'CXXMemberCallExpr' and method_name(x) in ('end', 'cend') for x in walk(a_))]
            if not has_end or len(side_o) != 1:
                return None
            if not any(field_of(x) == O for x in walk(side_o[0]) if x['k'] == 'MemberExpr'):
                return None
            return c['op'] == '!='
        # (1) every advance ++O: on the not-at-end paths each inner field is re-seated before the method returns
        for n in fn.walk():
            if n['k'] != 'CXXOperatorCallExpr' or n.get('op') != '++' or not n.get('args'):
                continue
            O = field_of(n['args'][0])
            if not O or O not in inner:
                continue
            pos = cfg.locate(n)
            if pos is None:
                continue
            txt = unit.text(n, 60)
            for I in sorted(inner[O]):
                ok, wit = must_pass_through(cfg, pos, lambda x: x['k'] == 'ReturnStmt', lambda x, I=I: writes_field(x, I),
                                            edge_filter=lambda cn, O=O: end_cmp(cn, O))
                if ok:
                    em.ok(n, txt, '%s re-seated on every not-at-end path before returning' % I, 'advance:' + I)
                else:
                    em.violation(n, txt, 'after %s advances to a new element its inner iterator %s is not re-seated to that element\'s begin() on some path: it keeps pointing into the previous container' % (O, I), 'advance:' + I)
        # (2) re-seating statements O = <...>.begin(): the inner field is re-seated before the method returns
        for a, f, rhs in asg:
            if f not in inner or not any(y['k'] == 'CXXMemberCallExpr' and method_name(y) in ('begin', 'cbegin') for y in walk(rhs)):
                continue
            pos = cfg.locate(a)
            if pos is None:
                continue
            txt = unit.text(a, 80)
            for I in sorted(inner[f]):
                ok, wit = must_pass_through(cfg, pos, lambda x: x['k'] == 'ReturnStmt', lambda x, I=I: writes_field(x, I))
                if ok and fn.d.get('fk') == 'ctor':
                    ok, _ = must_pass_through(cfg, pos, None, lambda x, I=I: writes_field(x, I))
                if ok:
                    em.ok(a, txt, '%s re-seated afterwards' % I, 'reseat:' + I)
                else:
                    em.violation(a, txt, '%s is moved to a new container but its inner iterator %s is not re-seated before the method returns' % (f, I), 'reseat:' + I)
