"""ITER — nested transition iterators re-seat every inner level when an outer level moves (C12, C20).

The hierarchy is discovered from the code: field I is *inner* to field O when some method assigns
`I = O->second->begin()`. Instances:
  (1) every `if (<end> != ++O)` / `if (++O != <end>)` in an iterator method: on its not-at-end branch
      every inner field of O is assigned before the branch returns;
  (2) every statement `O = <...>.begin()` where O has an inner field I: I is assigned later in the same
      block.
A stale inner iterator dereferences an element of the previous container (wrong or freed rule)."""
from vfacts import strip, walk, method_name, is_node

RULE = 'ITER'
FLOOR = 8
ANCHORS = ['Iterator::operator++', 'AcceptTransIterator::operator++', 'DownAccessorIterator::operator++']


def field_of(e):
    e = strip(e)
    if e is not None and e['k'] == 'MemberExpr' and e.get('dk') == 'field':
        b = strip((e.get('ch') or [None])[0])
        if b is not None and b['k'] == 'CXXThisExpr':
            return e['n']
    return None


def assignments_to_fields(fn):
    """[(node, field, rhs)]"""
    out = []
    for n in fn.walk():
        if n['k'] == 'CXXOperatorCallExpr' and n.get('op') == '=' and len(n.get('args', [])) == 2:
            f = field_of(n['args'][0])
            if f:
                out.append((n, f, n['args'][1]))
        elif n['k'] == 'BinaryOperator' and n.get('op') == '=':
            f = field_of(n['ch'][0])
            if f:
                out.append((n, f, n['ch'][1]))
    return out


def begin_of_field(rhs):
    """O if rhs is O->second->begin() (or O->...begin())"""
    r = None
    for y in walk(rhs):
        if y['k'] == 'CXXMemberCallExpr' and method_name(y) in ('begin', 'cbegin'):
            r = y
            break
    if r is None:
        return None
    for x in walk(r.get('obj')):
        f = field_of(x)
        if f:
            return f
    return None


def run(unit, em):
    fns = [f for f in unit.functions if f.body is not None and f.cls and 'Iterator' in f.cls and 'ExplicitTreeAutCoreUtil' in f.cls]
    if not fns:
        return
    inner = {}
    for fn in fns:
        for n, f, rhs in assignments_to_fields(fn):
            o = begin_of_field(rhs)
            if o and o != f:
                inner.setdefault(o, set()).add(f)
    for fn in fns:
        short = fn.q.replace('VATA::ExplicitTreeAutCoreUtil::', '')
        if short in ANCHORS:
            em.anchor(fn, short)
        asg = assignments_to_fields(fn)
        # (1) advancing comparisons
        for n in fn.walk():
            if n['k'] != 'IfStmt':
                continue
            c = strip(n['c'])
            if c is None or c['k'] != 'CXXOperatorCallExpr' or c.get('op') not in ('!=', '==') or len(c.get('args', [])) != 2:
                continue
            adv = None
            for a in c['args']:
                for s in walk(a):
                    if s['k'] == 'CXXOperatorCallExpr' and s.get('op') == '++' and s.get('args') and field_of(s['args'][0]):
                        adv = field_of(s['args'][0])
            other_is_end = any(x['k'] == 'CXXMemberCallExpr' and method_name(x) in ('end', 'cend') for a in c['args'] for x in walk(a))
            if not adv or not other_is_end:
                continue
            branch = n.get('th') if c['op'] == '!=' else n.get('el')
            txt = unit.text(n['c'], 80)
            for I in sorted(inner.get(adv, [])):
                if branch is None:
                    em.unknown(n, txt, 'not-at-end branch not explicit', 'advance:' + I)
                    continue
                assigned = any(f == I and any(x is a for x in walk(branch)) for a, f, _ in asg)
                if assigned:
                    em.ok(n, txt, '%s re-seated on the not-at-end branch' % I, 'advance:' + I)
                else:
                    em.violation(n, txt, 'after %s advances to a new element its inner iterator %s is not re-seated to that element\'s begin(): it keeps pointing into the previous container' % (adv, I), 'advance:' + I)
        # (2) re-seating statements
        for a, f, rhs in asg:
            if not any(y['k'] == 'CXXMemberCallExpr' and method_name(y) in ('begin', 'cbegin') for y in walk(rhs)):
                continue
            for I in sorted(inner.get(f, [])):
                p = a.get('_p')
                while p is not None and p['k'] in ('ExprWithCleanups',):
                    a = p
                    p = p.get('_p')
                later = False
                if p is not None and p['k'] == 'CompoundStmt':
                    seen = False
                    for sib in p['ch']:
                        if sib is a or any(x is a for x in walk(sib)):
                            seen = True
                            continue
                        if seen and any(f2 == I and any(x is a2 for x in walk(sib)) for a2, f2, _ in asg):
                            later = True
                txt = unit.text(a, 80)
                if later:
                    em.ok(a, txt, '%s re-seated afterwards' % I, 'reseat:' + I)
                else:
                    em.violation(a, txt, '%s is moved to a new container but its inner iterator %s is not re-seated in the same block' % (f, I), 'reseat:' + I)
