"""FINCHK — finality obligations are tested where a state is first recorded (C10, C15; C01/C07/C09 below).

FINCHK-WITNESS (GetCandidateTree, both explicit cores): the witness must accept something whenever the
input does, so every state that enters the reachable set must have its finality looked at: either
a closing filter `for s in finalStates_: if reachable.count(s) SetStateFinal(s)` covers all sites, or
each first-visit insert of x is accompanied (same loop body) by `if (IsStateFinal(x)) SetStateFinal(x)`.
A site without either loses words accepted at that state (e.g. the empty word at a final start state).
FINCHK-INCL (upward / forward inclusion: explicit up, generic up functor, NFA antichain): a pair
(state q of A, macro-state of B) is recorded in the exploration antichain only after A's finality of q
has been looked at in the same iteration (the test that, together with the macro-state's accepting
flag, yields the counterexample exit). Wrappers that insert their own parameter are checked at their
call sites; pairs moved over from another antichain's data() were checked when they entered it."""
from vfacts import strip, walk, method_name, root_path, enclosing, is_node, must_pass_through
from .worklist import insert_call_of, key_text

RULE = 'FINCHK'
FLOOR = 5
ANCHORS = ['ExplicitFiniteAutCore::GetCandidateTree', 'ExplicitTreeAutCore::GetCandidateTree']
ANCHORS_ALL = ANCHORS
LOOPS = ('CXXForRangeStmt', 'ForStmt', 'WhileStmt', 'DoStmt')


def closing_filter(unit, fn, V):
    for n in fn.walk(lambdas=False):
        if n['k'] != 'CXXForRangeStmt':
            continue
        r = strip(n.get('range'))
        rp = root_path(r)
        if not rp or not (rp[-1] in ('finalStates_', 'GetFinalStates()')):
            continue
        var = n['var']['d']
        tests_v = False
        sets = False
        for m in walk(n['body'], lambdas=False):
            if m['k'] == 'CXXMemberCallExpr' and method_name(m) in ('count', 'find') and root_path(m.get('obj')) == V:
                tests_v = True
            if m['k'] == 'CXXMemberCallExpr' and method_name(m) == 'SetStateFinal':
                a = strip(m['args'][0])
                if a is not None and a.get('d') == var:
                    sets = True
        if tests_v and sets:
            return n
    return None


INCL_SCOPE = ('ExplicitUpwardInclusion::checkInternal', 'UpwardInclusionFunctor::operator()',
              'ExplicitFAInclusionFunctorCache::Init', 'ExplicitFAInclusionFunctorCache::MakePost')
PAIR_WRAPPERS = ('AddNewPairToAntichain', 'cachePair')


def run_incl(unit, fn, em):
    from .prov import var_table
    params = {p['d'] for p in fn.params}
    vt = var_table(fn)
    # local lambdas that insert one of their own parameters into an antichain: wrappers, checked at their call sites
    lam_wrappers = {}
    for d, v in vt.items():
        if v['kind'] != 'local' or not is_node(v['decl'].get('init')):
            continue
        lam = strip(v['decl']['init'])
        if lam is None or lam['k'] != 'LambdaExpr':
            continue
        lps = [p_['d'] for p_ in lam.get('params', [])]
        for x in walk(lam.get('body')):
            if x['k'] == 'CXXMemberCallExpr' and method_name(x) == 'insert' and len(x.get('args', [])) == 2 and 'Antichain2C' in (x.get('q') or ''):
                k0 = strip(x['args'][0])
                if k0 is not None and k0['k'] == 'DeclRefExpr' and k0.get('d') in lps:
                    lam_wrappers[d] = lps.index(k0['d'])
    for c in fn.calls():
        m = method_name(c)
        args = c.get('args', [])
        is_ac_insert = c['k'] == 'CXXMemberCallExpr' and m == 'insert' and len(args) == 2 and 'Antichain2C' in (c.get('q') or '')
        lam_call = None
        if c['k'] == 'CXXOperatorCallExpr' and c.get('op') == '()' and args:
            f0 = strip(args[0])
            if f0 is not None and f0['k'] == 'DeclRefExpr' and f0.get('d') in lam_wrappers:
                lam_call = lam_wrappers[f0['d']]
                args = args[1:]
        if not (is_ac_insert or m in PAIR_WRAPPERS or lam_call is not None) or not args:
            continue
        k = strip(args[lam_call or 0]) if len(args) > (lam_call or 0) else None
        if k is None:
            continue
        if k['k'] == 'DeclRefExpr' and (k.get('d') in params or (vt.get(k.get('d')) or {}).get('kind') == 'lparam'):
            continue  # wrapper inserting its own parameter
        ktxt = unit.text(k, 0)
        txt = unit.text(c, 80)
        # pair transferred from another antichain's data()?
        lp = enclosing(c, ('CXXForRangeStmt',))
        transferred = False
        cur = c
        while cur is not None:
            cur = enclosing(cur, ('CXXForRangeStmt',))
            if cur is not None and 'data()' in unit.text(cur.get('range'), 0):
                transferred = True
        if transferred:
            em.ok(c, txt, 'pair moved over from an antichain whose entries were checked when they entered it', 'incl')
            continue
        loop = enclosing(c, LOOPS)
        scope = loop['body'] if loop is not None and is_node(loop.get('body')) else fn.body
        (_, cl, cc) = unit.loc(c)
        found = None
        for x in walk(scope, lambdas=False):
            if x['k'] not in ('CXXMemberCallExpr',) or not x.get('args'):
                continue
            (_, xl, xc) = unit.loc(x)
            if (xl, xc) >= (cl, cc):
                continue
            mm = method_name(x)
            obj_txt = unit.text(x.get('obj'), 0)
            if unit.text(strip(x['args'][0]), 0) != ktxt:
                continue
            if mm == 'IsStateFinal' and 'bigger' not in obj_txt.lower():
                found = x
            elif mm in ('count', 'find') and 'inal' in obj_txt and 'bigger' not in obj_txt.lower():
                found = x
        if found is not None:
            em.ok(c, txt, 'finality of %s in the smaller automaton is looked at first (%s)' % (ktxt, unit.text(found, 50)), 'incl')
        else:
            em.violation(c, txt, 'the pair for state %s is recorded without the smaller automaton\'s finality of %s having been looked at in this iteration: an accepting state of A paired with a non-accepting macro-state of B is not reported as a counterexample' % (ktxt, ktxt), 'incl')


def run(unit, em):
    for fn in unit.functions:
        short = fn.q.replace('VATA::', '')
        if fn.body is not None and short in INCL_SCOPE:
            em.anchor(fn, short)
            run_incl(unit, fn, em)
        if short not in ANCHORS or fn.body is None:
            continue
        em.anchor(fn, short)
        sites = []
        for n in fn.walk(lambdas=False):
            if n['k'] != 'IfStmt':
                continue
            c = strip(n['c'])
            if c is not None and c['k'] == 'UnaryOperator' and c.get('op') == '!':
                continue
            r = insert_call_of(fn, c)
            if r:
                sites.append((n, r[0]))
        if not sites:
            em.unknown(fn, short, 'no first-visit insert found', 'witness')
            continue
        Vs = {root_path(ins.get('obj')) for _, ins in sites}
        for V in Vs:
            filt = closing_filter(unit, fn, V)
            for n, ins in sites:
                if root_path(ins.get('obj')) != V:
                    continue
                key = key_text(unit, ins)
                txt = unit.text(ins, 80)
                if filt is not None:
                    # the filter must lie on every path from the insert to a return: an exit that skips it returns
                    # a witness whose reachable accepting states were never marked
                    cfg = fn.cfg()
                    pos = cfg.locate(ins) if cfg else None
                    inside = {id(x) for x in walk(filt)}
                    if cfg is None or pos is None:
                        em.unknown(n, txt, 'CFG position of the insert not found', 'witness')
                        continue
                    okp, w = must_pass_through(cfg, pos, lambda x: x['k'] == 'ReturnStmt', lambda x: id(x) in inside)
                    if okp:
                        em.ok(n, txt, 'finality of every reachable state is taken from the closing filter over the final states, which lies on every path to a return', 'witness')
                    else:
                        em.violation(w if w is not None else n, 'return reached from ' + txt, 'this return is reachable from the point where %s entered the reachable set without passing the closing filter over the final states: accepting states reached so far are never marked and the witness can be empty for a non-empty language' % key, 'witness')
                    continue
                loop = enclosing(n, LOOPS)
                scope = loop['body'] if loop is not None and is_node(loop.get('body')) else fn.body
                good = False
                for m in walk(scope, lambdas=False):
                    if m['k'] != 'IfStmt':
                        continue
                    cc = strip(m['c'])
                    if cc is not None and cc['k'] == 'CXXMemberCallExpr' and method_name(cc) == 'IsStateFinal' and cc.get('args') and unit.text(strip(cc['args'][0]), 0) == key:
                        for x in walk(m.get('th'), lambdas=False):
                            if x['k'] == 'CXXMemberCallExpr' and method_name(x) == 'SetStateFinal' and x.get('args') and unit.text(strip(x['args'][0]), 0) == key:
                                good = True
                if good:
                    em.ok(n, txt, 'followed by if (IsStateFinal(%s)) SetStateFinal(%s)' % (key, key), 'witness')
                else:
                    em.violation(n, txt, '%s enters the reachable set without its finality being tested and no closing filter over the final states exists: a word accepted at %s (e.g. the empty word at a final start state) is lost from the witness' % (key, key), 'witness')
