"""QUEUEENDS — the element handed out and the element removed are the same end of the queue
(C07, C01, C09).

Instance: every function that both reads an end of a sequence (`front()` / `back()` / `top()`) and pops
an end of the *same* sequence (`pop_front()` / `pop_back()` / `pop()`). Obligation: front pairs with
pop_front, back with pop_back. Reading `back()` and popping the front hands the newest element out
twice and silently drops the oldest pending one (a pair that is never explored)."""
from vfacts import strip, walk, method_name

RULE = 'QUEUEENDS'
FLOOR = 6
PAIR = {'front': 'pop_front', 'back': 'pop_back', 'top': 'pop'}


def run(unit, em):
    for fn in unit.functions:
        f = fn.file
        if fn.body is None or not ('/src/' in f or '/include/' in f):
            continue
        reads, pops = {}, {}
        for c in fn.calls():
            if c['k'] != 'CXXMemberCallExpr':
                continue
            m = method_name(c)
            o = unit.text(strip(c.get('obj')), 0)
            if m in PAIR:
                reads.setdefault(o, []).append((m, c))
            elif m in PAIR.values():
                pops.setdefault(o, []).append((m, c))
        for o in reads:
            if o not in pops:
                continue
            rm = {m for m, _ in reads[o]}
            pm = {m for m, _ in pops[o]}
            # std::queue: front()+pop(); std::stack/priority_queue: top()+pop(); deque/list: matching ends
            okpairs = {(r, PAIR[r]) for r in rm} | ({('front', 'pop')} if 'front' in rm else set()) | ({('back', 'pop_back')} if 'back' in rm else set())
            c0 = reads[o][0][1]
            txt = '%s: %s / %s' % (o[:50], '+'.join(sorted(rm)), '+'.join(sorted(pm)))
            bad = [(r, p) for r in rm for p in pm if (r, p) not in okpairs and not (r == 'back' and 'front' in rm) and not (r == 'front' and 'back' in rm)]
            if bad:
                r, p = bad[0]
                em.violation(c0, txt, '%s() is read but %s() removes the other end of %s: one pending element is handed out twice and another is dropped unprocessed' % (r, p, o[:40]))
            else:
                em.ok(c0, txt, 'the end that is read is the end that is popped')
