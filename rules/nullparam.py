"""NULLPARAM — an optional pointer parameter is never dereferenced while it can still be null (C20; C02 C08 C10).

The operations take optional out-maps (`StateToStateMap* pTranslMap = nullptr`, product maps, ...).
Instance: every dereference (`*p`, `p->m`) of a pointer parameter p that is declared with a null default
argument or is compared with null somewhere in the function (either states the belief "may be null").
Obligation: assuming p is null on entry, every CFG path from the entry to the dereference — following only
the branch edges consistent with p == nullptr while p is unchanged — passes an assignment of p
(`if (!p) p = &local;`), or the dereference is controlled by a non-null test of p."""
from vfacts import strip, walk, is_node, must_pass_through, known_facts

RULE = 'NULLPARAM'
FLOOR = 17
ANCHORS = []   # optional pointers are re-bound to references by refactorings (refactor/A-4, F-3); health is judged by the floor


def is_null(e):
    e = strip(e)
    return e is not None and (e['k'] in ('CXXNullPtrLiteralExpr', 'GNUNullExpr') or (e['k'] == 'IntegerLiteral' and e.get('v') in (0, '0')))


def null_test(c, d):
    """truth value of condition c when the pointer d is null, or None"""
    c = strip(c)
    if c is None:
        return None
    if c['k'] == 'DeclRefExpr' and c.get('d') == d:
        return False
    if c['k'] == 'UnaryOperator' and c.get('op') == '!':
        r = null_test(c['ch'][0], d)
        return None if r is None else (not r)
    if c['k'] == 'BinaryOperator' and c.get('op') in ('==', '!='):
        a, b = strip(c['ch'][0]), strip(c['ch'][1])
        for x, y in ((a, b), (b, a)):
            if x is not None and x['k'] == 'DeclRefExpr' and x.get('d') == d and is_null(y):
                return c['op'] == '=='
    return None


def run(unit, em):
    for fn in unit.functions:
        if fn.body is None:
            continue
        ptrs = {p['d']: p for p in fn.params if unit.ty(p).rstrip().endswith('*')}
        if not ptrs:
            continue
        optional = {d for d, p in ptrs.items() if p.get('defnull')}
        for n in fn.walk():
            for d in ptrs:
                if d not in optional and n['k'] in ('BinaryOperator', 'UnaryOperator', 'IfStmt', 'WhileStmt', 'ConditionalOperator'):
                    c = n if n['k'] in ('BinaryOperator', 'UnaryOperator') else (n.get('c') if n['k'] != 'ConditionalOperator' else n['ch'][0])
                    if is_node(c) and null_test(c, d) is not None:
                        optional.add(d)
        if not optional:
            continue
        short = fn.q.replace('VATA::', '')
        cfg = None
        anchored = False
        for n in fn.walk():
            d = None
            if n['k'] == 'UnaryOperator' and n.get('op') == '*':
                x = strip(n['ch'][0])
                if x is not None and x['k'] == 'DeclRefExpr' and x.get('d') in optional:
                    d = x['d']
            elif n['k'] == 'MemberExpr' and n.get('arrow'):
                b = n.get('ch') or [n.get('obj')]
                x = strip(b[0]) if b and is_node(b[0]) else None
                if x is not None and x['k'] == 'DeclRefExpr' and x.get('d') in optional:
                    d = x['d']
            elif n['k'] == 'CXXMemberCallExpr' and is_node(n.get('obj')):
                x = strip(n['obj'])
                if x is not None and x['k'] == 'DeclRefExpr' and x.get('d') in optional and unit.ty(x).rstrip().endswith('*'):
                    d = x['d']
            if d is None:
                continue
            if short in ANCHORS and not anchored:
                em.anchor(fn, short)
                anchored = True
            name = ptrs[d].get('n') or '?'
            txt = unit.text(n, 50)
            facts, _ = known_facts(n)
            guarded = any(null_test(atom, d) is not None and null_test(atom, d) != pol for pol, atom in facts if pol in (True, False))
            if guarded:
                em.ok(n, txt, 'controlled by a non-null test of %s' % name, 'deref')
                continue
            if cfg is None:
                cfg = fn.cfg()
            pos = cfg.locate(n) if cfg else None
            if cfg is None or pos is None:
                em.unknown(n, txt, 'CFG position not found', 'deref')
                continue

            def marker(m, d=d):
                return m['k'] == 'BinaryOperator' and m.get('op') == '=' and (strip(m['ch'][0]) or {}).get('d') == d and not is_null(m['ch'][1])
            tid = {id(x) for x in walk(n)}
            ok, w = must_pass_through(cfg, (cfg.entry, 0), lambda m: id(m) in tid, marker, start_after=False,
                                      edge_filter=lambda c, d=d: null_test(c, d))
            if ok:
                em.ok(n, txt, '%s is given a local default on every path on which it was null' % name, 'deref')
            else:
                em.violation(n, txt, 'the optional pointer `%s` can still be null here: a path from the entry reaches this dereference without a non-null test and without `%s = &<local>`' % (name, name), 'deref')
