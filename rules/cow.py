"""COW — copy-on-write discipline of the explicit tree and finite automata (C11, C02, C03, C12, C14, C15, C10).

Instance: every mutating member call / element assignment whose receiver is reached through a
shared_ptr to one of the shared rule stores (state->cluster map, cluster, tuple set), and the
bodies of the unique*() functions themselves.
Obligation: the dereferenced shared_ptr is Unique (result of unique*()), Fresh (built from `new` in
this function / member of a freshly constructed local automaton) or guarded by .unique(); the pointee
of a hash-consed TuplePtr is never mutated; every unique*() clones when shared before returning."""
from vfacts import strip, walk, method_name, call_obj, known_facts, is_node
from .prov import chain, prov, shared_pointee, var_table, assignments, UNIQUE_FNS

RULE = 'COW'
FLOOR = 20
ANCHORS = ['ExplicitTreeAutCore::uniqueClusterMap', 'ExplicitTreeAutCoreUtil::StateToTransitionClusterMap::uniqueCluster',
           'ExplicitTreeAutCoreUtil::TransitionCluster::uniqueTuplePtrSet', 'ExplicitFiniteAutCore::uniqueClusterMap',
           'ExplicitFiniteAutCore::StateToTransitionClusterMap::uniqueCluster']
ASSUMPTIONS = ['PROV is intra-procedural: a shared_ptr received as a parameter or read from a member/element is Shared']

MUT = {'insert', 'emplace', 'emplace_hint', 'emplace_back', 'erase', 'clear', 'swap', 'operator[]', 'operator=',
       'push_back', 'pop_back', 'resize', 'merge', 'try_emplace', 'assign', 'reset', 'reserve', 'rehash',
       'uniqueCluster', 'uniqueTuplePtrSet', 'uniqueRStateSet'}

PROTECTED = ('ExplicitTreeAutCoreUtil::StateToTransitionClusterMap', 'ExplicitTreeAutCoreUtil::TransitionCluster',
             'ExplicitFiniteAutCore::StateToTransitionClusterMap', 'ExplicitFiniteAutCore::TransitionCluster')


def pointee_class(p):
    if p is None:
        return None
    p = p.replace('const ', '').strip()
    for x in PROTECTED:
        if p.endswith(x):
            return x.split('::', 1)[-1] if False else x
    if p.startswith('std::set<std::shared_ptr<std::vector<unsigned long'):
        return 'TuplePtrSet'
    if p.startswith('std::vector<unsigned long'):
        return 'StateTuple'
    return None


def this_class(fn):
    c = fn.cls or ''
    for x in PROTECTED:
        if c.endswith(x):
            return x
    return None


def used_as_write(n):
    """Is the lvalue produced by n written (assigned, ++/--, compound-assigned, address taken, bound to a
    non-const reference, receiver of a non-const member call)?"""
    cur = n
    while True:
        p = cur.get('_p')
        if p is None:
            return False
        k = p['k']
        role = str(cur.get('_role', ''))
        if k in ('ParenExpr',):
            cur = p
            continue
        if k == 'ImplicitCastExpr':
            if p.get('ck') == 'LValueToRValue':
                return False
            cur = p
            continue
        if k in ('BinaryOperator', 'CompoundAssignOperator'):
            op = p.get('op', '')
            return p['ch'][0] is cur and op.endswith('=') and op not in ('==', '!=', '<=', '>=')
        if k == 'UnaryOperator':
            return p.get('op') in ('++', '--', '&')
        if k in ('CallExpr', 'CXXMemberCallExpr', 'CXXOperatorCallExpr', 'CXXConstructExpr'):
            if role == 'obj':
                return not p.get('const')
            args = p.get('args', [])
            idx = next((i for i, a in enumerate(args) if a is cur), None)
            if idx is None:
                return False
            if k == 'CXXOperatorCallExpr' and p.get('memberop'):
                if idx == 0:
                    return not p.get('const')
                idx -= 1
            pk = p.get('pk', '')
            if p.get('q') in ('std::make_pair', 'std::make_tuple', 'std::forward', 'std::min', 'std::max'):
                return False
            return idx < len(pk) and pk[idx] in 'rp'
        if k == 'DeclStmt':
            for d in p.get('decls', []):
                if d.get('init') is cur:
                    return d.get('ref') == 'r'
            return False
        if k == 'MemberExpr':
            cur = p
            continue
        return False


def mutation_sites(unit, fn):
    """yield (node, receiver expr, description)"""
    for n in fn.walk():
        k = n['k']
        if k == 'CXXMemberCallExpr':
            m = method_name(n)
            if m in MUT and not n.get('const'):
                yield n, n.get('obj'), m
        elif k == 'CXXOperatorCallExpr' and n.get('memberop') and not n.get('const'):
            op = n.get('op')
            if op in ('[]', '=', '+=') and n.get('args'):
                if op == '[]':
                    rt = unit.ty(strip(n['args'][0])).replace('const ', '')
                    if rt.startswith(('std::vector<', 'std::deque<', 'std::array<', 'std::basic_string<')) and not used_as_write(n):
                        continue  # element read through the non-const overload
                yield n, n['args'][0], 'operator' + op
        elif k == 'BinaryOperator' and n.get('op') == '=':
            yield n, n['ch'][0], 'assignment'


def unique_guarded(unit, node, sp):
    """is the mutation guarded by `<sp>.unique()` being true?"""
    target = unit.text(strip(sp), 0)
    facts, _ = known_facts(node)
    for pol, atom in facts:
        a = strip(atom)
        if a is not None and a['k'] == 'CXXMemberCallExpr' and method_name(a) == 'unique' and pol is True:
            if unit.text(strip(a.get('obj')), 0) == target:
                return True
    return False


def check_unique_def(unit, fn, em):
    """the defining functions: clone-when-shared branch present and returns the re-seated pointer"""
    name = fn.q.split('::')[-1]
    found = None
    for n in fn.walk():
        if n['k'] != 'IfStmt':
            continue
        cond = strip(n['c'])
        # accept  !P.unique()   (possibly as the else-if of a null test)
        if cond is not None and cond['k'] == 'UnaryOperator' and cond.get('op') == '!':
            inner = strip(cond['ch'][0])
            if inner is not None and inner['k'] == 'CXXMemberCallExpr' and method_name(inner) == 'unique':
                ptr = unit.text(strip(inner.get('obj')), 0)
                # then-branch must re-seat P from new T(*P)
                ok = False
                for m in walk(n.get('th')):
                    lhs = rhs = None
                    if m['k'] == 'CXXOperatorCallExpr' and m.get('op') == '=' and len(m.get('args', [])) == 2:
                        lhs, rhs = m['args']
                    if lhs is None or unit.text(strip(lhs), 0) != ptr:
                        continue
                    for x in walk(rhs):
                        if x['k'] == 'CXXNewExpr':
                            for c in walk(x):
                                if c['k'] == 'CXXConstructExpr' and c.get('ctor') == 'copy':
                                    for y in walk(c):
                                        if y['k'] == 'CXXOperatorCallExpr' and y.get('op') == '*' and unit.text(strip(y['args'][0]), 0) == ptr:
                                            ok = True
                found = (n, ok, ptr)
                if ok:
                    break
    if found is None:
        em.violation(fn, name + ': clone-when-shared', 'no `if (!p.unique())` branch: a store shared with a copy would be modified in place', 'uniquedef')
        return
    n, ok, ptr = found
    if not ok:
        em.violation(n, name + ': clone-when-shared', 'the shared branch does not re-seat %s from a copy `new T(*%s)`' % (ptr, ptr), 'uniquedef')
        return
    # every return returns the (re-seated) pointer
    for r in fn.walk():
        if r['k'] == 'ReturnStmt':
            rv = (r.get('ch') or [None])[0]
            if rv is None or unit.text(strip(rv), 0) != ptr:
                em.violation(r, name + ': clone-when-shared', 'returns %s, not the pointer %s that was made unique' % (unit.text(rv, 40) if rv else 'nothing', ptr), 'uniquedef')
                return
    em.ok(n, name + ': clone-when-shared', 'if (!%s.unique()) %s = new T(*%s)' % (ptr, ptr, ptr), 'uniquedef')


def run(unit, em):
    for fn in unit.functions:
        f = fn.file
        if '/explicit_' not in f and '/vata/explicit' not in f and 'operations.hh' not in f and '/cli/' not in f:
            continue
        if fn.body is None:
            continue
        short = fn.q.replace('VATA::', '')
        for a in ANCHORS:
            if short == a:
                em.anchor(fn, a)
        if fn.q.split('::')[-1] in UNIQUE_FNS:
            check_unique_def(unit, fn, em)
        tc = this_class(fn)
        for node, recv, what in mutation_sites(unit, fn):
            r = strip(recv)
            if r is None:
                continue
            ch = chain(unit, fn, recv)
            prot = [(sp, pointee_class(shared_pointee(unit.ty(strip(sp))) or shared_pointee(unit.ty(sp)))) for sp in ch]
            prot = [(sp, c) for sp, c in prot if c]
            construct = unit.text(node, 110)
            if not prot:
                # receiver is *this inside a method of a protected class (the unique* definitions)
                if tc and what != 'assignment':
                    root = r
                    while root is not None and root['k'] in ('MemberExpr',) and root.get('ch'):
                        root = strip(root['ch'][0])
                    if r['k'] == 'CXXThisExpr':
                        em.ok(node, construct, 'receiver is *this inside %s (call sites are checked)' % tc, 'this')
                continue
            sp, cls = prot[0]
            if what == 'assignment' or what == 'operator=':
                # re-seating a local/field handle is not a pointee mutation: require that the LHS storage
                # itself lies behind the protected pointer (chain non-empty already) — e.g. it->second = x
                pass
            if cls == 'StateTuple':
                p = prov(unit, fn, sp)
                if p in ('Fresh',):
                    em.ok(node, construct, 'tuple under construction (%s)' % p, 'tuple')
                else:
                    em.violation(node, construct, 'mutates the pointee of a hash-consed TuplePtr (%s): tuples are shared process-wide and compared by address' % p, 'tuple')
                continue
            p = prov(unit, fn, sp)
            sptxt = unit.text(strip(sp), 50)
            if p in ('Unique', 'Fresh', 'Null') or p.startswith('FreshLocal'):
                em.ok(node, construct, '%s via %s: %s' % (cls, sptxt, p), 'mutation')
            elif p.startswith('Shared'):
                if unique_guarded(unit, node, sp):
                    em.ok(node, construct, '%s via %s: guarded by .unique()' % (cls, sptxt), 'mutation')
                else:
                    em.violation(node, construct, '%s modified through %s which may be shared with a copy (%s); obtain it through unique*() first' % (cls, sptxt, p), 'mutation')
            else:
                em.unknown(node, construct, '%s via %s: %s' % (cls, sptxt, p), 'mutation')
