"""PRODFLAG / PRODSIDE / SYMCOND — product constructions keep the two operands apart and treat them
alike (C02, C08, C10).

Scope: every Intersection / IntersectionBU of the five cores and the ApplyOperation of their local
intersection functors. Each expression gets a *side*: {L} if its value derives only from the first
operand, {R} only from the second (through locals, range-for variables, out-parameters, swaps), and,
structurally, `.first` / `.second` of a (state,state) product pair are L / R.
  PRODSIDE  every product pair make_pair(a, b) has side(a) = {L}, side(b) = {R}; a pair component
            used as a key into an operand (IsStateFinal, GetMtbdd, genericLookup, index .at/.count)
            is looked up in its own operand.
  PRODFLAG  SetStateFinal on the result is inside loops over lhs finals x rhs finals, or guarded by
            lhs.IsStateFinal(l) && rhs.IsStateFinal(r) (both, conjunctively); likewise start states.
  SYMCOND   in every &&/|| chain the tests that look at one operand only are mirrored by the same
            test on the other operand (a one-sided self-loop/finality/equality test in a product
            construction is the defect)."""
import re
from vfacts import strip, walk, method_name, root_path, known_facts, is_node, children
from .prov import var_table, local_sources

RULE = 'PRODUCT'
FLOOR = 25
CORES = ('ExplicitTreeAutCore', 'ExplicitFiniteAutCore', 'BDDBUTreeAutCore', 'BDDTDTreeAutCore')
ANCHORS = ['%s::Intersection' % c for c in CORES] + ['ExplicitTreeAutCore::IntersectionBU']
PAIR_T = 'std::pair<unsigned long, unsigned long>'


def operands(fn):
    """decl ids of the (L, R) operand parameters of a product function, or None"""
    name = fn.q.split('::')[-1]
    if name in ('Intersection', 'IntersectionBU') and len(fn.params) >= 2:
        return fn.params[0]['d'], fn.params[1]['d']
    if name == 'ApplyOperation' and 'Intersection' in fn.q and len(fn.params) == 2:
        return fn.params[0]['d'], fn.params[1]['d']
    return None


class Sides:
    def __init__(self, unit, fn, ops):
        self.unit, self.fn, self.ops = unit, fn, ops
        self.memo = {}

    def pair_component(self, e):
        """'L'/'R' if e is .first/.second of a product (state,state) pair"""
        if e['k'] == 'MemberExpr' and e['n'] in ('first', 'second') and e.get('ch'):
            bt = self.unit.ty(strip(e['ch'][0]) or e['ch'][0]).replace('const ', '').strip()
            if bt == PAIR_T:
                return 'L' if e['n'] == 'first' else 'R'
        return None

    def var(self, d, stack):
        if d in self.memo:
            return self.memo[d]
        if d in stack:
            return frozenset()
        if d == self.ops[0]:
            return frozenset('L')
        if d == self.ops[1]:
            return frozenset('R')
        v = var_table(self.fn).get(d)
        if v is None or v['kind'] in ('param', 'lparam'):
            return frozenset()
        out = set()
        for s in local_sources(self.fn, d, outparams=True):
            out |= self.expr(s, stack | {d})
        r = frozenset(out)
        if not stack:
            self.memo[d] = r
        return r

    def mention(self, e):
        """sides of everything an expression mentions (keys of lookups included)"""
        out = set()
        for x in walk(e, lambdas=False):
            pc = self.pair_component(x)
            if pc:
                out.add(pc)
            elif x['k'] == 'DeclRefExpr':
                out |= self.var(x.get('d'), frozenset())
        return frozenset(out)

    def expr(self, e, stack=frozenset()):
        e = strip(e)
        if e is None:
            return frozenset()
        pc = self.pair_component(e)
        if pc:
            return frozenset(pc)
        if e['k'] == 'DeclRefExpr':
            return self.var(e.get('d'), stack)
        if e['k'] == 'LambdaExpr':
            return frozenset()
        # a looked-up value derives from the container, not from the key
        if e['k'] == 'CXXMemberCallExpr' and method_name(e) in ('find', 'at', 'count', 'lower_bound', 'equal_range'):
            return self.expr(e.get('obj'), stack)
        if e['k'] == 'CXXOperatorCallExpr' and e.get('op') == '[]' and e.get('args'):
            return self.expr(e['args'][0], stack)
        if e['k'] == 'CallExpr' and (e.get('q') or '').endswith('genericLookup') and e.get('args'):
            return self.expr(e['args'][0], stack)
        out = set()
        for _, c in children(e):
            out |= self.expr(c, stack)
        return frozenset(out)


def shape(unit, e):
    """side-independent shape of an atomic test: operators and method names only"""
    e = strip(e)
    if e is None:
        return ''
    k = e['k']
    if k == 'UnaryOperator':
        return e.get('op', '') + shape(unit, e['ch'][0])
    if k == 'BinaryOperator':
        return '(%s%s%s)' % (shape(unit, e['ch'][0]), e.get('op'), shape(unit, e['ch'][1]))
    if k == 'CXXMemberCallExpr':
        return '%s.%s()' % (shape(unit, e.get('obj')), method_name(e))
    if k == 'CXXOperatorCallExpr':
        return 'op%s(%s)' % (e.get('op'), ','.join(shape(unit, a) for a in e.get('args', [])))
    if k == 'MemberExpr':
        return '.' + ('c' if e['n'] in ('first', 'second') else e['n'])
    if k == 'CallExpr':
        return (e.get('q') or 'call') + '()'
    return '_'


def chain_atoms(e, op):
    e2 = strip(e)
    if e2 is not None and e2['k'] == 'BinaryOperator' and e2.get('op') == op:
        return chain_atoms(e2['ch'][0], op) + chain_atoms(e2['ch'][1], op)
    return [e]


def run(unit, em):
    for fn in unit.functions:
        if fn.body is None:
            continue
        ops = operands(fn)
        if ops is None:
            continue
        short = fn.q.replace('VATA::', '')
        if short in ANCHORS:
            em.anchor(fn, short)
        S = Sides(unit, fn, ops)
        opname = {ops[0]: 'L', ops[1]: 'R'}
        # ---- PRODSIDE: product pairs
        for n in fn.walk():
            if n['k'] == 'CallExpr' and n.get('q') == 'std::make_pair' and unit.ty(n).replace('const ', '') == PAIR_T and len(n.get('args', [])) == 2:
                a, b = S.expr(n['args'][0]), S.expr(n['args'][1])
                txt = unit.text(n, 90)
                if a == {'L'} and b == {'R'}:
                    em.ok(n, txt, 'components come from the first / second operand', 'prodside')
                    # POSAGREE: children of two rules are paired position by position
                    def index_of(e):
                        e = strip(e)
                        if e is not None and e['k'] == 'CXXOperatorCallExpr' and e.get('op') == '[]' and len(e.get('args', [])) == 2:
                            return unit.text(strip(e['args'][1]), 0)
                        if e is not None and e['k'] == 'CXXMemberCallExpr' and method_name(e) == 'at' and e.get('args'):
                            return unit.text(strip(e['args'][0]), 0)
                        return None
                    ia, ib = index_of(n['args'][0]), index_of(n['args'][1])
                    if ia is not None and ib is not None:
                        if ia == ib:
                            em.ok(n, txt, 'both children taken at position %s' % ia, 'posagree')
                        else:
                            em.violation(n, txt, 'children of the two rules are paired at different positions (%s vs %s): the product rule does not correspond to a pair of runs' % (ia, ib), 'posagree')
                elif not a or not b:
                    em.unknown(n, txt, 'operand side of a component not resolved (%s, %s)' % (set(a), set(b)), 'prodside')
                else:
                    em.violation(n, txt, 'a product pair must be (state of the first operand, state of the second operand); the components derive from %s and %s' % (sorted(a), sorted(b)), 'prodside')
        # ---- PRODSIDE: pair component used as a key into an operand
        for c in fn.calls():
            if c['k'] not in ('CXXMemberCallExpr', 'CallExpr'):
                continue
            m = method_name(c)
            if m not in ('IsStateFinal', 'IsStateStart', 'GetMtbdd', 'genericLookup', 'at', 'count', 'find', 'GetStartSymbols'):
                continue
            args = c.get('args', [])
            if c['k'] == 'CallExpr':
                if len(args) != 2:
                    continue
                cont, key = args[0], args[1]
            else:
                if len(args) != 1:
                    continue
                cont, key = c.get('obj'), args[0]
            ks = strip(key)
            if ks is None:
                continue
            comp = S.pair_component(ks)
            if comp is None and ks['k'] == 'DeclRefExpr':
                srcs = local_sources(fn, ks.get('d'))
                comps = {S.pair_component(strip(s)) for s in srcs if strip(s) is not None}
                if len(srcs) >= 1 and len(comps) == 1 and None not in comps:
                    comp = comps.pop()
            if comp is None:
                continue
            cs = S.expr(cont)
            txt = unit.text(c, 90)
            if cs == {comp}:
                em.ok(c, txt, 'component %s looked up in operand %s' % (comp, comp), 'prodside-key')
            elif len(cs) == 1:
                em.violation(c, txt, 'the %s component of a product state is used as a key into the %s operand' % ('first' if comp == 'L' else 'second', 'second' if comp == 'L' else 'first'), 'prodside-key')
        # ---- PRODFLAG
        for c in fn.calls():
            if c['k'] != 'CXXMemberCallExpr' or method_name(c) not in ('SetStateFinal', 'SetStateStart', 'SetExistingStateStart'):
                continue
            o = strip(c.get('obj'))
            if o is None or o['k'] != 'DeclRefExpr' or o.get('dk') != 'local':
                continue
            kind = 'final' if method_name(c) == 'SetStateFinal' else 'start'
            fields = ('finalStates_', 'GetFinalStates()') if kind == 'final' else ('startStates_', 'GetStartStates()')
            test = 'IsStateFinal' if kind == 'final' else 'IsStateStart'
            facts, loops = known_facts(c)
            loop_sides = set()
            for lp in loops:
                rp = root_path(lp.get('range'))
                if rp and rp[-1] in fields:
                    loop_sides |= set(S.expr(lp.get('range')))
            guard_sides = set()
            for pol, atom in facts:
                a = strip(atom)
                if pol is True and a is not None and a['k'] == 'CXXMemberCallExpr' and method_name(a) == test:
                    osd = S.expr(a.get('obj'))
                    ksd = S.expr(a['args'][0]) if a.get('args') else frozenset()
                    if len(osd) == 1 and (not ksd or ksd == osd):
                        guard_sides |= set(osd)
            txt = unit.text(c, 80)
            if loop_sides == {'L', 'R'}:
                em.ok(c, txt, 'inside loops over the %s states of both operands' % kind, 'prodflag')
            elif guard_sides == {'L', 'R'}:
                em.ok(c, txt, 'guarded by %s on both operands' % test, 'prodflag')
            else:
                have = sorted(loop_sides | guard_sides)
                em.violation(c, txt, 'a product state may be marked %s only with evidence from BOTH components (loops over both %s sets, or lhs.%s(l) && rhs.%s(r)); evidence found for: %s' % (kind, kind, test, test, have or 'none'), 'prodflag')
        # ---- POSTEST: a one-sided positional test stands alone only inside the search loop over its index
        for n in fn.walk():
            if n['k'] != 'IfStmt' or not is_node(n.get('c')):
                continue
            a = strip(n['c'])
            while a is not None and a['k'] == 'UnaryOperator' and a.get('op') == '!':
                a = strip(a['ch'][0])
            if a is None or a['k'] not in ('BinaryOperator', 'CXXOperatorCallExpr') or a.get('op') not in ('==', '!='):
                continue
            sd = S.mention(a)
            if sd not in ({'L'}, {'R'}):
                continue
            idx = None
            for x in walk(a):
                if x['k'] == 'CXXOperatorCallExpr' and x.get('op') == '[]' and len(x.get('args', [])) == 2:
                    i_ = strip(x['args'][1])
                    if i_ is not None and i_['k'] == 'DeclRefExpr':
                        idx = i_
            if idx is None:
                continue
            # both operands of the comparison must be one-sided values (tuple element vs. pair component)
            txt = unit.text(n['c'], 90)
            lp = n.get('_p')
            while lp is not None and lp['k'] not in ('ForStmt', 'WhileStmt', 'DoStmt', 'CXXForRangeStmt', 'LambdaExpr'):
                lp = lp.get('_p')
            induct = lp is not None and lp['k'] == 'ForStmt' and is_node(lp.get('inc')) and any(
                x['k'] == 'DeclRefExpr' and x.get('d') == idx.get('d') for x in walk(lp['inc']))
            if induct:
                em.ok(n, txt, 'one-sided test inside the search loop over its own index (existence pre-filter)', 'postest')
            else:
                em.violation(n, txt, 'this test looks at operand %s only, at a fixed position `%s` that was not found by testing both operands together: a pair (l, r) has to be matched at one position with `lhs[i] == l && rhs[i] == r` inside the loop over i (l may occur at several positions and be paired with r only at a later one)' % (
                    'lhs' if sd == {'L'} else 'rhs', idx.get('n')), 'postest')
        # ---- SYMCOND
        seen = set()
        for n in fn.walk():
            if n['k'] != 'BinaryOperator' or n.get('op') not in ('&&', '||'):
                continue
            p = n.get('_p')
            while p is not None and p['k'] in ('ParenExpr', 'ImplicitCastExpr'):
                p = p.get('_p')
            if p is not None and p['k'] == 'BinaryOperator' and p.get('op') == n['op']:
                continue  # not the top of the chain
            atoms = chain_atoms(n, n['op'])
            L, R = [], []
            for a in atoms:
                sd = S.mention(a)
                if sd == {'L'}:
                    L.append(a)
                elif sd == {'R'}:
                    R.append(a)
            if not L and not R:
                continue
            txt = unit.text(n, 110)
            ls = sorted(shape(unit, a) for a in L)
            rs = sorted(shape(unit, a) for a in R)
            if ls == rs:
                em.ok(n, txt, '%d one-sided test(s) mirrored on the other operand' % len(L), 'symcond')
            else:
                lone = [a for a in L if shape(unit, a) not in rs] + [a for a in R if shape(unit, a) not in ls]
                em.violation(n, txt, 'the test `%s` looks at one operand only and has no counterpart for the other operand in this condition' % unit.text(lone[0], 70), 'symcond')
