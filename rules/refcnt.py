"""REFCNT — MTBDD node ownership (C18).

Node pointers are *borrowed* (returned by spawn*, recDescend, Get*FromInternal, getRoot, project/
renameNode) or *owned* (after IncrementRefCnt(n) in this function, or returned by constructMTBDD).
Obligations, each an instance per instantiation site:
  R1  the private constructor OndriksMTBDD(root, default) receives an owned root at every call site
  R2  the copy constructor and the value constructor increment the new root on every path
  R3  operator= tests self-assignment before releasing, releases the old root before re-seating, and
      increments the new root on every path to its return
  R4  the destructor releases
  R5  spawnInternal increments both children on its creation path and enters the node in the unique
      table; spawnLeaf enters the leaf
  R6  disposeOfInternalNode erases the table entry, releases low and high exactly once each, and only
      then deletes the node; disposeOfLeafNode erases before deleting
  R7  recursivelyDeleteMTBDDNode disposes only in the branch where the decrement returned 0
  R8  Decrement*RefCnt / Delete*Node / disposeOf* are called only by the release functions
      (constructMTBDD may dispose of its unused, unreferenced sink)."""
from vfacts import strip, walk, method_name, must_pass_through, known_facts, is_node
from .prov import var_table, local_sources

RULE = 'REFCNT'
FLOOR = 15
ANCHORS = ['OndriksMTBDD::spawnInternal', 'OndriksMTBDD::recursivelyDeleteMTBDDNode', 'OndriksMTBDD::operator=']
RELEASERS = {'recursivelyDeleteMTBDDNode', 'disposeOfLeafNode', 'disposeOfInternalNode'}
RESTRICTED = {'DecrementLeafRefCnt', 'DecrementInternalRefCnt', 'DeleteLeafNode', 'DeleteInternalNode', 'disposeOfLeafNode', 'disposeOfInternalNode'}


def cname(c):
    return (c.get('q') or '').rsplit('::', 1)[-1] if c['k'] in ('CallExpr', 'CXXMemberCallExpr') else None


def is_incr_of(n, pred):
    return n['k'] == 'CallExpr' and cname(n) == 'IncrementRefCnt' and n.get('args') and pred(strip(n['args'][0]))


def root_field(e):
    return e is not None and e['k'] == 'MemberExpr' and e['n'] == 'root_'


def is_zero(unit, e):
    e = strip(e)
    if e is None:
        return False
    if e.get('v') == 0 and e['k'] in ('IntegerLiteral', 'CXXBoolLiteralExpr'):
        return True
    if e['k'] in ('CXXNullPtrLiteralExpr', 'GNUNullExpr'):
        return True
    if e['k'] in ('CXXConstructExpr', 'CXXFunctionalCastExpr', 'CXXTemporaryObjectExpr') and len(e.get('args') or e.get('ch') or []) == 1:
        return is_zero(unit, (e.get('args') or e.get('ch'))[0])
    return unit.text(e, 0).strip() in ('0', 'nullptr', 'NULL')


def root_write(n):
    """(base node or None for this, rhs) when n assigns a root_ field"""
    if n['k'] in ('BinaryOperator', 'CXXOperatorCallExpr') and n.get('op') == '=':
        ops = n.get('ch') if n['k'] == 'BinaryOperator' else n.get('args')
        l = strip(ops[0]) if ops else None
        if root_field(l):
            b = l.get('ch') or [l.get('obj')]
            bb = strip(b[0]) if b and is_node(b[0]) else None
            return (None if bb is None or bb['k'] == 'CXXThisExpr' else bb), ops[1]
    return None


def move_paths(unit, fn, cfg, pd):
    """ownership simulation of a move assignment along every acyclic path; returns a list of (message, node)"""
    problems = []
    seen_msgs = set()

    def events(n):
        if n['k'] in ('CallExpr', 'CXXMemberCallExpr'):
            cn = cname(n)
            if cn == 'deleteMTBDD':
                o = strip(n.get('obj')) if n.get('obj') else None
                return 'D' if o is None or o['k'] == 'CXXThisExpr' else None
            if cn == 'IncrementRefCnt' and n.get('args') and root_field(strip(n['args'][0])):
                return 'I'
            if cn == 'recursivelyDeleteMTBDDNode' and n.get('args') and not root_field(strip(n['args'][0])):
                return 'R'
            if cn == 'swap' and any(root_field(strip(a)) for a in n.get('args') or []):
                return 'W'
        w = root_write(n)
        if w is not None:
            base, rhs = w
            if base is None:
                return 'S'
            if base['k'] == 'DeclRefExpr' and base.get('d') == pd and is_zero(unit, rhs):
                return 'T'
            return 'X'
        return None

    def finish(st, node):
        this_owned, floating, reseated, swapped = st
        if not this_owned and floating > 0 and reseated:
            floating -= 1
            this_owned = True
        msg = None
        if floating > 0:
            msg = 'the reference detached from the source (its root_ is set to null) is neither adopted by this object nor released on a path to the return: the node it counted can never be freed'
        elif not this_owned:
            msg = 'on a path to the return this object ends up pointing to a root it holds no reference on'
        if msg and msg not in seen_msgs:
            seen_msgs.add(msg)
            problems.append((msg, node))

    def go(b, st, visits):
        if visits.get(b, 0) >= 2:
            return
        visits = dict(visits)
        visits[b] = visits.get(b, 0) + 1
        this_owned, floating, reseated, swapped = st
        for n in cfg.elems(b):
            if n is None:
                continue
            if n['k'] == 'ReturnStmt':
                finish((this_owned, floating, reseated, swapped), n)
                return
            ev = events(n)
            if ev == 'D':
                this_owned = False
            elif ev == 'S':
                if this_owned and not swapped:
                    m = 'root_ is overwritten on a path that did not release the old root: its nodes leak'
                    if m not in seen_msgs:
                        seen_msgs.add(m)
                        problems.append((m, n))
                this_owned = False
                reseated = True
            elif ev == 'T':
                floating += 1
            elif ev == 'I':
                this_owned = True
            elif ev == 'R':
                floating -= 1
            elif ev == 'W':
                swapped = True
        if b == cfg.exit:
            finish((this_owned, floating, reseated, swapped), None)
            return
        for s_ in cfg.succ[b]:
            go(s_, (this_owned, floating, reseated, swapped), visits)
    go(cfg.entry, (True, 0, False, False), {})
    return problems


def run(unit, em):
    for fn in unit.functions:
        if fn.body is None:
            continue
        in_mtbdd = fn.cls is not None and fn.cls.endswith('MTBDDPkg::OndriksMTBDD')
        name = fn.q.rsplit('::', 1)[-1]
        short = 'OndriksMTBDD::' + name if in_mtbdd else None
        if short in ANCHORS:
            em.anchor(fn, short)
        cfg = fn.cfg()
        # ---- R9 who-may-write: the owning root_ of an MTBDD object is re-seated only by the constructors, operator= and
        # deleteMTBDD (which pair the write with the reference-count traffic checked by R1-R4); a write anywhere else —
        # also through a local reference bound to `x.root_` — moves the root without moving the reference
        if in_mtbdd:
            from .prov import var_table as _vt
            vt9 = _vt(fn)
            aliases = set()
            for d9, v9 in vt9.items():
                if v9['kind'] == 'local' and unit.ty(v9['decl']).rstrip().endswith('&') and is_node(v9['decl'].get('init')):
                    i9 = strip(v9['decl']['init'])
                    if i9 is not None and i9['k'] == 'MemberExpr' and i9.get('n') == 'root_':
                        aliases.add(d9)
            for n in fn.walk():
                if n['k'] in ('BinaryOperator', 'CXXOperatorCallExpr') and n.get('op') == '=':
                    ops = n.get('ch') if n['k'] == 'BinaryOperator' else n.get('args')
                    l = strip(ops[0]) if ops else None
                    hit = l is not None and ((l['k'] == 'MemberExpr' and l.get('n') == 'root_') or (l['k'] == 'DeclRefExpr' and l.get('d') in aliases))
                    if not hit:
                        continue
                    txt9 = unit.text(n, 60)
                    if fn.d.get('fk') == 'ctor' or name in ('operator=', 'deleteMTBDD'):
                        em.ok(n, txt9, 'root re-seated by %s' % name, 'R9')
                    else:
                        em.violation(n, txt9, 'the owning root of an MTBDD object is overwritten in %s (only the constructors, operator= and deleteMTBDD may, together with the reference-count update): the object now points to a node it holds no reference on, and the old root keeps one too many' % name, 'R9')
        # ---- R8 who-may-call (any function of the repo)
        for c in fn.calls():
            cn = cname(c)
            if cn in RESTRICTED and (c.get('q') or '').startswith('VATA::MTBDDPkg'):
                caller = name
                allowed = caller in RELEASERS or (cn == 'disposeOfLeafNode' and caller == 'constructMTBDD') or \
                    (cn.startswith('Delete') and caller in RELEASERS) or ('mtbdd_node.hh' in fn.file)
                if allowed and cn == 'disposeOfLeafNode' and caller == 'constructMTBDD':
                    # the sink may only be disposed of when nobody references it
                    facts, _ = known_facts(c)
                    zero = False
                    for pol, atom in facts:
                        a = strip(atom)
                        if pol is True and a is not None and a['k'] == 'BinaryOperator' and a.get('op') == '==':
                            l, r = strip(a['ch'][0]), strip(a['ch'][1])
                            for x, y in ((l, r), (r, l)):
                                if x is not None and y is not None and x['k'] == 'CallExpr' and cname(x) in ('GetLeafRefCnt', 'GetInternalRefCnt') and y.get('v') == 0:
                                    zero = True
                    if zero:
                        em.ok(c, unit.text(c, 60), 'unused sink disposed of only when its reference count is 0', 'R8')
                    else:
                        em.violation(c, unit.text(c, 60), 'the sink leaf comes from the shared leaf table; disposing of it without testing that its reference count is 0 frees a leaf other MTBDDs still use', 'R8')
                elif allowed:
                    em.ok(c, unit.text(c, 60), 'called from %s' % caller, 'R8')
                else:
                    em.violation(c, unit.text(c, 60), '%s may only be called by the release functions (%s), not by %s: a node could be released while still referenced, or twice' % (cn, ', '.join(sorted(RELEASERS)), caller), 'R8')
        # ---- R1 private constructor call sites (anywhere)
        for n in fn.walk():
            if n['k'] in ('CXXConstructExpr', 'CXXTemporaryObjectExpr') and (n.get('q') or '').endswith('MTBDDPkg::OndriksMTBDD') and len(n.get('args', [])) == 2:
                a0 = strip(n['args'][0])
                t0 = unit.ty(a0) if a0 is not None else ''
                if 'MTBDDNodePtr' not in t0 and 'uintptr' not in t0:
                    continue
                txt = unit.text(n, 70)
                owned = a0 is not None and a0['k'] in ('CallExpr', 'CXXMemberCallExpr') and cname(a0) == 'constructMTBDD'
                if not owned and a0 is not None and a0['k'] == 'DeclRefExpr':
                    d = a0['d']
                    if cfg is not None:
                        pos = cfg.locate(n)
                        if pos:
                            ok, _ = must_pass_through(cfg, (cfg.entry, 0), lambda x: x is n, lambda x: is_incr_of(x, lambda a: a is not None and a.get('d') == d), start_after=False)
                            owned = ok
                    if not owned:
                        owned = any(cname(strip(s) or {'k': ''}) == 'constructMTBDD' for s in local_sources(fn, d) if strip(s) is not None and strip(s)['k'] in ('CallExpr', 'CXXMemberCallExpr'))
                if owned:
                    em.ok(n, txt, 'root is owned (incremented on every path before the construction)', 'R1')
                else:
                    em.violation(n, txt, 'the root handed to the private MTBDD constructor is only borrowed: no IncrementRefCnt on every path before it; the destructor would release a reference that was never taken', 'R1')
        if not in_mtbdd or cfg is None:
            continue
        fk = fn.d.get('fk')
        # ---- R2 constructors
        if fk == 'ctor' and len(fn.params) == 1:
            # copy constructor / value constructor: root_ initialised from a borrowed value -> must increment
            inits = [i for i in fn.d.get('inits', []) if i.get('n') == 'root_']
            if inits and unit.tname(fn.params[0]['t']).rstrip().endswith('&&') and 'OndriksMTBDD' in unit.tname(fn.params[0]['t']):
                pd2 = fn.params[0]['d']
                def detaches(x, pd2=pd2):
                    w = root_write(x)
                    return w is not None and w[0] is not None and w[0]['k'] == 'DeclRefExpr' and w[0].get('d') == pd2 and is_zero(unit, w[1])
                okd, _ = must_pass_through(cfg, (cfg.entry, 0), None, detaches, start_after=False)
                oki, _ = must_pass_through(cfg, (cfg.entry, 0), None, lambda x: is_incr_of(x, root_field), start_after=False)
                if okd and oki:
                    em.violation(fn, 'OndriksMTBDD move constructor', 'takes over the reference of the source and increments it as well: one reference too many, the nodes leak', 'R2')
                elif okd or oki:
                    em.ok(fn, 'OndriksMTBDD move constructor', 'takes over the reference of the source (source root set to null) on every path' if okd else 'increments root_ on every path', 'R2')
                else:
                    em.violation(fn, 'OndriksMTBDD move constructor', 'the new handle shares the root of the source without taking a reference and without detaching the source: the node is released twice', 'R2')
            elif inits:
                ok, _ = must_pass_through(cfg, (cfg.entry, 0), None, lambda x: is_incr_of(x, root_field), start_after=False)
                what = 'copy constructor' if unit.tname(fn.params[0]['t']).startswith('const VATA::MTBDDPkg::OndriksMTBDD') else 'value constructor'
                if ok:
                    em.ok(fn, 'OndriksMTBDD %s' % what, 'increments root_ on every path', 'R2')
                else:
                    em.violation(fn, 'OndriksMTBDD %s' % what, 'the new handle does not take a reference on its root on every path: the shared node is released while this MTBDD still uses it', 'R2')
        # ---- R3 operator=
        if name == 'operator=' and len(fn.params) == 1 and unit.tname(fn.params[0]['t']).rstrip().endswith('&&'):
            probs = move_paths(unit, fn, cfg, fn.params[0]['d'])
            has_release = any(c_['k'] in ('CallExpr', 'CXXMemberCallExpr') and cname(c_) == 'recursivelyDeleteMTBDDNode' for c_ in fn.calls())
            if probs:
                for msg, node in probs:
                    if has_release and 'detached' in msg:
                        # the surplus reference is released on other paths: whether the remaining path is the null-root case is a value question
                        em.unknown(node or fn, 'operator= (move): reference balance', 'a path without adoption or release exists next to paths that release the detached reference; not decided whether it is the null-root case', 'R3m')
                    else:
                        em.violation(node or fn, 'operator= (move): reference balance', msg, 'R3m')
            else:
                em.ok(fn, 'operator= (move): reference balance', 'on every path the old root is released before it is overwritten and the reference taken over from the source is adopted or released', 'R3m')
        elif name == 'operator=':
            dels = [c for c in fn.calls() if cname(c) == 'deleteMTBDD']
            reseat = [n for n in fn.walk() if (n['k'] == 'BinaryOperator' and n.get('op') == '=' and root_field(strip(n['ch'][0]))) or
                      (n['k'] == 'CXXOperatorCallExpr' and n.get('op') == '=' and n.get('args') and root_field(strip(n['args'][0])))]
            if not dels or not reseat:
                em.violation(fn, 'OndriksMTBDD::operator=', 'expected deleteMTBDD() and a re-seating of root_', 'R3')
            else:
                # self-assignment test with early return before the release
                guard = None
                for n in fn.walk():
                    if n['k'] == 'IfStmt' and any(x['k'] == 'CXXThisExpr' for x in walk(n['c'])) and any(x['k'] == 'UnaryOperator' and x.get('op') == '&' for x in walk(n['c'])) and \
                       any(x['k'] == 'ReturnStmt' for x in walk(n.get('th'))):
                        guard = n
                if guard is not None:
                    okg, _ = must_pass_through(cfg, (cfg.entry, 0), lambda x: x is dels[0], lambda x: x is strip(guard['c']) or x is guard['c'], start_after=False)
                else:
                    okg = False
                if not okg:
                    # the guard may also enclose the release: `if (&rhs != this) { deleteMTBDD(); ... }`
                    facts, _ = known_facts(dels[0])
                    for pol, atom in facts:
                        a = strip(atom)
                        if a is None or a['k'] not in ('BinaryOperator', 'CXXOperatorCallExpr') or a.get('op') not in ('==', '!='):
                            continue
                        has_this = any(x['k'] == 'CXXThisExpr' for x in walk(a))
                        has_addr = any(x['k'] == 'UnaryOperator' and x.get('op') == '&' and (strip(x['ch'][0]) or {}).get('d') in {p_['d'] for p_ in fn.params} for x in walk(a))
                        if has_this and has_addr and ((a['op'] == '!=' and pol is True) or (a['op'] == '==' and pol is False)):
                            okg = True
                if okg:
                    em.ok(dels[0], 'operator=: self-assignment', 'tested before the old root is released', 'R3a')
                else:
                    em.violation(dels[0], 'operator=: self-assignment', 'x = x releases the root (possibly freeing it) before re-reading it', 'R3a')
                ok1, _ = must_pass_through(cfg, (cfg.entry, 0), lambda x: x is reseat[0], lambda x: x is dels[0], start_after=False)
                if ok1:
                    em.ok(reseat[0], 'operator=: release before re-seat', 'deleteMTBDD() precedes root_ = ...', 'R3b')
                else:
                    em.violation(reseat[0], 'operator=: release before re-seat', 'root_ is overwritten on a path that did not release the old root: its nodes leak', 'R3b')
                # the new root is referenced either after the release (release-then-acquire) or before it
                # (acquire-then-release); both are accepted
                ok2, _ = must_pass_through(cfg, cfg.locate(dels[0]), lambda x: x['k'] == 'ReturnStmt', lambda x: is_incr_of(x, root_field))
                if not ok2:
                    ok2, _ = must_pass_through(cfg, (cfg.entry, 0), lambda x: x is dels[0], lambda x: is_incr_of(x, root_field), start_after=False)
                if ok2:
                    em.ok(reseat[0], 'operator=: take reference', 'a reference on the new root is taken on every path (after the release, or before it)', 'R3c')
                else:
                    em.violation(reseat[0], 'operator=: take reference', 'no reference is taken on the new root on every path through the assignment', 'R3c')
        # ---- R4 destructor
        if fk == 'dtor':
            ok, _ = must_pass_through(cfg, (cfg.entry, 0), None, lambda x: x['k'] in ('CallExpr', 'CXXMemberCallExpr') and cname(x) == 'deleteMTBDD', start_after=False)
            if ok:
                em.ok(fn, '~OndriksMTBDD', 'releases its root', 'R4')
            else:
                em.violation(fn, '~OndriksMTBDD', 'the destructor does not release the root on every path: nodes leak', 'R4')
        # ---- R5 spawn*
        if name == 'spawnInternal' and len(fn.params) == 3:
            cr = [c for c in fn.calls() if cname(c) == 'CreateInternal']
            if len(cr) != 1:
                em.violation(fn, 'spawnInternal', 'expected one CreateInternal call', 'R5')
            else:
                pos = cfg.locate(cr[0])
                for k in (0, 1):
                    pd = fn.params[k]['d']
                    ok, _ = must_pass_through(cfg, pos, lambda x: x['k'] == 'ReturnStmt', lambda x: is_incr_of(x, lambda a: a is not None and a.get('d') == pd))
                    nm = 'spawnInternal: reference on %s child' % ('low', 'high')[k]
                    if ok:
                        em.ok(cr[0], nm, 'incremented on the creation path', 'R5')
                    else:
                        em.violation(cr[0], nm, 'a new internal node does not take a reference on its %s child: the child can be released while the node still points to it' % ('low', 'high')[k], 'R5')
                ok, _ = must_pass_through(cfg, pos, lambda x: x['k'] == 'ReturnStmt', lambda x: x['k'] == 'CXXMemberCallExpr' and method_name(x) == 'insert' and 'internalCache_' in unit.text(x.get('obj'), 0))
                if ok:
                    em.ok(cr[0], 'spawnInternal: unique table', 'the new node is entered into internalCache_', 'R5')
                else:
                    em.violation(cr[0], 'spawnInternal: unique table', 'a created node is not entered into internalCache_: an equal node would be created again (canonicity lost) and disposeOf would fail to erase it', 'R5')
        if name == 'spawnLeaf' and len(fn.params) == 1:
            cr = [c for c in fn.calls() if cname(c) == 'CreateLeaf']
            if len(cr) == 1:
                ok, _ = must_pass_through(cfg, cfg.locate(cr[0]), lambda x: x['k'] == 'ReturnStmt', lambda x: x['k'] == 'CXXMemberCallExpr' and method_name(x) == 'insert' and 'leafCache_' in unit.text(x.get('obj'), 0))
                if ok:
                    em.ok(cr[0], 'spawnLeaf: unique table', 'the new leaf is entered into leafCache_', 'R5')
                else:
                    em.violation(cr[0], 'spawnLeaf: unique table', 'a created leaf is not entered into leafCache_', 'R5')
        # ---- R6 dispose
        if name == 'disposeOfInternalNode':
            dele = [c for c in fn.calls() if cname(c) == 'DeleteInternalNode']
            er = [c for c in fn.calls() if c['k'] == 'CXXMemberCallExpr' and method_name(c) == 'erase' and 'internalCache_' in unit.text(c.get('obj'), 0)]
            DEFER = ('insert', 'push_back', 'push', 'emplace', 'emplace_back', 'push_front')
            vt6 = var_table(fn)

            def uses_of(d, scope):
                # (kind, call, container type) for every call in scope that takes the variable d
                out = []
                for c in walk(scope):
                    if c['k'] in ('CallExpr', 'CXXMemberCallExpr') and any((strip(a) or {}).get('d') == d and (strip(a) or {}).get('k') == 'DeclRefExpr' for a in c.get('args') or []):
                        if cname(c) == 'recursivelyDeleteMTBDDNode':
                            out.append(('release', c, None))
                        elif c['k'] == 'CXXMemberCallExpr' and method_name(c) in DEFER:
                            out.append(('defer', c, unit.ty(strip(c.get('obj')) or c)))
                return out
            for side in ('Low', 'High'):
                nm = 'disposeOfInternalNode: release %s child' % side.lower()
                direct, via = [], []          # direct releases / (scope, var) hand-overs
                for g in fn.calls():
                    if cname(g) != 'Get%sFromInternal' % side:
                        continue
                    par = g.get('_p')
                    while par is not None and (par['k'] in ('ImplicitCastExpr', 'MaterializeTemporaryExpr', 'ParenExpr', 'ExprWithCleanups', 'CXXBindTemporaryExpr') or
                                               (par['k'] == 'CXXConstructExpr' and (par.get('q') or '').endswith('MTBDDNodePtr'))):
                        par = par.get('_p')
                    if par is not None and par['k'] == 'CallExpr' and cname(par) == 'recursivelyDeleteMTBDDNode':
                        direct.append(par)
                        continue
                    if par is not None and par['k'] == 'CXXMemberCallExpr' and method_name(par) in DEFER:
                        via.append(('defer', par, unit.ty(strip(par.get('obj')) or par)))
                        continue
                    for lp in fn.walk():
                        if lp['k'] == 'CXXForRangeStmt' and is_node(lp.get('range')) and any(x is g for x in walk(lp['range'])):
                            us = uses_of(lp['var']['d'], lp['body'])
                            first = next((m for m in walk(lp['body']) if m is not lp['body'] and cfg.locate(m) is not None), None)
                            inc_ids = {id(x) for x in walk(lp['inc'])} if is_node(lp.get('inc')) else set()
                            use_ids = {id(u[1]) for u in us}
                            if first is None or not inc_ids or not must_pass_through(cfg, cfg.locate(first), lambda x: id(x) in inc_ids, lambda x: id(x) in use_ids, start_after=False)[0]:
                                via.append(('skip', lp, None))
                            via.extend(us)
                    for d6, v6 in vt6.items():
                        if v6['kind'] == 'local' and is_node(v6['decl'].get('init')) and any(x is g for x in walk(v6['decl']['init'])) and 'InternalAddress' not in unit.ty(v6['decl']):
                            via.extend(uses_of(d6, fn.body))
                dedup = [v for v in via if v[0] == 'defer' and ('set<' in (v[2] or '') or 'map<' in (v[2] or ''))]
                if len(direct) == 1 and not via:
                    okb = dele and must_pass_through(cfg, (cfg.entry, 0), lambda x: x is dele[0], lambda x: x is direct[0], start_after=False)[0]
                    if okb:
                        em.ok(direct[0], nm, 'released exactly once, before the node is deleted', 'R6')
                    else:
                        em.violation(direct[0], nm, 'the child is read after DeleteInternalNode (use after free) or not on every path', 'R6')
                elif dedup:
                    em.violation(dedup[0][1], nm, 'the reference on the %s child is handed to a de-duplicating container (%s): a node that is scheduled again while still pending is decremented once for two lost references, so it and its subgraph are never freed' % (
                        side.lower(), (dedup[0][2] or '')[:40]), 'R6')
                elif any(v[0] == 'skip' for v in via):
                    em.violation(fn, nm, 'the %s child is neither released nor handed to a worklist on every path through the loop over the children' % side.lower(), 'R6')
                elif via and not direct:
                    if any(v[0] == 'defer' for v in via):
                        em.unknown(via[0][1], nm, 'the release of the %s child is deferred to a worklist; that the worklist is drained with one decrement per entry is not analysed' % side.lower(), 'R6')
                    else:
                        em.ok(via[0][1], nm, 'released once through a local / loop variable', 'R6')
                else:
                    em.violation(fn, nm, 'the %s child is released %d times (must be exactly once)' % (side.lower(), len(direct) + len([v for v in via if v[0] == 'release'])), 'R6')
            if er and dele and must_pass_through(cfg, (cfg.entry, 0), lambda x: x is dele[0], lambda x: x is er[0], start_after=False)[0]:
                em.ok(er[0], 'disposeOfInternalNode: table entry', 'erased before the node is deleted', 'R6')
            else:
                em.violation(fn, 'disposeOfInternalNode: table entry', 'the unique-table entry is not erased before the node is deleted: a dangling entry would be handed out by spawnInternal', 'R6')
        if name == 'disposeOfLeafNode':
            dele = [c for c in fn.calls() if cname(c) == 'DeleteLeafNode']
            er = [c for c in fn.calls() if c['k'] == 'CXXMemberCallExpr' and method_name(c) == 'erase' and 'leafCache_' in unit.text(c.get('obj'), 0)]
            if er and dele and must_pass_through(cfg, (cfg.entry, 0), lambda x: x is dele[0], lambda x: x is er[0], start_after=False)[0]:
                em.ok(er[0], 'disposeOfLeafNode: table entry', 'erased before the leaf is deleted', 'R6')
            else:
                em.violation(fn, 'disposeOfLeafNode: table entry', 'the leaf-table entry is not erased before the leaf is deleted', 'R6')
        # ---- R7
        if name == 'recursivelyDeleteMTBDDNode':
            for c in fn.calls():
                if cname(c) in ('disposeOfLeafNode', 'disposeOfInternalNode'):
                    facts, _ = known_facts(c)
                    good = False
                    want = 'DecrementLeafRefCnt' if 'Leaf' in cname(c) else 'DecrementInternalRefCnt'
                    for pol, atom in facts:
                        a = strip(atom)
                        if pol is True and a is not None and a['k'] == 'BinaryOperator' and a.get('op') == '==':
                            l, r = strip(a['ch'][0]), strip(a['ch'][1])
                            for x, y in ((l, r), (r, l)):
                                if x is not None and y is not None and x['k'] == 'CallExpr' and cname(x) == want and y.get('v') == 0:
                                    good = True
                    if good:
                        em.ok(c, unit.text(c, 50), 'only when the decrement returned 0', 'R7')
                    else:
                        em.violation(c, unit.text(c, 50), 'a node is disposed of without its reference count having reached 0 in this branch', 'R7')


# ---- R10 `orphan`: a node spawned into a local is handed on or given back on every path
def run_orphan(unit, em):
    """A node obtained from `spawnLeaf` / `spawnInternal` into a local has reference count 0 until somebody links it
    (`spawnInternal(.., L, ..)` references its children), counts it (`IncrementRefCnt(L)`), or returns / stores it.  If some path
    from the spawn to the end of the function does none of these, the node stays in the unique table uncounted — an orphan that
    no release will ever reach (the store does not return to its previous size; seed C18-10).  Obligation: every path hands the
    node on, or the function disposes of it under the zero test (`if (Get*RefCnt(L) == 0) disposeOf*(L)`)."""
    from vfacts import must_pass_through, known_facts
    from .prov import var_table, local_sources
    for fn in unit.functions:
        if fn.body is None or '/mtbdd/' not in fn.file:
            continue
        vt = var_table(fn)
        cfg = None
        for d, v in vt.items():
            if v['kind'] != 'local':
                continue
            spawns = [x for s_ in local_sources(fn, d) for x in walk(s_) if x['k'] in ('CallExpr', 'CXXMemberCallExpr') and (cname(x) or '').startswith('spawn')]
            if not spawns or not is_node(v['decl'].get('init')) or not any(any(y is sp for y in walk(v['decl']['init'])) for sp in spawns):
                continue        # only nodes spawned at the declaration of the local (an accumulator re-assigned in a loop is returned/linked by construction)
            if cfg is None:
                cfg = fn.cfg()
            if cfg is None:
                break
            name = v['decl'].get('n')

            def mentions(e, d=d):
                return any(x['k'] == 'DeclRefExpr' and x.get('d') == d for x in walk(e))

            def consumer(n, d=d):
                if n['k'] in ('CallExpr', 'CXXMemberCallExpr') and (cname(n) or '') in ('spawnInternal', 'IncrementRefCnt', 'IncrementLeafRefCnt', 'IncrementInternalRefCnt') and any(mentions(a) for a in n.get('args') or []):
                    return True
                if n['k'] == 'ReturnStmt' and mentions(n):
                    return True
                if n['k'] == 'BinaryOperator' and n.get('op') == '=' and mentions(n['ch'][1]) and not mentions(n['ch'][0]):
                    return True
                return False
            pos = cfg.locate(v['node'])
            if pos is None:
                continue
            ok, _ = must_pass_through(cfg, pos, None, consumer)
            txt = '%s = %s' % (name, unit.text(spawns[0], 40))
            if ok:
                em.ok(v['node'], txt, 'handed on (linked, counted, returned or stored) on every path', 'R10')
                continue
            disposed = False
            for c in fn.calls():
                if c['k'] in ('CallExpr', 'CXXMemberCallExpr') and (cname(c) or '').startswith('disposeOf') and any(mentions(a) for a in c.get('args') or []):
                    facts, _ = known_facts(c)
                    for pol, a in facts:
                        a = strip(a)
                        if pol and a is not None and a['k'] == 'BinaryOperator' and a.get('op') == '==' and any(
                                x['k'] in ('CallExpr', 'CXXMemberCallExpr') and 'RefCnt' in (cname(x) or '') and any(mentions(y) for y in x.get('args') or []) for x in walk(a)):
                            disposed = True
            if disposed:
                em.ok(v['node'], txt, 'not used on every path, and disposed of under the zero test when it was not', 'R10')
            else:
                em.violation(v['node'], txt, 'the node spawned into `%s` can reach the end of the function without having been linked, counted, returned or stored, and the function never disposes of it under '
                             'a zero test: it stays in the unique table with reference count 0, out of reach of every release' % name, 'R10')


_run_r1_9 = run


def run(unit, em):
    _run_r1_9(unit, em)
    run_orphan(unit, em)
