"""MEMO — memo tables say only what was computed (C09).

MEMO-SOUND: in the antichain NFA inclusion functor the tables subsetMap_ (P) and subsetNotMap_ (N)
cache subset tests between macro-states. Slot table (fixed from the reader): P(a,b) means a ⊆ b,
N(a,b) means a ⊄ b. Instance: every add() into and every contains() hit on these tables.
Obligation: an add must be implied by the branch it sits under (P(u,v) under lte(u,v) true or
gte(v,u) true; N(u,v) under lte(u,v) false or gte(v,u) false, where the tested variable is the one
that received the comparator's result); a hit may set the verdict only to what the stored fact
implies for the query the enclosing callable answers."""
from vfacts import strip, walk, method_name, known_facts, is_node
from .prov import var_table

RULE = 'MEMO'
FLOOR = 4
ANCHORS = ['ExplicitFAInclusionFunctorCache::AddNewPairToAntichain', 'ExplicitFAInclusionFunctorCache::AddToNext']
TABLES = {'subsetMap_': '+', 'subsetNotMap_': '-'}


def table_of(c):
    o = strip(c.get('obj'))
    if o is not None and o['k'] == 'MemberExpr' and o['n'] in TABLES:
        return o['n']
    return None


def deref_var(e):
    e = strip(e)
    if e is not None and e['k'] == 'UnaryOperator' and e.get('op') == '*':
        e = strip(e['ch'][0])
    if e is not None and e['k'] == 'DeclRefExpr':
        return e['d']
    return None


def scopes(fn):
    """(owner node or None, body, params) for the function and each lambda in it"""
    yield None, fn.body, [p['d'] for p in fn.params]
    for n in fn.walk():
        if n['k'] == 'LambdaExpr' and is_node(n.get('body')):
            yield n, n['body'], [p['d'] for p in n.get('params', [])]


def run(unit, em):
    for fn in unit.functions:
        short = fn.q.replace('VATA::', '')
        if short in ANCHORS:
            em.anchor(fn, short)
        if 'ExplicitFA' not in fn.q or fn.body is None:
            continue
        for owner, body, params in scopes(fn):
            calls = [n for n in walk(body, lambdas=False) if n['k'] == 'CXXMemberCallExpr' and table_of(n) and method_name(n) in ('add', 'contains')]
            if not calls:
                continue
            # the computation the memo falls back to:  res = comparator.lte/gte(*a, *b)
            comp = None
            for n in walk(body, lambdas=False):
                tgt = rhs = None
                if n['k'] == 'BinaryOperator' and n.get('op') == '=':
                    tgt, rhs = strip(n['ch'][0]), strip(n['ch'][1])
                elif n['k'] == 'DeclStmt':
                    for d in n.get('decls', []):
                        if is_node(d.get('init')):
                            r = strip(d['init'])
                            if r is not None and r['k'] == 'CXXMemberCallExpr' and method_name(r) in ('lte', 'gte'):
                                tgt, rhs = {'k': 'DeclRefExpr', 'd': d['d']}, r
                if tgt is None or rhs is None or tgt['k'] != 'DeclRefExpr':
                    continue
                if rhs['k'] == 'CXXMemberCallExpr' and method_name(rhs) in ('lte', 'gte') and len(rhs.get('args', [])) == 2:
                    a, b = deref_var(rhs['args'][0]), deref_var(rhs['args'][1])
                    if a is not None and b is not None:
                        comp = {'res': tgt['d'], 'rel': method_name(rhs), 'a': a, 'b': b, 'node': n}
            if comp is None:
                for c in calls:
                    em.unknown(c, unit.text(c, 80), 'no comparator fallback found in the enclosing callable', method_name(c))
                continue
            sub = (comp['a'], comp['b']) if comp['rel'] == 'lte' else (comp['b'], comp['a'])  # query answered: sub[0] ⊆ sub[1]
            for c in calls:
                t = table_of(c)
                sign = TABLES[t]
                args = [deref_var(x) for x in c.get('args', [])]
                txt = unit.text(c, 80)
                if len(args) != 2 or None in args:
                    em.unknown(c, txt, 'arguments not plain variables', method_name(c))
                    continue
                u, v = args
                if method_name(c) == 'add':
                    facts, _ = known_facts(c)
                    pol = None
                    for p, atom in facts:
                        at = strip(atom)
                        if at is not None and at['k'] == 'DeclRefExpr' and at.get('d') == comp['res']:
                            pol = p
                            break
                    if pol is None:
                        em.violation(c, txt, '%s records a fact that no branch on the comparator\'s result established' % t, 'add')
                        continue
                    established = ('sub' if pol else 'notsub', sub[0], sub[1])
                    needed = ('sub' if sign == '+' else 'notsub', u, v)
                    if established == needed:
                        em.ok(c, txt, 'implied by %s(%s) == %s' % (comp['rel'], 'a,b', pol), 'add')
                    else:
                        em.violation(c, txt, '%s.add records "%s %s %s" but the branch only established "%s %s %s"' % (
                            t, name(fn, u), '⊆' if sign == '+' else '⊄', name(fn, v),
                            name(fn, sub[0]), '⊆' if pol else '⊄', name(fn, sub[1])), 'add')
                else:
                    # a hit: which constant does the verdict variable get under it?
                    p = c.get('_p')
                    while p is not None and p['k'] in ('ImplicitCastExpr', 'ParenExpr', 'ExprWithCleanups'):
                        p = p.get('_p')
                    if p is None or p['k'] != 'IfStmt':
                        em.unknown(c, txt, 'hit not used as a plain if-condition', 'hit')
                        continue
                    val = None
                    for n in walk(p.get('th'), lambdas=False):
                        if n['k'] == 'BinaryOperator' and n.get('op') == '=':
                            l, r = strip(n['ch'][0]), strip(n['ch'][1])
                            if l is not None and l.get('d') == comp['res'] and r is not None and r['k'] == 'CXXBoolLiteralExpr':
                                val = r['v']
                        if n['k'] == 'ReturnStmt':
                            r = strip((n.get('ch') or [None])[0])
                            if r is not None and r['k'] == 'CXXBoolLiteralExpr':
                                val = r['v']
                    if val is None:
                        em.unknown(c, txt, 'verdict under the hit not a constant', 'hit')
                        continue
                    if (u, v) != sub:
                        em.violation(c, txt, 'a hit on %s(%s,%s) says nothing about the query "%s ⊆ %s" this callable answers, yet sets the verdict to %s' % (
                            t, name(fn, u), name(fn, v), name(fn, sub[0]), name(fn, sub[1]), val), 'hit')
                    elif val != (sign == '+'):
                        em.violation(c, txt, 'a hit on %s means "%s %s %s" but the verdict is set to %s' % (t, name(fn, u), '⊆' if sign == '+' else '⊄', name(fn, v), val), 'hit')
                    else:
                        em.ok(c, txt, 'hit implies verdict %s' % val, 'hit')


def name(fn, d):
    v = var_table(fn).get(d)
    return v['decl']['n'] if v else '?'
