"""COUNTGUARD — a counter that licenses sharing the input is only ever under-counted (C03, C15).

RemoveUselessStates / GetCandidateTree keep `remaining` = (registrations of rules under their distinct
children) - (rules that fired); `!remaining` licenses `result.transitions_ = transitions_` (all rules
useful). That is sound only while every decrement is at most what the fired rule contributed.
Instance: every modification of a counter C that guards sharing of the input's rule store.
Obligation: increments are `++C` inside the loop over a rule's *distinct-children set*; decrements are
`--C` (one per fired rule) or `C -= S.size()` with S that same distinct-children set — never a quantity
that counts repeated children (the raw tuple length can exceed the contribution, the surplus cancels
rules that never fire, and dead rules are shared into the result)."""
from vfacts import strip, walk, method_name, root_path, enclosing, is_node

RULE = 'COUNTGUARD'
FLOOR = 4
ANCHORS = ['ExplicitTreeAutCore::RemoveUselessStates', 'ExplicitTreeAutCore::GetCandidateTree']


def run(unit, em):
    for fn in unit.functions:
        short = fn.q.replace('VATA::', '')
        if short not in ANCHORS or fn.body is None:
            continue
        em.anchor(fn, short)
        # guard counters:  if (!C) { X.transitions_ = transitions_ ... }
        guards = set()
        for n in fn.walk(lambdas=False):
            if n['k'] != 'IfStmt':
                continue
            v = None
            from .prov import bool_leaves
            for c in bool_leaves(fn, n['c']):
                # `!C` arrives here as the leaf C itself; `C == 0` as the comparison
                if c is not None and c['k'] == 'DeclRefExpr' and c.get('dk') == 'local' and unit.ty(c).strip() != 'bool':
                    v = c['d']
                elif c is not None and c['k'] == 'BinaryOperator' and c.get('op') == '==':
                    a, b = strip(c['ch'][0]), strip(c['ch'][1])
                    for x, y in ((a, b), (b, a)):
                        if x is not None and y is not None and x['k'] == 'DeclRefExpr' and x.get('dk') == 'local' and y.get('v') == 0:
                            v = x['d']
            if v is None:
                continue
            shares = any(m['k'] == 'CXXOperatorCallExpr' and m.get('op') == '=' and len(m.get('args', [])) == 2 and
                         (root_path(m['args'][0]) or ('',))[-1] == 'transitions_' and (root_path(m['args'][1]) or ('',))[-1] == 'transitions_'
                         for m in walk(n.get('th'), lambdas=False))
            if shares:
                guards.add(v)
        if not guards:
            em.unknown(fn, short, 'no counter guarding the sharing shortcut found')
            continue
        for C in guards:
            inc_sets = set()
            mods = []
            for n in fn.walk():
                tgt = None
                if n['k'] == 'UnaryOperator' and n.get('op') in ('++', '--'):
                    tgt = strip(n['ch'][0])
                    kind = n['op']
                    amount = None
                elif n['k'] in ('CompoundAssignOperator', 'BinaryOperator') and n.get('op') in ('+=', '-='):
                    tgt = strip(n['ch'][0])
                    kind = n['op']
                    amount = n['ch'][1]
                else:
                    continue
                if tgt is None or tgt.get('d') != C:
                    continue
                mods.append((n, kind, amount))
                if kind == '++':
                    lp = enclosing(n, ('CXXForRangeStmt',))
                    if lp is not None:
                        rp = root_path(lp.get('range'))
                        if rp:
                            inc_sets.add(rp[-1])
            for n, kind, amount in mods:
                txt = unit.text(n, 60)
                if kind == '++':
                    lp = enclosing(n, ('CXXForRangeStmt',))
                    rt = unit.ty(strip(lp.get('range')) or lp['range']).replace('const ', '') if lp is not None and lp.get('range') else ''
                    if rt.startswith('std::set<') or rt.startswith('std::unordered_set<'):
                        em.ok(n, txt, 'one per distinct child of the rule (%s)' % rt[:30], 'inc')
                    else:
                        em.violation(n, txt, 'the counter is incremented per element of %s, which is not the rule\'s set of distinct children' % (rt[:40] or 'no loop'), 'inc')
                elif kind == '--':
                    em.ok(n, txt, 'one per fired rule (never more than the rule contributed)', 'dec')
                elif kind == '-=':
                    a = strip(amount)
                    okk = a is not None and a['k'] == 'CXXMemberCallExpr' and method_name(a) == 'size' and (root_path(a.get('obj')) or ('',))[-1] in inc_sets
                    if okk:
                        em.ok(n, txt, 'exactly what the rule contributed', 'dec')
                    else:
                        em.violation(n, txt, 'a fired rule subtracts `%s`, which is not the size of the distinct-children set it was registered under (%s): with a repeated child it subtracts more than it added, the surplus cancels rules that never fire and `!%s` shares dead rules into the result' % (
                            unit.text(amount, 40), ', '.join(sorted(inc_sets)) or '?', 'counter'), 'dec')
                else:
                    em.violation(n, txt, 'unexpected modification of the sharing guard', 'mod')


# ---- clause `waitset`: the set of children a rule still waits for shrinks only by the state that was just reached
def run_waitset(unit, em):
    for fn in unit.functions:
        if fn.body is None and not fn.d.get('inits'):
            continue
        owner = None
        for a in ANCHORS:
            if ('VATA::' + a + '()::') in fn.q or (a + '()::') in fn.q:
                owner = a
        if owner is None:
            continue
        params = {p['d'] for p in fn.params}
        for n in fn.walk():
            if n['k'] != 'CXXMemberCallExpr' or n.get('const'):
                continue
            o = strip(n.get('obj'))
            if o is None or o['k'] != 'MemberExpr' or o.get('dk', 'field') != 'field' or not unit.ty(o).replace('const ', '').startswith('std::set<unsigned long'):
                continue
            m = method_name(n)
            if m in ('begin', 'end', 'find', 'count', 'size', 'empty', 'cbegin', 'cend'):
                continue
            txt = unit.text(n, 60)
            arg = strip(n['args'][0]) if n.get('args') else None
            if m == 'erase' and arg is not None and arg['k'] == 'DeclRefExpr' and arg.get('d') in params and fn.d.get('fk') != 'ctor':
                em.ok(n, txt, 'the waiting set shrinks by the state reported as reached', 'waitset')
            else:
                em.violation(n, txt, 'the set of children a rule waits for is changed other than by erasing the state just reached (%s in %s): the rule can fire before all its children are derivable — e.g. a recursive rule f(q,p) -> q fires before q has a base, is kept as the rule of q, and the witness is empty' % (
                    m, fn.q.split('::')[-1]), 'waitset')


# ---- clause `waitset-outer`: the owning algorithm shrinks a waiting set only where it then looks whether it became empty
def run_waitset_outer(unit, em):
    from vfacts import must_pass_through
    for fn in unit.functions:
        short = fn.q.replace('VATA::', '')
        if short not in ANCHORS or fn.body is None:
            continue
        cfg = fn.cfg()
        if cfg is None:
            continue
        def is_wait(e):
            e = strip(e)
            return e is not None and e['k'] == 'MemberExpr' and e.get('dk', 'field') == 'field' and unit.ty(e).replace('const ', '').startswith('std::set<unsigned long')
        aliases = {}
        from .prov import var_table
        for d_, v_ in var_table(fn).items():
            dn = v_['decl']
            if v_['kind'] == 'local' and unit.ty(dn).rstrip().endswith('&') and not unit.ty(dn).startswith('const ') and is_node(dn.get('init')) and is_wait(dn['init']):
                aliases[d_] = strip(dn['init']).get('n')
        def wait_obj(o):
            o = strip(o)
            if o is None:
                return None
            if is_wait(o):
                return o.get('n')
            if o['k'] == 'DeclRefExpr' and o.get('d') in aliases:
                return aliases[o['d']]
            return None
        for n in fn.walk():
            if n['k'] != 'CXXMemberCallExpr' or n.get('const'):
                continue
            F = wait_obj(n.get('obj'))
            m = method_name(n)
            if F is None or m in ('begin', 'end', 'find', 'count', 'size', 'empty', 'cbegin', 'cend', 'lower_bound', 'upper_bound'):
                continue
            txt = unit.text(n, 60)
            pos = cfg.locate(n)
            def tests_empty(x, F=F):
                return x['k'] == 'CXXMemberCallExpr' and method_name(x) in ('empty', 'size') and wait_obj(x.get('obj')) == F
            ok = pos is not None and must_pass_through(cfg, pos, None, tests_empty)[0]
            if ok:
                em.ok(n, txt, 'the waiting set is changed here and tested for emptiness afterwards on every path', 'waitset')
            else:
                em.violation(n, txt, 'the set of children a rule waits for (`%s`) is changed by %s outside the rule object, on a path that never looks whether it became empty: '
                             'a rule whose last awaited child is removed here is registered under no state and never fires, so its parent state is taken for unreachable' % (F, m), 'waitset')


# ---- clause `fired`: a rule reported as enabled has its parent state recorded before the loop is left or goes on
def run_fired(unit, em):
    from vfacts import must_pass_through
    for fn in unit.functions:
        short = fn.q.replace('VATA::', '')
        if short not in ANCHORS or fn.body is None:
            continue
        cfg = fn.cfg()
        if cfg is None:
            continue
        for c in fn.calls():
            if c['k'] != 'CXXMemberCallExpr' or method_name(c) != 'reachedBy':
                continue
            ifs = enclosing(c, ('IfStmt',))
            if ifs is None or not any(x is c for x in walk(ifs['c'])):
                em.unknown(c, unit.text(c, 50), 'the enabled-test is not the condition of an if statement', 'fired')
                continue
            cond = strip(ifs['c'])
            fired_edge = True
            k = cond
            while k is not None and k['k'] == 'UnaryOperator' and k.get('op') == '!':
                fired_edge = not fired_edge
                k = strip(k['ch'][0])
            if k is not c:
                em.unknown(c, unit.text(c, 50), 'the enabled-test is combined with other conditions', 'fired')
                continue
            who = root_path(c.get('obj'))
            def edge(cn, cond=cond, fe=fired_edge):
                return fe if strip(cn) is cond else None
            def records(x, who=who):
                if x['k'] in ('CXXOperatorCallExpr', 'CallExpr') and x.get('args'):
                    # through a local lambda / helper that inserts the state it is given (`markReachable(info->state_)`)
                    from .prov import callee_view
                    cv = callee_view(unit, fn, x)
                    if cv:
                        pds, hbody, _, actual = cv
                        for i, a_ in enumerate(actual):
                            rp = root_path(a_)
                            if i < len(pds) and rp and who and rp[0] == who[0] and rp[-1] == 'state_':
                                if any(y['k'] == 'CXXMemberCallExpr' and method_name(y) in ('insert', 'emplace') and y.get('args') and (strip(y['args'][0]) or {}).get('d') == pds[i] for y in walk(hbody)):
                                    return True
                    return False
                if x['k'] != 'CXXMemberCallExpr' or method_name(x) not in ('insert', 'emplace') or not x.get('args'):
                    return False
                rp = root_path(x['args'][0])
                return bool(rp) and bool(who) and rp[0] == who[0] and rp[-1] == 'state_'
            def leaves(x, c=c):
                return x['k'] in ('GotoStmt', 'BreakStmt', 'ReturnStmt') or x is c
            pos = cfg.locate(cond)
            ok, w = must_pass_through(cfg, pos, leaves, records, start_after=True, edge_filter=edge) if pos else (False, None)   # start behind the test itself (the test is also the loop's next target)
            if ok:
                em.ok(c, unit.text(c, 50), 'the parent state of an enabled rule is recorded as reached before the loop is left or continues', 'fired')
            else:
                em.violation(c, unit.text(c, 50), 'after this test reports the rule as enabled (its waiting set is used up, it will never be reported again) control can reach line %d '
                             'without the rule\'s parent state having been entered into the reached set: if that state is the only reachable accepting one the result has no accepting state' % (unit.loc(w)[1] if w else 0), 'fired')


_run_counters = run


def run(unit, em):
    _run_counters(unit, em)
    run_waitset(unit, em)
    run_waitset_outer(unit, em)
    run_fired(unit, em)
