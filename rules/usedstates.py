"""USEDSTATES — GetUsedStates collects all three sources of states (C12).

C12: "GetUsedStates is exactly the set of states occurring in rules or the final set".  A state occurs
in a rule as its parent or as one of its children, so the returned set must receive three contributions
on the unconditional path of ExplicitTreeAutCore::GetUsedStates:
  parent    `t.GetParent()` of every rule, or `.first` of every entry of the state->cluster map
  children  every element of `t.GetChildren()` / of every stored tuple
  final     every element of the final-state set
A contribution is an insert into (or range-initialisation of) the returned local whose argument derives,
through range-for variables, from the corresponding source.  Exactness in the other direction (nothing
else is inserted) is the fourth obligation: every insert must be classified as one of the three."""
from vfacts import strip, walk, is_node, method_name
from .prov import var_table

RULE = 'USEDSTATES'
FLOOR = 4
ANCHORS = ['ExplicitTreeAutCore::GetUsedStates', 'ExplicitTreeAutCore::BuildStateIndex']


def sources(unit, fn, e, vt, depth=0, seen=None):
    """names of accessors / fields / element types an expression derives from (through range-for variables and locals)"""
    out = set()
    seen = seen if seen is not None else set()
    if not is_node(e) or depth > 6:
        return out
    for n in walk(e):
        k = n['k']
        if k in ('CXXMemberCallExpr',):
            out.add('call:' + (method_name(n) or ''))
        elif k == 'MemberExpr':
            out.add('member:' + (n.get('n') or ''))
            o = strip((n.get('ch') or [None])[0]) if n.get('ch') else strip(n.get('obj'))
            if n.get('n') == 'first' and o is not None:
                out.add('firstof:' + unit.ty(o).replace('const ', ''))
        elif k == 'DeclRefExpr' and n.get('d') in vt and n['d'] not in seen:
            seen.add(n['d'])
            v = vt[n['d']]
            if v['kind'] == 'rangevar':
                rng = v['node'].get('range')
                out.add('elemof:' + unit.ty(strip(rng) or rng).replace('const ', ''))
                out |= sources(unit, fn, rng, vt, depth + 1, seen)
            elif v['kind'] == 'local' and is_node(v['decl'].get('init')):
                out |= sources(unit, fn, v['decl']['init'], vt, depth + 1, seen)
    return out


def classify(src):
    roles = set()
    for s in src:
        if s in ('call:GetParent',) or (s.startswith('firstof:') and 'TransitionCluster' in s):
            roles.add('parent')
        if s in ('call:GetChildren', 'call:children') or (s.startswith('elemof:') and ('std::vector<unsigned long' in s)):
            roles.add('children')
        if s in ('call:GetFinalStates', 'member:finalStates_'):
            roles.add('final')
    return roles


def run_index(unit, fn, em, vt):
    """BuildStateIndex numbers every state the automaton mentions: the index functor (first parameter) is applied,
    unconditionally, to rule parents, rule children and final states — a final state without rules that is not indexed
    gets its number only later (beyond the count handed to the simulation) or none at all"""
    if not fn.params:
        return
    idx = fn.params[0]['d']
    got = {}
    collect_index(unit, fn, idx, vt, em, got, 0)
    finish_index(fn, em, got)


def collect_index(unit, fn, idx, vt, em, got, depth):
    for n in fn.walk(lambdas=False):
        # the index functor handed on to a helper of the repository: what the helper indexes counts as well
        if depth < 2 and n['k'] in ('CallExpr', 'CXXMemberCallExpr') and n.get('inrepo') and n.get('cd') is not None:
            g = unit.by_decl.get(n['cd'])
            if g is not None and g.body is not None and g is not fn:
                for i, a in enumerate(n.get('args') or []):
                    sa = strip(a)
                    if sa is not None and sa['k'] == 'DeclRefExpr' and sa.get('d') == idx and i < len(g.params):
                        cond = False
                        p = n.get('_p')
                        while p is not None and p is not fn.body:
                            if p['k'] in ('IfStmt', 'ConditionalOperator', 'SwitchStmt'):
                                cond = True
                            p = p.get('_p')
                        sub = {}
                        collect_index(unit, g, g.params[i]['d'], var_table(g), em, sub, depth + 1)
                        if not cond:
                            for r, node in sub.items():
                                got.setdefault(r, n)
        if n['k'] == 'CXXOperatorCallExpr' and n.get('op') == '()' and n.get('args') and (strip(n['args'][0]) or {}).get('d') == idx and len(n['args']) > 1:
            roles = classify(sources(unit, fn, n['args'][1], vt))
            cond = False
            p = n.get('_p')
            while p is not None and p is not fn.body:
                if p['k'] in ('IfStmt', 'ConditionalOperator', 'SwitchStmt'):
                    cond = True
                p = p.get('_p')
            txt = unit.text(n, 60)
            if not roles:
                em.unknown(n, txt, 'source of the indexed value not classified', 'index')
                continue
            for r in roles:
                if not cond:
                    got.setdefault(r, n)
            em.ok(n, txt, 'indexes ' + '/'.join(sorted(roles)), 'index')


def finish_index(fn, em, got):
    for r, why in (('parent', 'a state that only occurs as the parent of rules is not numbered'),
                   ('children', 'a state that only occurs as a child is not numbered'),
                   ('final', 'a final state without rules is not numbered: the state count handed to the simulation is too small and the state is translated late or not at all')):
        if r in got:
            em.ok(got[r], 'BuildStateIndex: ' + r, 'every %s state is indexed' % r, 'index-' + r)
        else:
            em.violation(fn, 'BuildStateIndex: ' + r, 'the index functor is never applied unconditionally to the %s states: %s' % (r, why), 'index-' + r)


def run(unit, em):
    for fn in unit.functions:
        short = fn.q.replace('VATA::', '')
        if short not in ANCHORS or fn.body is None:
            continue
        em.anchor(fn, short)
        vt = var_table(fn)
        if short.endswith('BuildStateIndex'):
            run_index(unit, fn, em, vt)
            continue
        rets = [n for n in fn.walk(lambdas=False) if n['k'] == 'ReturnStmt']
        resd = None
        for r in rets:
            for n in walk(r):
                if n['k'] == 'DeclRefExpr' and n.get('d') in vt and vt[n['d']]['kind'] == 'local':
                    resd = n['d']
        if resd is None:
            em.unknown(fn, short, 'returned local not found', 'shape')
            continue
        got = {}
        contribs = []
        init = vt[resd]['decl'].get('init')
        if is_node(init):
            si = strip(init)
            if si is not None and si.get('args'):
                contribs.append((vt[resd]['node'], si['args']))
        for n in fn.walk(lambdas=False):
            if n['k'] == 'CXXMemberCallExpr' and method_name(n) in ('insert', 'emplace') and (strip(n.get('obj')) or {}).get('d') == resd:
                contribs.append((n, n.get('args') or []))
        cfg = fn.cfg()
        for node, args in contribs:
            src = set()
            for a in args:
                src |= sources(unit, fn, a, vt)
            roles = classify(src)
            txt = unit.text(node, 70)
            if not roles:
                em.violation(node, txt, 'this insert is neither a rule parent, a rule child nor a final state: GetUsedStates would report a state that is not used', 'exact')
                continue
            # a contribution under an if is partial
            p = node.get('_p')
            cond = False
            while p is not None and p is not fn.body:
                if p['k'] in ('IfStmt', 'ConditionalOperator', 'SwitchStmt'):
                    cond = True
                p = p.get('_p')
            for r in roles:
                if not cond:
                    got.setdefault(r, node)
            em.ok(node, txt, 'contributes ' + '/'.join(sorted(roles)) + (' (conditionally)' if cond else ''), 'exact')
        for r, why in (('parent', 'a state that only occurs as the parent of rules is missing'),
                       ('children', 'a state that only occurs as a child is missing'),
                       ('final', 'a final state without rules is missing')):
            if r in got:
                em.ok(got[r], 'GetUsedStates: ' + r, 'every %s state is inserted' % r, r)
            else:
                em.violation(fn, 'GetUsedStates: ' + r, 'no unconditional insert of the %s states into the returned set: %s' % (r, why), r)
