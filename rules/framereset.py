"""FRAMERESET — a recycled emulated-call frame starts empty (C01, C20).

The non-recursive downward inclusion emulates recursion with ExpandCallEmulator::push/pop over frames
from a CachingAllocator that does not re-initialise recycled objects; push() *swaps* the container
fields of `top` with the recycled frame's, so after a push `top` holds stale containers of an earlier
call at that depth. Instance: every (push call site in a function, container field swapped by
push()). Obligation: on every CFG path from the push to the first use of top.<field>, the field is
reset (clear() / init(..) / assignment). A stale childrenCache makes `contains` answer from facts that
were only valid under another call's assumptions."""
from vfacts import strip, walk, method_name, root_path, must_pass_through, is_node

RULE = 'FRAMERESET'
FLOOR = 2
ANCHORS = ['ExpandCallEmulator::push']
RESET = {'clear', 'init', 'assign', 'reset', 'operator='}


def swapped_fields(unit, push_fn):
    """fields F with std::swap(newFrame->F, top.F) in push(top)"""
    top = push_fn.params[0]['d'] if push_fn.params else None
    out = []
    for c in push_fn.calls():
        if c.get('q') == 'std::swap' and len(c.get('args', [])) == 2:
            a, b = strip(c['args'][0]), strip(c['args'][1])
            for x, y in ((a, b), (b, a)):
                if x is not None and y is not None and x['k'] == 'MemberExpr' and y['k'] == 'MemberExpr' and x['n'] == y['n']:
                    yb = strip((y.get('ch') or [None])[0])
                    if yb is not None and yb.get('d') == top:
                        if x['n'] not in out:
                            out.append(x['n'])
    return out


def run(unit, em):
    push = None
    for fn in unit.functions:
        if fn.q.replace('VATA::', '').endswith('ExpandCallEmulator::push'):
            push = fn
            em.anchor(fn, 'ExpandCallEmulator::push')
    if push is None:
        return
    fields = swapped_fields(unit, push)
    if not fields:
        em.unknown(push, 'ExpandCallEmulator::push', 'no swapped container fields found')
        return
    for fn in unit.functions:
        if fn.body is None or fn is push:
            continue
        sites = [c for c in fn.calls() if c.get('cd') == push.d['d']]
        if not sites:
            continue
        cfg = fn.cfg()
        # emulated return address: the scalar local switched on by a switch whose cases are all gotos
        track = None
        for n in fn.walk(lambdas=False):
            if n['k'] == 'SwitchStmt':
                c = strip(n['c'])
                cases = [x for x in walk(n['body'], lambdas=False) if x['k'] == 'CaseStmt']
                if c is not None and c['k'] == 'DeclRefExpr' and c.get('dk') == 'local' and cases and all((x.get('sub') or {}).get('k') == 'GotoStmt' for x in cases):
                    track = c['d']
        for site in sites:
            topv = strip(site['args'][0]) if site.get('args') else None
            if topv is None or topv['k'] != 'DeclRefExpr' or cfg is None:
                em.unknown(site, unit.text(site, 60), 'frame variable / CFG not resolved')
                continue
            pos = cfg.locate(site)
            for F in fields:
                def on_field(n):
                    if n['k'] != 'MemberExpr' or n['n'] != F:
                        return False
                    b = strip((n.get('ch') or [None])[0])
                    return b is not None and b.get('d') == topv['d']

                def is_reset(n):
                    if n['k'] == 'CXXMemberCallExpr' and method_name(n) in RESET and is_node(n.get('obj')) and on_field(strip(n['obj']) or {}):
                        return True
                    if n['k'] == 'CXXOperatorCallExpr' and n.get('op') == '=' and n.get('args') and on_field(strip(n['args'][0]) or {}):
                        return True
                    # pop(top) swaps the caller's own containers back in: what follows is the caller's frame
                    if n['k'] == 'CXXMemberCallExpr' and method_name(n) == 'pop' and (n.get('q') or '').endswith('ExpandCallEmulator::pop'):
                        return True
                    return passes_to_resetter(n)

                def resets_param_first(call, argidx):
                    """callee (if its body is in this unit) clears/assigns parameter #argidx before any other use"""
                    cal = unit.by_decl.get(call.get('cd'))
                    if cal is None or cal.body is None or argidx >= len(cal.params):
                        return None
                    pd = cal.params[argidx]['d']
                    ccfg = cal.cfg()
                    if ccfg is None:
                        return None

                    def p_reset(x):
                        if x['k'] == 'CXXMemberCallExpr' and method_name(x) in RESET and (strip(x.get('obj')) or {}).get('d') == pd:
                            return True
                        return x['k'] == 'CXXOperatorCallExpr' and x.get('op') == '=' and x.get('args') and (strip(x['args'][0]) or {}).get('d') == pd

                    def p_use(x):
                        if x['k'] != 'DeclRefExpr' or x.get('d') != pd:
                            return False
                        par = x.get('_p')
                        while par is not None and par['k'] in ('ImplicitCastExpr', 'ParenExpr'):
                            par = par.get('_p')
                        return not (par is not None and p_reset(par))
                    ok_, _ = must_pass_through(ccfg, (ccfg.entry, 0), p_use, p_reset, start_after=False)
                    return ok_

                def passes_to_resetter(n):
                    if n['k'] not in ('CallExpr', 'CXXMemberCallExpr') or n.get('q') == 'std::swap':
                        return False
                    pk = n.get('pk', '')
                    for i, a_ in enumerate(n.get('args', [])):
                        if on_field(strip(a_) or {}) and i < len(pk) and pk[i] == 'r':
                            r_ = resets_param_first(n, i)
                            if r_ is True or r_ is None:
                                return True   # resets it first, or body not visible here (potential reset: never reported)
                    return False

                def is_use(n):
                    # a member call on top.F that is not a reset; CFG lists the MemberExpr before the call,
                    # so look at calls whose receiver is the field
                    if n['k'] == 'CXXMemberCallExpr' and is_node(n.get('obj')) and on_field(strip(n['obj']) or {}):
                        return method_name(n) not in RESET
                    if n['k'] == 'CXXOperatorCallExpr' and n.get('args') and on_field(strip(n['args'][0]) or {}):
                        return n.get('op') != '='
                    if n['k'] == 'CallExpr' and n.get('q') != 'std::swap':
                        return any(on_field(strip(a) or {}) for a in n.get('args', []))
                    return False
                ok, wit = must_pass_through(cfg, pos, is_use, is_reset, track=track)
                name = 'top.%s after %s' % (F, unit.text(site, 40))
                if ok:
                    em.ok(site, name, 'reset on every path before its first use')
                else:
                    f, line, _ = unit.loc(wit)
                    em.violation(site, name, 'the recycled frame\'s %s can be used at line %d (%s) without having been cleared since the push: it still holds entries of an earlier emulated call' % (F, line, unit.text(wit, 50)))
