"""FRAMERESET — a recycled emulated-call frame starts empty (C01, C20).

The non-recursive downward inclusion emulates recursion with ExpandCallEmulator::push/pop over frames
from a CachingAllocator that does not re-initialise recycled objects; push() *swaps* the container
fields of `top` with the recycled frame's, so after a push `top` holds stale containers of an earlier
call at that depth. Instance: every (push call site in a function, container field swapped by
push()). Obligation: on every CFG path from the push to the first use of top.<field>, the field is
reset (clear() / init(..) / assignment). A stale childrenCache makes `contains` answer from facts that
were only valid under another call's assumptions."""
from vfacts import strip, walk, method_name, root_path, must_pass_through, is_node

RULE = 'FRAMERESET'
FLOOR = 2
ANCHORS = ['ExpandCallEmulator::push']
RESET = {'clear', 'init', 'assign', 'reset', 'operator='}


def swapped_fields(unit, push_fn, top=None, depth=0):
    """fields F with std::swap(newFrame->F, top.F) in push(top), directly or in a helper that push hands `top` to"""
    if top is None:
        top = push_fn.params[0]['d'] if push_fn.params else None
    out = []
    if depth < 2:
        for c in push_fn.calls():
            if c.get('q') == 'std::swap' or not c.get('inrepo'):
                continue
            g = unit.by_decl.get(c.get('cd'))
            if g is None or g.body is None or g is push_fn:
                continue
            for i, a in enumerate(c.get('args') or []):
                sa = strip(a)
                if sa is not None and sa['k'] == 'DeclRefExpr' and sa.get('d') == top and i < len(g.params):
                    for f in swapped_fields(unit, g, g.params[i]['d'], depth + 1):
                        if f not in out:
                            out.append(f)
    for c in push_fn.calls():
        if c.get('q') == 'std::swap' and len(c.get('args', [])) == 2:
            a, b = strip(c['args'][0]), strip(c['args'][1])
            for x, y in ((a, b), (b, a)):
                if x is not None and y is not None and x['k'] == 'MemberExpr' and y['k'] == 'MemberExpr' and x['n'] == y['n']:
                    yb = strip((y.get('ch') or [None])[0])
                    if yb is not None and yb.get('d') == top:
                        if x['n'] not in out:
                            out.append(x['n'])
    return out


def run(unit, em):
    push = None
    for fn in unit.functions:
        if fn.q.replace('VATA::', '').endswith('ExpandCallEmulator::push'):
            push = fn
            em.anchor(fn, 'ExpandCallEmulator::push')
    if push is None:
        return
    fields = swapped_fields(unit, push)
    if not fields:
        em.unknown(push, 'ExpandCallEmulator::push', 'no swapped container fields found')
        return
    for fn in unit.functions:
        if fn.body is None or fn is push:
            continue
        sites = [c for c in fn.calls() if c.get('cd') == push.d['d']]
        if not sites:
            continue
        cfg = fn.cfg()
        # emulated return address: the scalar local switched on by a switch whose cases are all gotos
        track = None
        for n in fn.walk(lambdas=False):
            if n['k'] == 'SwitchStmt':
                c = strip(n['c'])
                cases = [x for x in walk(n['body'], lambdas=False) if x['k'] == 'CaseStmt']
                if c is not None and c['k'] == 'DeclRefExpr' and c.get('dk') == 'local' and cases and all((x.get('sub') or {}).get('k') == 'GotoStmt' for x in cases):
                    track = c['d']
        for site in sites:
            topv = strip(site['args'][0]) if site.get('args') else None
            if topv is None or topv['k'] != 'DeclRefExpr' or cfg is None:
                em.unknown(site, unit.text(site, 60), 'frame variable / CFG not resolved')
                continue
            pos = cfg.locate(site)
            for F in fields:
                def on_field(n):
                    if n['k'] != 'MemberExpr' or n['n'] != F:
                        return False
                    b = strip((n.get('ch') or [None])[0])
                    return b is not None and b.get('d') == topv['d']

                def is_reset_plain(n):
                    if n['k'] == 'CXXMemberCallExpr' and method_name(n) in RESET and is_node(n.get('obj')) and on_field(strip(n['obj']) or {}):
                        return True
                    return n['k'] == 'CXXOperatorCallExpr' and n.get('op') == '=' and bool(n.get('args')) and on_field(strip(n['args'][0]) or {})

                def is_use_plain(n):
                    if n['k'] == 'CXXMemberCallExpr' and is_node(n.get('obj')) and on_field(strip(n['obj']) or {}):
                        return method_name(n) not in RESET
                    if n['k'] == 'CXXOperatorCallExpr' and n.get('args') and on_field(strip(n['args'][0]) or {}):
                        return n.get('op') != '='
                    return False

                def is_reset(n):
                    if n['k'] == 'CXXMemberCallExpr' and method_name(n) in RESET and is_node(n.get('obj')) and on_field(strip(n['obj']) or {}):
                        return True
                    if n['k'] == 'CXXOperatorCallExpr' and n.get('op') == '=' and n.get('args') and on_field(strip(n['args'][0]) or {}):
                        return True
                    # pop(top) swaps the caller's own containers back in: what follows is the caller's frame
                    if n['k'] == 'CXXMemberCallExpr' and method_name(n) == 'pop' and (n.get('q') or '').endswith('ExpandCallEmulator::pop'):
                        return True
                    return passes_to_resetter(n)

                def resets_param_first(call, argidx):
                    """callee (if its body is in this unit) clears/assigns parameter #argidx before any other use"""
                    cal = unit.by_decl.get(call.get('cd'))
                    if cal is None or cal.body is None or argidx >= len(cal.params):
                        return None
                    pd = cal.params[argidx]['d']
                    ccfg = cal.cfg()
                    if ccfg is None:
                        return None

                    def p_reset(x):
                        if x['k'] == 'CXXMemberCallExpr' and method_name(x) in RESET and (strip(x.get('obj')) or {}).get('d') == pd:
                            return True
                        return x['k'] == 'CXXOperatorCallExpr' and x.get('op') == '=' and x.get('args') and (strip(x['args'][0]) or {}).get('d') == pd

                    def p_use(x):
                        if x['k'] != 'DeclRefExpr' or x.get('d') != pd:
                            return False
                        par = x.get('_p')
                        while par is not None and par['k'] in ('ImplicitCastExpr', 'ParenExpr'):
                            par = par.get('_p')
                        return not (par is not None and p_reset(par))
                    ok_, _ = must_pass_through(ccfg, (ccfg.entry, 0), p_use, p_reset, start_after=False)
                    return ok_

                def passes_to_resetter(n):
                    if n['k'] == 'CXXOperatorCallExpr' and n.get('op') == '()':
                        # a local lambda that captured the frame by reference and empties the field before it uses it
                        from .prov import callee_view
                        cv = callee_view(unit, fn, n)
                        if cv and cv[2] is not None:
                            lcfg = cv[2]
                            ok_, _ = must_pass_through(lcfg, (lcfg.entry, 0), is_use_plain, is_reset_plain, start_after=False)
                            touched = any(on_field(x) for x in walk(cv[1]) if x['k'] == 'MemberExpr')
                            if ok_ and touched:
                                return True
                            # the field handed to the lambda by reference: does the lambda empty that parameter first?
                            for i_, a_ in enumerate(cv[3]):
                                if on_field(strip(a_) or {}) and i_ < len(cv[0]):
                                    pd_ = cv[0][i_]

                                    def lp_reset(x, pd_=pd_):
                                        if x['k'] == 'CXXMemberCallExpr' and method_name(x) in RESET and (strip(x.get('obj')) or {}).get('d') == pd_:
                                            return True
                                        return x['k'] == 'CXXOperatorCallExpr' and x.get('op') == '=' and bool(x.get('args')) and (strip(x['args'][0]) or {}).get('d') == pd_

                                    def lp_use(x, pd_=pd_):
                                        if x['k'] != 'DeclRefExpr' or x.get('d') != pd_:
                                            return False
                                        par = x.get('_p')
                                        while par is not None and par['k'] in ('ImplicitCastExpr', 'ParenExpr'):
                                            par = par.get('_p')
                                        return not (par is not None and lp_reset(par))
                                    if must_pass_through(lcfg, (lcfg.entry, 0), lp_use, lp_reset, start_after=False)[0]:
                                        return True
                        return False
                    if n['k'] not in ('CallExpr', 'CXXMemberCallExpr') or n.get('q') == 'std::swap':
                        return False
                    pk = n.get('pk', '')
                    for i, a_ in enumerate(n.get('args', [])):
                        if on_field(strip(a_) or {}) and i < len(pk) and pk[i] == 'r':
                            r_ = resets_param_first(n, i)
                            if r_ is True or r_ is None:
                                return True   # resets it first, or body not visible here (potential reset: never reported)
                    return False

                def is_use(n):
                    # a member call on top.F that is not a reset; CFG lists the MemberExpr before the call,
                    # so look at calls whose receiver is the field
                    if n['k'] == 'CXXMemberCallExpr' and is_node(n.get('obj')) and on_field(strip(n['obj']) or {}):
                        return method_name(n) not in RESET
                    if n['k'] == 'CXXOperatorCallExpr' and n.get('args') and on_field(strip(n['args'][0]) or {}):
                        return n.get('op') != '='
                    if n['k'] == 'CallExpr' and n.get('q') != 'std::swap':
                        return any(on_field(strip(a) or {}) for a in n.get('args', []))
                    return False
                ok, wit = must_pass_through(cfg, pos, is_use, is_reset, track=track)
                name = 'top.%s after %s' % (F, unit.text(site, 40))
                if ok:
                    em.ok(site, name, 'reset on every path before its first use')
                else:
                    f, line, _ = unit.loc(wit)
                    em.violation(site, name, 'the recycled frame\'s %s can be used at line %d (%s) without having been cleared since the push: it still holds entries of an earlier emulated call' % (F, line, unit.text(wit, 50)))


# ---- clause `register`: the argument registers of the emulated calls are not read stale in the frame's own loop
def run_registers(unit, em):
    """Registers = locals that the return sequence restores from the frame right before `pop(top)` (`S = top.P_B; r_i =
    top.p_S;`): between calls they hold the arguments of the *last* emulated call, not the data of the current frame (that
    is `top.<field>`).  Instance: every read of a register inside the outermost loop of the frame code.  Obligation: on
    every path from the start of an iteration of that loop to the read the register is assigned (it is the argument being
    prepared for, or just used by, a call of this iteration).  A read that an iteration can reach without any assignment
    sees whatever the last call of an earlier iteration left there (seed C19-6: the leaf test iterated `S` instead of
    `top.P_B`; the verdict then depends on the order in which the symbols are visited)."""
    for fn in unit.functions:
        if fn.body is None:
            continue
        pops = [c for c in fn.calls() if c['k'] == 'CXXMemberCallExpr' and method_name(c) == 'pop' and (c.get('q') or '').endswith('ExpandCallEmulator::pop')]
        if not pops:
            continue
        regs = {}
        for pcall in pops:
            topv = strip(pcall['args'][0]) if pcall.get('args') else None
            par = pcall.get('_p')
            while par is not None and par['k'] != 'CompoundStmt':
                par = par.get('_p')
            if par is None or topv is None:
                continue
            for s in par.get('ch', []):
                if any(x is pcall for x in walk(s)):
                    break
                a = strip(s)
                if a is not None and a['k'] in ('BinaryOperator', 'CXXOperatorCallExpr') and a.get('op') == '=':
                    ops = a.get('ch') if a['k'] == 'BinaryOperator' else a.get('args')
                    l, r = strip(ops[0]), strip(ops[1])
                    if l is not None and l['k'] == 'DeclRefExpr' and l.get('dk') == 'local' and r is not None and r['k'] == 'MemberExpr':
                        rb = strip((r.get('ch') or [None])[0])
                        if rb is not None and rb.get('d') == topv.get('d') and 'retAddr' not in (l.get('n') or '') and unit.ty(l).strip() not in ('unsigned char', 'int', 'unsigned int'):
                            regs[l['d']] = l.get('n')
        if not regs:
            continue
        cfg = fn.cfg()
        if cfg is None:
            continue
        loops = [n for n in fn.walk(lambdas=False) if n['k'] in ('ForStmt', 'WhileStmt', 'DoStmt', 'CXXForRangeStmt')]
        outer = [L for L in loops if not any(L is not M and any(x is L for x in walk(M)) for M in loops)]
        outer = [L for L in outer if any(any(x is p_ for x in walk(L)) for p_ in pops)]
        if not outer:
            continue
        L = outer[0]
        body = L['body']
        first = None
        for m in walk(body):
            if m is not body and cfg.locate(m) is not None:
                first = m
                break
        if first is None:
            continue
        for d, name in regs.items():
            def is_def(n, d=d):
                if n['k'] in ('BinaryOperator', 'CXXOperatorCallExpr') and n.get('op') == '=':
                    ops = n.get('ch') if n['k'] == 'BinaryOperator' else n.get('args')
                    return ops and (strip(ops[0]) or {}).get('d') == d
                return False
            reads = []
            for n in walk(body, lambdas=False):
                if n['k'] == 'DeclRefExpr' and n.get('d') == d:
                    p = n.get('_p')
                    while p is not None and p['k'] in ('ImplicitCastExpr', 'ParenExpr'):
                        p = p.get('_p')
                    if p is not None and is_def(p) and strip((p.get('ch') or p.get('args'))[0]) is n:
                        continue
                    reads.append(n)
            for r in reads:
                rid = id(r)
                ok, _ = must_pass_through(cfg, cfg.locate(first), lambda n: id(n) == rid, is_def, start_after=False)
                txt = '%s read at line %d' % (name, unit.loc(r)[1])
                if ok:
                    em.ok(r, txt, 'assigned earlier in the same iteration of the frame loop', 'register')
                else:
                    em.violation(r, txt, 'the argument register `%s` is read here although an iteration of the frame loop can reach this point without assigning it: it then still holds the argument of the last emulated call of an earlier iteration, not the data of this frame (use the frame field restored into it by the return sequence)' % name, 'register')


# ---- clause `restore`: a register that is live across an emulated call is restored from the frame by every return sequence
def run_restore(unit, em):
    """Callee-saved registers = locals R saved into the frame right after `push(top)` (`top.F = R`).  The callee overwrites
    them for its own sub-calls.  If some emulated return point (a label the return switch jumps to) can reach a read of R
    without an assignment to R, then R is live across the call and every return sequence must put the caller's value back
    (`R = top.F`) before `pop(top)` hands the frame back.  Otherwise the caller continues with the argument of the callee's
    last sub-call (seed C01-9: the sub-check result was memoised under a stale state)."""
    for fn in unit.functions:
        if fn.body is None:
            continue
        pushes = [c for c in fn.calls() if c['k'] == 'CXXMemberCallExpr' and (c.get('q') or '').endswith('ExpandCallEmulator::push')]
        pops = [c for c in fn.calls() if c['k'] == 'CXXMemberCallExpr' and (c.get('q') or '').endswith('ExpandCallEmulator::pop')]
        if not pushes or not pops:
            continue
        cfg = fn.cfg()
        if cfg is None:
            continue

        def block_of(call):
            par, cur = call.get('_p'), call
            while par is not None and par['k'] != 'CompoundStmt':
                cur, par = par, par.get('_p')
            return par, cur

        def assign(sn):
            a = strip(sn)
            if a is not None and a['k'] in ('BinaryOperator', 'CXXOperatorCallExpr') and a.get('op') == '=':
                ops = a.get('ch') if a['k'] == 'BinaryOperator' else a.get('args')
                if ops and len(ops) == 2:
                    return strip(ops[0]), strip(ops[1])
            return None
        saved = {}      # register decl -> (name, frame field)
        for pc in pushes:
            topd = (strip(pc['args'][0]) or {}).get('d') if pc.get('args') else None
            blk, stmt = block_of(pc)
            if blk is None or topd is None:
                continue
            after = False
            for sn in blk.get('ch', []):
                if sn is stmt:
                    after = True
                    continue
                if not after:
                    continue
                lr = assign(sn)
                if not lr:
                    continue
                l, r = lr
                if l is not None and l['k'] == 'MemberExpr' and (strip((l.get('ch') or [None])[0]) or {}).get('d') == topd and r is not None and r['k'] == 'DeclRefExpr' and r.get('dk') == 'local':
                    saved[r['d']] = (r.get('n'), l.get('n'))
        if not saved:
            continue
        # emulated return points: labels targeted from a switch
        ret_labels = set()
        for sw in fn.walk(lambdas=False):
            if sw['k'] == 'SwitchStmt':
                for g in walk(sw):
                    if g['k'] == 'GotoStmt':
                        ret_labels.add(g.get('d'))
        labels = [n for n in fn.walk(lambdas=False) if n['k'] == 'LabelStmt' and n.get('d') in ret_labels]
        for d, (name, field) in sorted(saved.items()):
            def is_def(n, d=d):
                lr = assign(n) if n['k'] in ('BinaryOperator', 'CXXOperatorCallExpr') else None
                return bool(lr) and lr[0] is not None and lr[0].get('d') == d and lr[0]['k'] == 'DeclRefExpr'

            def is_read(n, d=d):
                if n['k'] != 'DeclRefExpr' or n.get('d') != d:
                    return False
                p = n.get('_p')
                while p is not None and p['k'] in ('ImplicitCastExpr', 'ParenExpr'):
                    p = p.get('_p')
                if p is not None and p['k'] in ('BinaryOperator', 'CXXOperatorCallExpr') and p.get('op') == '=':
                    ops = p.get('ch') if p['k'] == 'BinaryOperator' else p.get('args')
                    if ops and strip(ops[0]) is n:
                        return False
                return True
            live_at = None
            for lab in labels:
                inner = (lab.get('ch') or [None])[0] if lab.get('ch') else lab.get('sub')
                pos = cfg.locate(lab) or (cfg.locate(inner) if is_node(inner) else None)
                if pos is None:
                    # the label itself is no CFG element: start at the first located node below it
                    for m in walk(lab):
                        if m is not lab and cfg.locate(m) is not None:
                            pos = cfg.locate(m)
                            break
                if pos is None:
                    continue
                ok, w = must_pass_through(cfg, pos, is_read, is_def, start_after=False)
                if not ok:
                    live_at = (lab, w)
                    break
            for pc in pops:
                topd = (strip(pc['args'][0]) or {}).get('d') if pc.get('args') else None
                blk, stmt = block_of(pc)
                if blk is None:
                    continue
                restored = False
                for sn in blk.get('ch', []):
                    if sn is stmt:
                        break
                    lr = assign(sn)
                    if lr and lr[0] is not None and lr[0].get('d') == d and lr[1] is not None and lr[1]['k'] == 'MemberExpr' and lr[1].get('n') == field and \
                            (strip((lr[1].get('ch') or [None])[0]) or {}).get('d') == topd:
                        restored = True
                txt = 'return sequence at line %d: register %s' % (unit.loc(pc)[1], name)
                if restored:
                    em.ok(pc, txt, 'restored from top.%s before the frame is popped' % field, 'restore')
                elif live_at is None:
                    em.ok(pc, txt, 'not restored, and no return point reads it before assigning it', 'restore')
                else:
                    em.violation(pc, txt, '`%s` is saved into the frame at the emulated call (top.%s = %s) and the callee overwrites it for its own sub-calls; after the return point `%s` it is read at line %d '
                                 'without having been assigned, but this return sequence pops the frame without `%s = top.%s`: the caller continues with the argument of the callee\'s last sub-call' % (
                                     name, field, name, live_at[0].get('n'), unit.loc(live_at[1])[1] if live_at[1] else 0, name, field), 'restore')


_run_frames = run


def run(unit, em):
    _run_frames(unit, em)
    run_registers(unit, em)
    run_restore(unit, em)
