"""TRANSLALL — every rule of the automaton is encoded in the LTS the simulation is computed on (C04, C05, C19).

`TranslateDownward` / `TranslateUpward` walk the rule store and call `addTransition` on the LTS under construction.  The
simulation of the LTS is the simulation of the automaton only if *every* rule (and every position of every rule) contributed its
edges.  Instance: every innermost loop of a `Translate*` function whose body adds a transition.  Obligation: on every path
through one iteration of that loop an `addTransition` on the result is executed — no `continue`, no branch that leaves an
element without its edge (seed C05-9: unary self-loop rules `a(q) -> q` skipped "because they relate a state to itself"; a
state with such a loop then simulates and is simulated by a state without it, and Reduce merges them)."""
from vfacts import strip, walk, is_node, method_name, must_pass_through, enclosing

RULE = 'TRANSLALL'
FLOOR = 3
ANCHORS = ['ExplicitTreeAutCore::TranslateDownward', 'ExplicitTreeAutCore::TranslateUpward']
LOOPS = ('ForStmt', 'WhileStmt', 'DoStmt', 'CXXForRangeStmt')


def run(unit, em):
    for fn in unit.functions:
        short = fn.q.replace('VATA::', '').split('<')[0]
        if fn.body is None or not short.split('::')[-1].startswith('Translate') or 'transl' not in fn.file:
            continue
        if short in ANCHORS:
            em.anchor(fn, short)
        cfg = fn.cfg()
        if cfg is None:
            continue
        adds = [c for c in fn.calls(lambdas=False) if c['k'] == 'CXXMemberCallExpr' and method_name(c) == 'addTransition' and 'ExplicitLTS' in (c.get('q') or '')]
        loops = {}
        for a in adds:
            L = enclosing(a, LOOPS)
            if L is not None:
                loops.setdefault(id(L), (L, []))[1].append(a)
        for L, la in loops.values():
            body = L.get('body')
            first = None
            for m_ in walk(body):
                if m_ is not body and cfg.locate(m_) is not None:
                    first = m_
                    break
            nxt = L.get('inc') if is_node(L.get('inc')) else L.get('c')
            if first is None or not is_node(nxt):
                em.unknown(L, 'loop at line %d' % unit.loc(L)[1], 'loop shape not resolved')
                continue
            nxt_ids = {id(x) for x in walk(nxt)}
            # a nested loop that adds transitions is taken to run at least once (a tuple of the case it handles has positions)
            inner_ids = set()
            for L2 in walk(body):
                if L2['k'] in LOOPS and L2 is not L and any(any(x is a for x in walk(L2)) for a in adds):
                    for part in (L2.get('c'), L2.get('range')):
                        if is_node(part):
                            inner_ids |= {id(x) for x in walk(part)}
            ok, w = must_pass_through(cfg, cfg.locate(first), lambda n: id(n) in nxt_ids, lambda n: any(n is a for a in la) or id(n) in inner_ids, start_after=False)
            var = (L.get('var') or {}).get('n') or 'element'
            txt = 'loop over %s at line %d' % (var, unit.loc(L)[1])
            if ok:
                em.ok(L, txt, 'every iteration adds its transition to the LTS')
            else:
                em.violation(L, txt, 'an iteration of this loop can end without `addTransition`: the rule (or rule position) `%s` stands for is missing from the LTS, so the computed relation is the simulation '
                             'of a different automaton' % var)
