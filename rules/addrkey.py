"""ADDRKEY — an object whose address keys a memo table is the address-stable cached copy (C09).

The congruence functors memoise per macro-state in tables keyed by `const StateSet*`
(`usedRules_`, `visitedPairs_`, the product-state sets). Discovery: a function parameter P (non-const
reference) whose address `&P` is handed to such a table is *address-keyed*. Instance: every argument
bound to an address-keyed parameter at a call site, and every `&x` stored in a table directly.
Obligation: the object is a reference obtained from the macro-state cache (`cache_.insert(..)`, which
returns the stored copy) or an address-keyed parameter of the caller — never a by-value local or a
scratch parameter that is re-used for every worklist item (all items would then share one key)."""
from vfacts import strip, walk, method_name, is_node
from .prov import var_table, local_sources

RULE = 'ADDRKEY'
FLOOR = 3
TABLE_METHODS = {'contains', 'containsKey', 'add', 'insert'}


def addr_of_var(e):
    e = strip(e)
    if e is not None and e['k'] == 'UnaryOperator' and e.get('op') == '&':
        x = strip(e['ch'][0])
        if x is not None and x['k'] == 'DeclRefExpr':
            return x
    return None


def stable(unit, fn, x, keyed_params):
    """is the object named by DeclRefExpr x address-stable?"""
    v = var_table(fn).get(x.get('d'))
    if v is None:
        return None
    if v['kind'] == 'param':
        # the function stores a copy of this parameter in the macro-state cache: the parameter is the scratch original
        for c in fn.calls():
            if c['k'] == 'CXXMemberCallExpr' and method_name(c) == 'insert' and 'MacroStateCache' in (c.get('q') or ''):
                if any(y['k'] == 'DeclRefExpr' and y.get('d') == x['d'] for a in c.get('args', []) for y in walk(a)):
                    return False
        return True if x['d'] in keyed_params else None
    if v['kind'] == 'local' and v['decl'].get('ref'):
        for s in local_sources(fn, x['d']):
            ss = strip(s)
            if ss is not None and ss['k'] == 'CXXMemberCallExpr' and method_name(ss) == 'insert' and 'MacroStateCache' in (ss.get('q') or ''):
                return True
            if ss is not None and ss['k'] in ('UnaryOperator', 'CXXOperatorCallExpr') and ss.get('op') == '*':
                return True   # dereferenced stored pointer (e.g. *pair.first popped from the product set)
        return None
    if v['kind'] == 'local':
        return False
    return None


def run(unit, em):
    fns = [f for f in unit.functions if f.body is not None and f.cls and 'ExplicitFACongr' in f.cls]
    if not fns:
        return
    # address-keyed parameters: decl id of function -> set of param indices
    keyed = {}
    changed = True
    while changed:
        changed = False
        for fn in fns:
            pidx = {p['d']: i for i, p in enumerate(fn.params)}
            mine = keyed.setdefault(fn.d['d'], set())
            for c in fn.calls():
                args = c.get('args', [])
                if c['k'] == 'CXXMemberCallExpr' and method_name(c) in TABLE_METHODS and 'MapToList' in (c.get('q') or ''):
                    for a in args:
                        x = addr_of_var(a)
                        if x is not None and x.get('d') in pidx and pidx[x['d']] not in mine:
                            mine.add(pidx[x['d']])
                            changed = True
                elif c.get('cd') in keyed:
                    for i in keyed[c['cd']]:
                        if i < len(args):
                            x = strip(args[i])
                            if x is not None and x['k'] == 'DeclRefExpr' and x.get('d') in pidx and pidx[x['d']] not in mine:
                                mine.add(pidx[x['d']])
                                changed = True
    for fn in fns:
        kp = {fn.params[i]['d'] for i in keyed.get(fn.d['d'], set()) if i < len(fn.params)}
        for c in fn.calls():
            if c.get('cd') not in keyed or not keyed[c['cd']]:
                continue
            args = c.get('args', [])
            for i in sorted(keyed[c['cd']]):
                if i >= len(args):
                    continue
                x = strip(args[i])
                if x is None or x['k'] != 'DeclRefExpr':
                    continue
                st = stable(unit, fn, x, kp)
                txt = '%s: argument %d (%s)' % (unit.text(c, 60), i + 1, x['n'])
                if st is True:
                    em.ok(c, txt, 'the cached copy of the macro-state (stable address)')
                elif st is False:
                    em.violation(c, txt, 'the callee keys its memo table by the address of this argument, but `%s` is a scratch object (by-value local or re-used parameter), not the copy stored in the macro-state cache: different macro-states share one key and results recorded for one are applied to all' % x['n'])
                else:
                    em.unknown(c, txt, 'stability of the argument not resolved')
