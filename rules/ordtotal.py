"""ORDTOTAL — the ordering of a worklist set distinguishes all distinct elements (C01, C09).

The `next` / `todo` sets of the inclusion algorithms are std::set<pair<state, macro-state handle>, less>.
std::set drops an element that is equivalent to a present one, so `less` must be a total order on
distinct pairs: besides any heuristic key (size of the macro-state) it must compare the state
component itself and the *identity* of the macro-state handle (pointer), not only quantities derived
from it. Instance: every in-repo binary `less::operator()` over a std::pair element type.
A forwarding comparator (calls another comparator on rebuilt pairs) is accepted as such."""
from vfacts import strip, walk, method_name

RULE = 'ORDTOTAL'
WITNESS = 'src/ordtotal.cc'
FLOOR = 2


def mentions(n, params, field):
    for x in walk(n):
        if x['k'] == 'MemberExpr' and x['n'] == field and x.get('ch'):
            b = strip(x['ch'][0])
            if b is not None and b.get('d') in params:
                return True
    return False


def run(unit, em):
    for fn in unit.functions:
        if fn.body is None or not fn.q.endswith('less::operator()') or len(fn.params) != 2 or fn.ret != 'bool':
            continue
        t = unit.tname(fn.params[0]['t']).replace('const ', '')
        if not t.startswith('std::pair<'):
            continue
        params = [p['d'] for p in fn.params]
        name = fn.q.replace('VATA::', '') + ' over ' + t[:60]
        # forwarding comparator?
        calls = [c for c in fn.calls() if c['k'] == 'CXXOperatorCallExpr' and c.get('op') == '()']
        if calls and not any(n['k'] == 'BinaryOperator' and n.get('op') in ('<', '>') for n in fn.walk()):
            em.ok(fn, name, 'forwards to another comparator')
            continue
        first_cmp = ident_cmp = False
        for n in fn.walk():
            ops = None
            if n['k'] == 'BinaryOperator' and n.get('op') in ('<', '>'):
                ops = n['ch']
            elif n['k'] == 'CXXOperatorCallExpr' and n.get('op') in ('<', '>') and len(n.get('args', [])) == 2:
                ops = n['args']
            if not ops:
                continue
            a, b = strip(ops[0]), strip(ops[1])
            if a is None or b is None:
                continue
            # state component compared directly
            if a['k'] == 'MemberExpr' and b['k'] == 'MemberExpr' and a['n'] == b['n'] == 'first' and mentions(a, params, 'first') and mentions(b, params, 'first'):
                first_cmp = True
            # identity of the handle: operands are pointers (or the handle objects themselves) built from .second
            ta = unit.ty(a).replace('const ', '').strip()
            if mentions(a, params, 'second') and mentions(b, params, 'second') and (ta.endswith('*') or (a['k'] == 'MemberExpr' and a['n'] == 'second')):
                ident_cmp = True
        if first_cmp and ident_cmp:
            em.ok(fn, name, 'compares the state component and the identity of the macro-state handle')
        else:
            missing = []
            if not first_cmp:
                missing.append('the state component (.first)')
            if not ident_cmp:
                missing.append('the identity of the macro-state handle (.second as a pointer)')
            em.violation(fn, name, 'the ordering never compares %s: two distinct pairs that agree on the compared keys are equivalent and the second one is silently dropped from the worklist' % ' and '.join(missing))


# ---- clause `lex`: a two-key ordering guards its second key by equality of the first
def run_lex(unit, em):
    from vfacts import is_node
    for fn in unit.functions:
        if fn.body is None or len(fn.params) != 2:
            continue
        nm = fn.q.rsplit('::', 1)[-1]
        if nm not in ('operator()', 'operator<') or unit.tname(fn.d.get('ret')) != 'bool':
            continue
        if unit.ty(fn.params[0]).replace('const ', '') != unit.ty(fn.params[1]).replace('const ', ''):
            continue
        if not ('/src/' in fn.file or '/include/' in fn.file):
            continue
        for r in fn.walk(lambdas=False):
            if r['k'] != 'ReturnStmt' or not (r.get('ch') or [None])[0]:
                continue
            e = strip(r['ch'][0])
            if e is None or e['k'] != 'BinaryOperator' or e.get('op') != '||':
                continue
            a, b = strip(e['ch'][0]), strip(e['ch'][1])

            def is_less(x):
                return x is not None and x['k'] in ('BinaryOperator', 'CXXOperatorCallExpr') and x.get('op') in ('<', '>')
            txt = unit.text(e, 80)
            if is_less(a) and is_less(b):
                em.violation(r, txt, 'a two-key ordering written as `k1(a) < k1(b) || k2(a) < k2(b)`: the second key is compared although the first keys differ, so for some a, b both a < b and b < a hold — not a strict weak order; a std::set / sort using it loses or duplicates elements', 'lex')
            elif is_less(a) and b is not None and b['k'] == 'BinaryOperator' and b.get('op') == '&&':
                em.ok(r, txt, 'second key guarded', 'lex')


_run_ord = run


def run(unit, em):
    _run_ord(unit, em)
    run_lex(unit, em)
