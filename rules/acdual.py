"""ACDUAL — antichain comparator duality (C01, C07, C09).

antichain2c_v2.hh: "The relation cmp needs to be complementary to the one used in refine()".
Instance: every contains()/refine() call on an Antichain2Cv2 / Antichain1C / OrderedAntichain2C object.
Per object (local, member or frame field) within its scope (function, or class for members):
  (1) all contains() calls use one (candidate-index, comparator) pair, all refine() calls another;
  (2) the two candidate indices differ (when candidates come from a preorder index / candidate
      producer) and the two comparators are swap duals of each other, established from their bodies
      (lambda/function/functor whose body is the other one with its two parameters exchanged);
  (3) across the scope the pairs form a bijection candidate-index <-> comparator;
  (4) a hand-written look-up (range-for over index.at(x) calling a comparator of the scope) uses a pair of that bijection.
Forwarding wrappers (contains/refine of a class that passes its own parameters on) are checked for
forwarding to the same-named operation. Frozen exception: OptDownwardInclusionFunctor::ant_ (used
only as a set of antecedents; contains and refine deliberately share arguments)."""
import re
from vfacts import strip, walk, method_name, root_path, is_node
from .prov import var_table

RULE = 'ACDUAL'
FLOOR = 30
ANCHORS = ['Antichain2Cv2::contains', 'Antichain2Cv2::refine']
EXCEPTIONS = {('OptDownwardInclusionFunctor', 'ant_'): 'set of antecedents: contains/refine share arguments by design'}
AC_CLASSES = ('Antichain2Cv2', 'Antichain1C', 'OrderedAntichain2C')


def ac_class(q):
    m = re.search(r'(Antichain2Cv2|Antichain1C|OrderedAntichain2C)::(contains|refine)$', q or '')
    return (m.group(1), m.group(2)) if m else None


def cand_root(unit, fn, e):
    e = strip(e)
    if e is None:
        return ('?',)
    if e['k'] == 'CXXMemberCallExpr' and method_name(e) == 'at':
        rp = root_path(e.get('obj'))
        return ('idx',) + (rp or ('?',))
    if e['k'] == 'CXXOperatorCallExpr' and e.get('op') == '[]':
        rp = root_path(e['args'][0])
        return ('idx',) + (rp or ('?',))
    if e['k'] == 'DeclRefExpr':
        v = var_table(fn).get(e.get('d'))
        if v and v['kind'] in ('param', 'lparam'):
            return ('param', e['n'])
        if v and v['kind'] == 'local':
            init = v['decl'].get('init')
            # filled by a producer through a non-const reference parameter?
            for c in fn.calls():
                args = c.get('args', [])
                for i, a in enumerate(args):
                    sa = strip(a)
                    if sa is not None and sa['k'] == 'DeclRefExpr' and sa.get('d') == e.get('d'):
                        pk = c.get('pk', '')
                        j = i - 1 if (c['k'] == 'CXXOperatorCallExpr' and c.get('memberop')) else i
                        if 0 <= j < len(pk) and pk[j] == 'r' and ac_class(c.get('q')) is None:
                            return ('prod', method_name(c))
            if is_node(init):
                return ('self',)
            return ('self',)
    return ('?', unit.text(e, 40))


def callable_body(unit, fn, e):
    """(params, return-expression, owner function) of a comparator expression, or None."""
    e = strip(e)
    if e is None:
        return None
    if e['k'] == 'LambdaExpr':
        return lambda_body(e)
    if e['k'] == 'DeclRefExpr':
        if e.get('dk') == 'func':
            f = unit.by_decl.get(e.get('d'))
            if f is not None:
                return func_body(f)
            return None
        v = var_table(fn).get(e.get('d'))
        if v and v['kind'] == 'local' and is_node(v['decl'].get('init')):
            i = strip(v['decl']['init'])
            if i is not None and i['k'] == 'LambdaExpr':
                return lambda_body(i)
    return None


def single_return(body):
    rets = [n for n in walk(body, lambdas=False) if n['k'] == 'ReturnStmt']
    if len(rets) != 1:
        return None
    ch = rets[0].get('ch') or []
    return ch[0] if ch else None


def lambda_body(lam):
    r = single_return(lam.get('body'))
    return ([p['d'] for p in lam.get('params', [])], r)


def func_body(f):
    r = single_return(f.body)
    return ([p['d'] for p in f.params], r)


def norm(unit, e, params):
    """structural rendering of an expression with the two parameters as $0/$1"""
    e = strip(e)
    if e is None:
        return ''
    k = e['k']
    if k == 'DeclRefExpr':
        if e.get('d') in params:
            return '$%d' % params.index(e['d'])
        return e.get('q') or e['n']
    if k == 'CXXMemberCallExpr':
        return '%s.%s(%s)' % (norm(unit, e.get('obj'), params), method_name(e), ','.join(norm(unit, a, params) for a in e.get('args', [])))
    if k == 'CXXOperatorCallExpr':
        return 'op%s(%s)' % (e.get('op'), ','.join(norm(unit, a, params) for a in e.get('args', [])))
    if k == 'CallExpr':
        return '%s(%s)' % (norm(unit, e.get('fn'), params), ','.join(norm(unit, a, params) for a in e.get('args', [])))
    if k == 'MemberExpr':
        ch = e.get('ch') or []
        return '%s.%s' % (norm(unit, ch[0], params) if ch else '', e['n'])
    if k == 'CXXThisExpr':
        return 'this'
    if k in ('BinaryOperator', 'UnaryOperator', 'ConditionalOperator'):
        return '%s%s(%s)' % (k[0], e.get('op', '?'), ','.join(norm(unit, c, params) for c in e.get('ch', [])))
    return k + '(' + ','.join(norm(unit, c, params) for _, c in __import__('vfacts').children(e)) + ')'


def swap_placeholders(s):
    return s.replace('$0', '$x').replace('$1', '$0').replace('$x', '$1')


def functor_info(unit, cmp_expr):
    """for a comparator object of class type: (params, return expr) of its operator()"""
    t = unit.ty(strip(cmp_expr)).replace('const ', '').strip()
    for f in unit.functions:
        if f.q.endswith('::operator()') and f.d.get('rc') is not None and unit.tname(f.d['rc']) == t:
            return func_body(f), t
    return None, t


def are_swap_duals(unit, fn, c1, c2):
    """True / False / None(unresolved): is one comparator the other with exchanged parameters?"""
    b1, b2 = callable_body(unit, fn, c1), callable_body(unit, fn, c2)
    s1, s2 = strip(c1), strip(c2)
    if b1 is None and b2 is None:
        f1, t1 = functor_info(unit, c1)
        f2, t2 = functor_info(unit, c2)
        if f1 is None or f2 is None:
            return None
        # one functor's operator() calls a member of the other's type with swapped parameters
        for (fa, ta), (fb, tb) in (((f1, t1), (f2, t2)), ((f2, t2), (f1, t1))):
            params, ret = fa
            r = strip(ret)
            if r is not None and r['k'] == 'CXXOperatorCallExpr' and r.get('op') == '()' and len(r.get('args', [])) == 3:
                callee_t = unit.ty(strip(r['args'][0])).replace('const ', '').strip()
                a = [strip(x) for x in r['args'][1:]]
                if all(x is not None and x['k'] == 'DeclRefExpr' for x in a) and [x.get('d') for x in a] == [params[1], params[0]] and callee_t == tb:
                    return True
        n1, n2 = norm(unit, f1[1], f1[0]), norm(unit, f2[1], f2[0])
        return n1 == swap_placeholders(n2) and n1 != n2
    if b1 is None or b2 is None:
        return None
    # forwarder: body is a call of the other comparator variable with swapped params
    for (ba, sa), (bb, sb) in (((b1, s1), (b2, s2)), ((b2, s2), (b1, s1))):
        params, ret = ba
        r = strip(ret)
        if r is not None and r['k'] in ('CXXOperatorCallExpr', 'CallExpr'):
            args = r.get('args', [])
            if r['k'] == 'CXXOperatorCallExpr' and r.get('op') == '()' and len(args) == 3:
                tgt, a = strip(args[0]), [strip(x) for x in args[1:]]
            elif r['k'] == 'CallExpr' and len(args) == 2:
                tgt, a = strip(r.get('fn')), [strip(x) for x in args]
            else:
                tgt, a = None, []
            if tgt is not None and tgt['k'] == 'DeclRefExpr' and sb is not None and sb['k'] == 'DeclRefExpr' and tgt.get('d') == sb.get('d'):
                if all(x is not None and x['k'] == 'DeclRefExpr' for x in a) and len(params) == 2 and [x.get('d') for x in a] == [params[1], params[0]]:
                    return True
    if b1[1] is None or b2[1] is None or len(b1[0]) != 2 or len(b2[0]) != 2:
        return None
    n1, n2 = norm(unit, b1[1], b1[0]), norm(unit, b2[1], b2[0])
    return n1 == swap_placeholders(n2) and n1 != n2


def run(unit, em):
    scopes = {}
    for fn in unit.functions:
        if fn.body is None:
            continue
        short = fn.q.replace('VATA::Util::', '').replace('VATA::', '')
        for a in ANCHORS:
            if short == a:
                em.anchor(fn, a)
        for c in fn.calls():
            if c['k'] == 'CXXMemberCallExpr' and method_name(c) == 'buildIndex' and len(c.get('args', [])) == 2:
                a, b = strip(c['args'][0]), strip(c['args'][1])
                if a is not None and b is not None and a['k'] == b['k'] == 'DeclRefExpr':
                    em.info(c, 'ORIENT-build', '%s;%s;%s' % (fn.q, a['n'], b['n']))
                    # where do the two indices go?
                    for c2 in fn.calls():
                        if c2 is c or not c2.get('inrepo'):
                            continue
                        pos = {}
                        for i, x in enumerate(c2.get('args', [])):
                            sx = strip(x)
                            if sx is not None and sx['k'] == 'DeclRefExpr' and sx.get('d') in (a['d'], b['d']):
                                pos['a' if sx['d'] == a['d'] else 'b'] = i
                        if len(pos) == 2:
                            em.info(c2, 'ORIENT-pass', '%s;%s;%d;%d' % (fn.q, c2.get('q'), pos['a'], pos['b']))
        # relays: a function handing two or more of its own parameters on to an in-repo callee
        pidx = {p_['d']: i for i, p_ in enumerate(fn.params)}
        if 'Inclusion' in fn.q or 'expand' in fn.q:
            for c2 in fn.calls():
                if not c2.get('inrepo') or c2['k'] != 'CallExpr' and c2['k'] != 'CXXMemberCallExpr':
                    continue
                m = {}
                for i, x in enumerate(c2.get('args', [])):
                    sx = strip(x)
                    if sx is not None and sx['k'] == 'DeclRefExpr' and sx.get('d') in pidx:
                        m[pidx[sx['d']]] = i
                if len(m) >= 2:
                    em.info(c2, 'ORIENT-relay', '%s;%s;%s' % (fn.q, c2.get('q'), ','.join('%d:%d' % kv for kv in sorted(m.items()))))
        for c in fn.calls():
            ac = ac_class(c.get('q'))
            if not ac or c['k'] != 'CXXMemberCallExpr':
                continue
            cls, op = ac
            obj = root_path(c.get('obj'))
            args = c.get('args', [])
            if obj is None or not args:
                em.unknown(c, unit.text(c, 100), 'receiver not resolved', op)
                continue
            if obj[0] == 'this':
                scope = ('cls', fn.cls, fn.d.get('rcd'))
                okey = obj[1:]
            else:
                scope = ('fn', fn.d['d'], fn.sig)
                okey = obj[2:] if len(obj) > 2 else obj
            cand = cand_root(unit, fn, args[0])
            cmpx = args[2] if len(args) >= 3 else None
            cmpr = root_path(cmpx) if cmpx is not None else None
            if cmpx is not None and cmpr is None:
                sx = strip(cmpx)
                cmpr = ('expr', unit.text(sx, 30)) if sx is not None else None
            scopes.setdefault(scope, []).append({'fn': fn, 'node': c, 'cls': cls, 'op': op, 'obj': okey, 'cand': cand, 'cmp': cmpr, 'cmpx': cmpx})
    for scope, sites in scopes.items():
        objs = {}
        for s in sites:
            objs.setdefault(s['obj'], []).append(s)
        pairs = set()
        for okey, ss in objs.items():
            fn0 = ss[0]['fn']
            clsname = (fn0.cls or '').split('::')[-1]
            exc = EXCEPTIONS.get((clsname, okey[-1] if okey else ''))
            cont = [s for s in ss if s['op'] == 'contains']
            refi = [s for s in ss if s['op'] == 'refine']
            # forwarding wrapper?
            fwd = all(s['cand'][0] == 'param' and (s['cmp'] is None or s['cmp'][0] == 'param') for s in ss)
            if fwd and fn0.q.split('::')[-1] in ('contains', 'refine'):
                for s in ss:
                    if s['fn'].q.split('::')[-1] == s['op']:
                        em.ok(s['node'], unit.text(s['node'], 100), 'forwards its own parameters to %s' % s['op'], 'forward')
                    else:
                        em.violation(s['node'], unit.text(s['node'], 100), '%s() forwards to %s()' % (s['fn'].q.split('::')[-1], s['op']), 'forward')
                continue
            if exc:
                for s in ss:
                    em.ok(s['node'], unit.text(s['node'], 100), 'frozen exception: ' + exc, 'exception')
                continue
            cpairs = {(s['cand'], s['cmp']) for s in cont}
            rpairs = {(s['cand'], s['cmp']) for s in refi}
            bad = None
            if len(cpairs) > 1:
                bad = 'contains() calls on %s disagree: %s' % ('.'.join(okey), sorted(map(str, cpairs)))
            elif len(rpairs) > 1:
                bad = 'refine() calls on %s disagree: %s' % ('.'.join(okey), sorted(map(str, rpairs)))
            dual = 'n/a'
            if bad is None and cont and refi:
                (cc, cm), (rc, rm) = next(iter(cpairs)), next(iter(rpairs))
                indexed = cc[0] in ('idx', 'prod') or rc[0] in ('idx', 'prod')
                if indexed and cc == rc:
                    bad = 'contains() and refine() on %s take their candidates from the same index %s (they must use the index and its inverse)' % ('.'.join(okey), cc)
                elif cm is not None or rm is not None:
                    if cm == rm:
                        bad = 'contains() and refine() on %s use the same comparator %s (they must be complementary)' % ('.'.join(okey), cm)
                    else:
                        d = are_swap_duals(unit, cont[0]['fn'], cont[0]['cmpx'], refi[0]['cmpx'])
                        dual = d
                        if d is False:
                            bad = 'comparators %s / %s on %s are not each other with exchanged arguments' % (cm, rm, '.'.join(okey))
                if indexed:
                    pairs.add((cc, cm, 'contains', okey))
                    pairs.add((rc, rm, 'refine', okey))
            for s in ss:
                txt = unit.text(s['node'], 100)
                if bad:
                    em.violation(s['node'], txt, bad, s['op'])
                elif dual is None:
                    em.unknown(s['node'], txt, 'comparator bodies not resolved (%s / %s)' % (s['cmp'], s['cand']), s['op'])
                else:
                    em.ok(s['node'], txt, 'cand=%s cmp=%s' % (s['cand'], s['cmp']), s['op'])
        # (3) bijection candidate index <-> comparator over the scope
        c2m, m2c = {}, {}
        for cand, cm, op, okey in pairs:
            if cm is None:
                continue
            c2m.setdefault(cand, set()).add(cm)
            m2c.setdefault(cm, set()).add(cand)
        for cand, ms in c2m.items():
            if len(ms) > 1:
                s = next(x for x in sites if x['cand'] == cand)
                em.violation(s['node'], 'scope pairing ' + str(cand), 'candidate index %s is paired with different comparators %s in one scope' % (cand, sorted(map(str, ms))), 'bijection')
        for cm, cs in m2c.items():
            if len(cs) > 1:
                s = next(x for x in sites if x['cmp'] == cm)
                em.violation(s['node'], 'scope pairing ' + str(cm), 'comparator %s is paired with different candidate indices %s in one scope' % (cm, sorted(map(str, cs))), 'bijection')
        # (4) hand-written lookups: a loop over the candidates of an index that compares with a comparator of this scope
        #     must use the pair the antichain calls established (a look-up through the other index applies a fact about
        #     a smaller state to a bigger one, or vice versa)
        if scope[0] == 'cls' and c2m:
            for fn4 in unit.functions:
                if fn4.body is None or fn4.d.get('rcd') != scope[2]:
                    continue
                for lp in fn4.walk():
                    if lp['k'] != 'CXXForRangeStmt' or not is_node(lp.get('range')):
                        continue
                    cand4 = cand_root(unit, fn4, lp['range'])
                    if cand4 not in c2m:
                        continue
                    for c4 in walk(lp['body']):
                        if c4['k'] == 'CXXOperatorCallExpr' and c4.get('op') == '()' and c4.get('args'):
                            cm4 = root_path(c4['args'][0])
                            if cm4 in m2c:
                                txt4 = 'loop over %s comparing with %s' % ('.'.join(cand4[1:]), '.'.join(cm4))
                                if cm4 in c2m[cand4]:
                                    em.ok(c4, txt4, 'the pair used by the antichain calls of this class', 'looppair')
                                else:
                                    em.violation(c4, txt4, 'this hand-written look-up walks the candidates of %s but compares the sets with %s; every antichain call of the class pairs %s with %s: '
                                                 'the look-up goes through the wrong side of the preorder (a hypothesis or cached fact about one state is applied to states on the other side of it)' % (
                                                     cand4[-1], cm4[-1], cand4[-1], ', '.join(sorted(x[-1] for x in c2m[cand4]))), 'looppair')
        # orientation facts for one-component antichains (always covering: contains(index), refine(inverse))
        if scope[0] == 'fn':
            fn0 = sites[0]['fn']
            for s in sites:
                if s['cls'] == 'Antichain1C' and s['cand'][0] == 'idx' and len(s['cand']) == 3 and s['cand'][1] in ('param', 'local'):
                    kind, nm = s['cand'][1], s['cand'][2]
                    if kind == 'param':
                        names = [p_['n'] for p_ in fn0.params]
                        if nm in names:
                            em.info(s['node'], 'ORIENT-callee', '%s;%s;%d' % (fn0.q, s['op'], names.index(nm)))
                    else:
                        em.info(s['node'], 'ORIENT-local', '%s;%s;%s' % (fn0.q, s['op'], nm))
        # Antichain1C objects: contains-index and refine-index must not coincide across the scope
        one_c = {s['cand'] for s in sites if s['cls'] == 'Antichain1C' and s['op'] == 'contains' and s['cand'][0] == 'idx'}
        one_r = {s['cand'] for s in sites if s['cls'] == 'Antichain1C' and s['op'] == 'refine' and s['cand'][0] == 'idx'}
        two_c = {c for c, m, op, o in pairs if op == 'contains' and m is not None}
        if one_c & one_r:
            s = next(x for x in sites if x['cls'] == 'Antichain1C')
            em.violation(s['node'], 'scope pairing Antichain1C', 'the same index %s feeds both contains() and refine() of one-component antichains' % sorted(map(str, one_c & one_r)), 'bijection')


def finalize(records, _):
    """orientation: buildIndex(ind, inv) -> one-component antichains use ind for contains(), inv for refine()"""
    R = [r for r in records if r['rule'] == RULE and r['kind'] == 'info']
    out = []
    builds = {}
    for r in R:
        if r['construct'] == 'ORIENT-build':
            f, a, b = r['detail'].split(';')
            builds[f] = (a, b, r)
    seen = set()
    # local uses
    for r in R:
        if r['construct'] != 'ORIENT-local':
            continue
        f, op, nm = r['detail'].split(';')
        if f not in builds:
            continue
        a, b, br = builds[f]
        want = a if op == 'contains' else b
        key = (r['file'], r['line'], op)
        if key in seen:
            continue
        seen.add(key)
        x = dict(r)
        x['obligation'] = 'orient'
        x['construct'] = 'orientation of %s() index in %s' % (op, f.split('::')[-1])
        if nm == want:
            x.update(kind='ok', detail='%s() takes its candidates from %s, the %s output of buildIndex' % (op, nm, 'first' if op == 'contains' else 'second'))
        elif nm in (a, b):
            x.update(kind='violation', detail='%s() takes its candidates from %s, but buildIndex(%s, %s) makes %s the index %s() needs: the antichain test is applied with the inverse preorder' % (op, nm, a, b, want, op))
        else:
            continue
        out.append(x)
    # through a call
    callee_sites = {}
    for r in R:
        if r['construct'] == 'ORIENT-callee':
            f, op, idx = r['detail'].split(';')
            callee_sites.setdefault(f, []).append((op, int(idx), r))
    def same(f1, f2):
        return (f1 or '').split('::')[-2:] == (f2 or '').split('::')[-2:] or ((f1 or '').split('::')[-1] == (f2 or '').split('::')[-1] and '::' not in (f1 or '') + (f2 or ''))
    relays = []
    for r in R:
        if r['construct'] == 'ORIENT-relay':
            f, g, mp = r['detail'].split(';')
            relays.append((f, g, dict((int(a), int(b)) for a, b in (kv.split(':') for kv in mp.split(',')))))
    passes = []
    for r in R:
        if r['construct'] == 'ORIENT-pass':
            f, callee, ia, ib = r['detail'].split(';')
            passes.append((r, f, callee, int(ia), int(ib)))
    # one relay level
    for (r, f, callee, ia, ib) in list(passes):
        for (rf, rg, mp) in relays:
            if same(rf, callee) and ia in mp and ib in mp:
                passes.append((r, f + ' -> ' + rf.split('::')[-1], rg, mp[ia], mp[ib]))
    for (r, f, callee, ia, ib) in passes:
        for cf, lst in callee_sites.items():
            if cf.split('::')[-1] != (callee or '').split('::')[-1]:
                continue
            for op, idx, sr in lst:
                want = ia if op == 'contains' else ib
                key = (r['file'], r['line'], sr['file'], sr['line'], op)
                if key in seen:
                    continue
                seen.add(key)
                x = dict(r)
                x['obligation'] = 'orient'
                x['construct'] = 'orientation: %s -> %s %s() at %s:%d' % (f.split('::')[-1], cf.split('::')[-1], op, sr['file'], sr['line'])
                if idx == want:
                    x.update(kind='ok', detail='argument %d (the %s output of buildIndex) feeds %s()' % (idx, 'first' if op == 'contains' else 'second', op))
                elif idx in (ia, ib):
                    x.update(kind='violation', detail='the %s output of buildIndex is passed as argument %d, which the callee uses for %s(): index and inverse index are exchanged' % ('second' if op == 'contains' else 'first', idx, op))
                else:
                    continue
                out.append(x)
    return out
