"""MERGE — alternative macro-states of an antichain are never merged (C07, C01).

Antichain2Cv2::lookup(q) returns the list of macro-states P with (q, P) in the antichain: they are
*alternatives* (each is one over-approximation-free fact), so post-image computation must pick one
macro-state per child position (ChoiceVector / Choice::init in the explicit algorithm). Instance:
every use of a lookup() result. Obligation: the elements of the list are not accumulated into one
set that outlives the loop over the list (union of alternatives makes the bigger side look larger
than it is: a non-inclusion is answered `included`)."""
from vfacts import strip, walk, method_name, root_path, is_node, enclosing
from .prov import var_table, local_sources

RULE = 'MERGE'
FLOOR = 1
ANCHORS = ['Antichain2Cv2::lookup']


def is_lookup(e):
    e = strip(e)
    return e is not None and e['k'] == 'CXXMemberCallExpr' and (e.get('q') or '').endswith('Antichain2Cv2::lookup')


def run(unit, em):
    for fn in unit.functions:
        if fn.body is None:
            continue
        if fn.q.replace('VATA::Util::', '') == 'Antichain2Cv2::lookup':
            em.anchor(fn, 'Antichain2Cv2::lookup')
        lookups = [c for c in fn.calls() if is_lookup(c)]
        if not lookups:
            continue
        # variables holding a lookup result
        holders = set()
        for d, v in var_table(fn).items():
            if v['kind'] != 'local':
                continue
            for s in local_sources(fn, d):
                if any(is_lookup(x) for x in walk(s)):
                    holders.add(d)
        merged = []
        for lp in fn.walk():
            if lp['k'] != 'CXXForRangeStmt':
                continue
            rng = lp.get('range')
            over = any(x['k'] == 'DeclRefExpr' and x.get('d') in holders for x in walk(rng)) or any(is_lookup(x) for x in walk(rng))
            if not over:
                continue
            var = lp['var']['d']
            inner_decls = {d['d'] for n in walk(lp['body']) if n['k'] == 'DeclStmt' for d in n.get('decls', [])}
            for m in walk(lp['body'], lambdas=False):
                if m['k'] == 'CXXMemberCallExpr' and method_name(m) in ('insert', 'push_back', 'emplace', 'merge'):
                    uses = any(x['k'] == 'DeclRefExpr' and x.get('d') == var for a in m.get('args', []) for x in walk(a))
                    rp = root_path(m.get('obj'))
                    tgt = None
                    o = m.get('obj')
                    for x in walk(o):
                        if x['k'] == 'DeclRefExpr' and x.get('dk') == 'local':
                            tgt = x['d']
                    if uses and tgt is not None and tgt not in inner_decls:
                        merged.append((m, lp))
        for c in lookups:
            txt = unit.text(c, 70)
            mine = [m for m, lp in merged]
            if mine:
                continue
            em.ok(c, txt, 'the alternatives are used one at a time (no accumulation across the list)')
        for m, lp in merged:
            em.violation(m, unit.text(m, 90), 'all alternative macro-states returned by lookup() are merged into one set (%s): the successor tuples then over-approximate the bigger automaton and a non-inclusion can be answered `included`' % unit.text(m.get('obj'), 40))
