"""CLEARALL — Clear() empties every component on every path (C12, C11).

Instance: each component (rules, final states; + start states for NFAs if a Clear exists) of each
Clear() of the explicit cores. Obligation (must-pass-through on the CFG, entry to exit): the rule
store is re-seated or cleared, and the final states are erased, on *every* path — not only in the
branch where the rule map happens to be uniquely owned."""
from vfacts import strip, walk, method_name, must_pass_through, root_path

RULE = 'CLEARALL'
FLOOR = 1
ANCHORS = ['ExplicitTreeAutCore::Clear']


def run(unit, em):
    for fn in unit.functions:
        short = fn.q.replace('VATA::', '')
        if short not in ('ExplicitTreeAutCore::Clear', 'ExplicitFiniteAutCore::Clear') or fn.body is None:
            continue
        em.anchor(fn, short)
        cfg = fn.cfg()
        if cfg is None:
            em.unknown(fn, short, 'no CFG')
            continue

        def rules_reset(n):
            if n['k'] == 'CXXOperatorCallExpr' and n.get('op') == '=' and n.get('args'):
                rp = root_path(n['args'][0])
                return bool(rp) and rp[-1] == 'transitions_'
            if n['k'] == 'CXXMemberCallExpr' and method_name(n) == 'clear':
                rp = root_path(n.get('obj'))
                return bool(rp) and ('transitions_' in rp or 'uniqueClusterMap()' in rp)
            return False

        def finals_reset(n):
            if n['k'] == 'CXXMemberCallExpr' and method_name(n) == 'EraseFinalStates':
                return True
            if n['k'] == 'CXXMemberCallExpr' and method_name(n) == 'clear':
                rp = root_path(n.get('obj'))
                return bool(rp) and rp[-1] == 'finalStates_'
            return False
        for name, marker, why in (('rules', rules_reset, 'the rule store is neither re-seated nor cleared'),
                                  ('final states', finals_reset, 'the final states survive')):
            ok, _ = must_pass_through(cfg, (cfg.entry, 0), None, marker, start_after=False)
            if ok:
                em.ok(fn, '%s: %s' % (short, name), 'reset on every path')
            else:
                em.violation(fn, '%s: %s' % (short, name), 'there is a path through Clear() on which %s (e.g. only the branch for a uniquely owned map resets them)' % why)
