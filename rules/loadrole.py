"""LOADROLE — loaders read each component of a textual rule into the role it has (C13, C08).

AutDescription::Transition is a Triple (first = child state names, second = symbol, third = parent
state name). Instance: every AddTransition / SetStateFinal / SetStateStart call inside the
loadFromAutDesc* functions of the four cores. Obligations: the children argument derives from
`.first`, the symbol argument from `.second` (it may also use the number of children as rank), the
parent argument from `.third` — followed through locals and translator applications; final states
come from a loop over `desc.finalStates`. Sibling loaders (explicit / symbolic, four encodings) are
thereby checked against one reading of the format."""
from vfacts import strip, walk, method_name, root_path, is_node, children
from .prov import var_table, local_sources

RULE = 'LOADROLE'
FLOOR = 12


def triple_fields(unit, fn, e, seen=None, depth=0):
    """names of Triple fields (first/second/third) an expression's value derives from"""
    seen = seen if seen is not None else set()
    out = set()
    e = strip(e)
    if e is None or depth > 12:
        return out
    if e['k'] == 'MemberExpr' and e['n'] in ('first', 'second', 'third') and (e.get('cls') or '').endswith('Triple'):
        return {e['n']}
    if e['k'] == 'DeclRefExpr':
        d = e.get('d')
        v = var_table(fn).get(d)
        if v is None or d in seen or v['kind'] in ('param', 'lparam'):
            return out
        seen.add(d)
        for s in local_sources(fn, d, outparams=True):
            out |= triple_fields(unit, fn, s, seen, depth + 1)
        # containers filled by push_back/insert of derived values
        for c in fn.calls():
            if c['k'] == 'CXXMemberCallExpr' and method_name(c) in ('push_back', 'insert', 'emplace_back') and (strip(c.get('obj')) or {}).get('d') == d:
                for a in c.get('args', []):
                    out |= triple_fields(unit, fn, a, seen, depth + 1)
        return out
    if e['k'] == 'LambdaExpr':
        return out
    for _, c in children(e):
        out |= triple_fields(unit, fn, c, seen, depth + 1)
    return out


def run(unit, em):
    for fn in unit.functions:
        name = fn.q.rsplit('::', 1)[-1]
        if fn.body is None or not name.startswith('loadFromAutDesc'):
            continue
        cls = (fn.cls or '').split('::')[-1]
        for c in fn.calls():
            m = method_name(c)
            args = c.get('args', [])
            if m == 'AddTransition' and len(args) == 3:
                want = (('first', 'children'), ('second', 'symbol'), ('third', 'parent'))
                if cls == 'ExplicitFiniteAutCore':
                    want = (('first', 'source state'), ('second', 'symbol'), ('third', 'target state'))
                for a, (fld, role) in zip(args, want):
                    got = triple_fields(unit, fn, a)
                    txt = '%s: %s argument of %s' % (name, role, unit.text(c, 50))
                    allowed = {fld} | ({'first'} if fld == 'second' else set())
                    if fld in got and got <= allowed:
                        em.ok(c, txt, 'derives from .%s' % fld, role)
                    elif not got:
                        em.unknown(c, txt, 'origin not resolved', role)
                    else:
                        em.violation(c, txt, 'the %s of the loaded rule is taken from %s of the textual rule; it must come from .%s' % (role, sorted('.' + g for g in got), fld), role)
            elif m in ('SetStateFinal',) or (m == 'insert' and c['k'] == 'CXXMemberCallExpr' and (root_path(c.get('obj')) or ('',))[-1] == 'finalStates_'):
                # inside a loop over desc.finalStates
                from vfacts import known_facts
                _, loops = known_facts(c)
                rngs = [root_path(lp.get('range')) for lp in loops]
                txt = '%s: %s' % (name, unit.text(c, 60))
                if any(r and r[-1] == 'finalStates' for r in rngs):
                    em.ok(c, txt, 'final states come from desc.finalStates', 'final')
                elif any(r and r[-1] in ('states', 'transitions', 'symbols') for r in rngs):
                    em.violation(c, txt, 'final states are filled from desc.%s, not from desc.finalStates' % [r[-1] for r in rngs if r][0], 'final')
