"""COLLECTALL — a loop that collects matches into a container does not stop at the first one
(C07, C08; repeated states in a child tuple).

Instance: every `if (c) { C.push_back(x) / C.insert(x); ... }` inside a loop, with C a local container
declared outside that loop. Obligation: the branch does not `break` out of the loop right after
recording the match — a container that can only ever receive one element contradicts collecting
(all positions of a state in a tuple matter: f(q,q)).
Second clause (`once`): a for / range-for loop whose body records into a container declared outside the
loop does not end in an unconditional `break` (found F15: the NFA dump wrote one start symbol only)."""
from vfacts import strip, walk, method_name, root_path, enclosing, is_node
from .prov import var_table

RULE = 'COLLECTALL'
FLOOR = 50
LOOPS = ('ForStmt', 'WhileStmt', 'CXXForRangeStmt', 'DoStmt')


def run(unit, em):
    for fn in unit.functions:
        f = fn.file
        if fn.body is None or '/src/' not in f or '/mtbdd/' in f:
            continue
        for n in fn.walk():
            if n['k'] != 'IfStmt' or not is_node(n.get('th')):
                continue
            loop = enclosing(n, LOOPS + ('LambdaExpr',))
            if loop is None or loop['k'] == 'LambdaExpr':
                continue
            th = n['th']
            stmts = th.get('ch', []) if th['k'] == 'CompoundStmt' else [th]
            inner = {d['d'] for x in walk(loop) if x['k'] == 'DeclStmt' for d in x.get('decls', [])}
            for i, s in enumerate(stmts):
                c = strip(s)
                if c is None or c['k'] != 'CXXMemberCallExpr' or method_name(c) not in ('push_back', 'emplace_back'):
                    continue
                o = strip(c.get('obj'))
                if o is None or o['k'] != 'DeclRefExpr' or o.get('dk') != 'local' or o['d'] in inner:
                    continue
                brk = any(x['k'] == 'BreakStmt' for x in stmts[i + 1:])
                txt = unit.text(c, 70)
                if brk:
                    em.violation(c, txt, 'the loop stops right after recording the first match in %s: later matches (a state occurring at several positions of a tuple) are never collected' % o['n'])
                else:
                    em.ok(c, txt, 'all matches are collected')
        # ---- a collecting loop that always leaves after its first iteration
        for lp in fn.walk():
            if lp['k'] not in ('CXXForRangeStmt', 'ForStmt') or not is_node(lp.get('body')):
                continue
            body = lp['body']
            stmts = body.get('ch', []) if body['k'] == 'CompoundStmt' else [body]
            if not stmts:
                continue
            inner = {d['d'] for x in walk(lp) if x['k'] == 'DeclStmt' for d in x.get('decls', [])}
            if lp['k'] == 'CXXForRangeStmt':
                inner.add(lp['var']['d'])
            recs = []
            for s in stmts:
                c = strip(s)
                if c is not None and c['k'] == 'CXXMemberCallExpr' and method_name(c) in ('push_back', 'emplace_back', 'insert', 'emplace') and not c.get('const'):
                    rp = root_path(c.get('obj'))
                    o = strip(c.get('obj'))
                    base = o
                    while base is not None and base['k'] == 'MemberExpr' and (base.get('ch') or base.get('obj')):
                        base = strip(base['ch'][0] if base.get('ch') else base.get('obj'))
                    if base is not None and base['k'] == 'DeclRefExpr' and base.get('d') not in inner:
                        recs.append(c)
                    elif base is not None and base['k'] == 'CXXThisExpr':
                        recs.append(c)
            if not recs:
                continue
            last = stmts[-1]
            txt = unit.text(recs[0], 70)
            if last['k'] == 'BreakStmt':
                em.violation(recs[0], txt, 'the loop records an element per iteration into a container declared outside it, but its body ends in an unconditional `break`: only the first element is ever recorded, the others are silently dropped', 'once')
            else:
                em.ok(recs[0], txt, 'the collecting loop runs over all elements', 'once')
        # ---- take-while: a collecting iterator loop whose condition also tests the current element
        from vfacts import conjuncts
        for lp in fn.walk():
            if lp['k'] != 'ForStmt' or not is_node(lp.get('body')) or not is_node(lp.get('c')):
                continue
            cj = conjuncts(lp['c'], True)
            if len(cj) < 2:
                continue
            # loop variable(s): declared in the init statement
            lvars = {d['d'] for x in walk(lp.get('init')) if x['k'] == 'DeclStmt' for d in x.get('decls', [])} if is_node(lp.get('init')) else set()
            if not lvars:
                continue
            bound, extra = [], []
            for pol, atom in cj:
                a = strip(atom)
                is_bound = False
                if a is not None and a['k'] in ('BinaryOperator', 'CXXOperatorCallExpr') and a.get('op') in ('!=', '<', '<=', '>', '>='):
                    ops = a.get('ch') if a['k'] == 'BinaryOperator' else a.get('args')
                    if ops and len(ops) == 2:
                        for x, y in ((ops[0], ops[1]), (ops[1], ops[0])):
                            sx = strip(x)
                            if sx is not None and sx['k'] == 'DeclRefExpr' and sx.get('d') in lvars and any(
                                    m['k'] == 'CXXMemberCallExpr' and method_name(m) in ('end', 'cend', 'size', 'rend', 'crend') for m in walk(y)):
                                is_bound = True
                (bound if is_bound else extra).append((pol, atom))
            if not bound or not extra:
                continue
            elem_tests = [(pol, atom) for pol, atom in extra if any(m['k'] == 'DeclRefExpr' and m.get('d') in lvars for m in walk(atom))]
            if not elem_tests:
                continue
            inner = {d['d'] for x in walk(lp) if x['k'] == 'DeclStmt' for d in x.get('decls', [])}
            records = []
            for c in walk(lp['body'], lambdas=False):
                if c['k'] == 'CXXMemberCallExpr' and not c.get('const') and (method_name(c) in ('push_back', 'emplace_back', 'insert', 'emplace') or c.get('inrepo')):
                    base = strip(c.get('obj'))
                    while base is not None and base['k'] == 'MemberExpr' and (base.get('ch') or base.get('obj')):
                        base = strip(base['ch'][0] if base.get('ch') else base.get('obj'))
                    if base is not None and ((base['k'] == 'DeclRefExpr' and base.get('d') not in inner) or base['k'] == 'CXXThisExpr'):
                        records.append(c)
            if not records:
                continue
            pol, atom = elem_tests[0]
            a = strip(atom)
            relational = a is not None and a['k'] in ('BinaryOperator', 'CXXOperatorCallExpr') and a.get('op') in ('<', '<=', '>', '>=')
            txt = unit.text(lp['c'], 80)
            if relational:
                em.ok(lp, txt, 'prefix of an ordered range (relational bound on the element)', 'takewhile')
            else:
                em.violation(lp, txt, 'the loop records elements into %s but its condition also tests the current element (`%s`): it stops at the first element that fails the test instead of skipping it, so later elements that pass are never recorded' % (
                    unit.text(strip(records[0].get('obj')), 30), unit.text(atom, 50)), 'takewhile')
