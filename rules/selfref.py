"""SELFREF — an object that points into itself is never copied member-wise (C20, C04, C05, C19).

Instance: a class one of whose constructors initialises a member M from *another member of the same object by reference*, from
`this`, or from a lambda that captures `this` (e.g. `transl_(dict_, [this](...){ return indexCnt_++; })` — a translator bound to
the object's own dictionary and counter).  Such an M must be re-bound in every copy: a member-wise copy of M still refers to the
*source* object's storage.  Obligation, per copy/move constructor of the class: it is user-provided with a written initialiser
for M that again refers to the new object's own members (or it is deleted); a defaulted or implicit one is a violation — after
the source dies (vector reallocation, a temporary) the copy reads and writes freed memory (seed C20-9).  Assignment operators
must be user-provided or deleted as well (they may leave M alone: it already refers to the target's own members)."""
from vfacts import strip, walk, is_node

RULE = 'SELFREF'
FLOOR = 1
ANCHORS = ['DiscontBinaryRelation']


def self_refs(unit, fn, init, own_field):
    """does the initialiser of a member mention other members of *this / `this` itself in a way that can be kept?"""
    for x in walk(init):
        if x['k'] == 'LambdaExpr' and any(c.get('this') or c.get('n') in (None, 'this') for c in x.get('captures') or []):
            return 'a lambda capturing `this`'
        if x['k'] == 'CXXThisExpr':
            p = x.get('_p')
            # implicit `this->field` used as an argument bound to a reference parameter
            if p is not None and p['k'] == 'MemberExpr' and p.get('dk', 'field') == 'field' and p.get('n') != own_field:
                q = p.get('_p')
                while q is not None and q['k'] in ('ImplicitCastExpr', 'ParenExpr'):
                    q = q.get('_p')
                if q is not None and q['k'] in ('CXXConstructExpr', 'CXXTemporaryObjectExpr', 'CallExpr'):
                    pk = q.get('pk') or ''
                    args = q.get('args') or []
                    for i, a in enumerate(args):
                        if any(y is p for y in walk(a)) and i < len(pk) and pk[i] in 'rR&':
                            return 'a reference to the member `%s` of the same object' % p.get('n')
    return None


def run(unit, em):
    by_rec = {}
    for fn in unit.functions:
        if fn.d.get('fk') == 'ctor' and fn.d.get('rcd') is not None:
            by_rec.setdefault(fn.d['rcd'], []).append(fn)
    for r in unit.records:
        f = unit.files[r['file']] if isinstance(r.get('file'), int) else (r.get('file') or '')
        if not ('/src/' in f or '/include/' in f):
            continue
        ctors = by_rec.get(r['d'], [])
        selfm = {}
        for fn in ctors:
            for i in fn.d.get('inits') or []:
                # written initialisers and in-class default member initialisers (exported below the CXXDefaultInitExpr) alike
                if i.get('n') and is_node(i.get('init')):
                    why = self_refs(unit, fn, i['init'], i['n'])
                    if why:
                        selfm.setdefault(i['n'], (why, fn))
        if not selfm:
            continue
        short = r['q'].replace('VATA::', '').replace('Util::', '')
        if short in ANCHORS and ctors:
            em.anchor(ctors[0], short)
        specials = {m.get('special'): m for m in r.get('methods', []) if m.get('special')}
        where = ctors[0]
        for M, (why, fn0) in sorted(selfm.items()):
            for sp, implflag, what in (('copyctor', 'implcopyctor', 'copy constructor'), ('movector', None, 'move constructor'),
                                       ('copyassign', 'implcopyassign', 'copy assignment'), ('moveassign', None, 'move assignment')):
                m = specials.get(sp)
                name = '%s: %s vs. self-referential member %s' % (short, what, M)
                if m is None:
                    if implflag and r.get(implflag):
                        em.violation(where, name, 'member `%s` is initialised from %s; the class leaves its %s to the compiler, which copies `%s` member-wise: the copy keeps referring into the source object' % (M, why, what, M))
                    continue        # not declared and not generated
                if m.get('deleted'):
                    em.ok(where, name, 'deleted')
                    continue
                if m.get('defaulted'):
                    em.violation(where, name, 'member `%s` is initialised from %s, but the %s is `= default`: it copies `%s` member-wise, so the new object\'s `%s` still refers to the storage of the object it '
                                 'was copied from (dangling once that one is destroyed)' % (M, why, what, M, M))
                    continue
                if sp in ('copyctor', 'movector'):
                    g = next((x for x in ctors if x.d.get('d') == m['d']), None)
                    if g is None:
                        em.unknown(where, name, 'user-provided, body not exported in this unit')
                        continue
                    ini = next((i for i in g.d.get('inits') or [] if i.get('n') == M and is_node(i.get('init'))), None)
                    if ini is not None and self_refs(unit, g, ini['init'], M):
                        em.ok(g, name, 're-bound to the new object\'s own members')
                    else:
                        em.violation(g, name, 'member `%s` refers into its own object (%s) and must be re-bound by every constructor; this %s does not initialise it from the new object\'s members' % (M, why, what))
                else:
                    em.ok(where, name, 'user-provided (the member keeps referring to the target\'s own members)')
