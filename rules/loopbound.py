"""LOOPBOUND — a loop that stops K short of the end looks K ahead (C05, C04, C20).

Instance: every `for (...; i + K < n; ...)` / `i < n - K` loop (K a positive literal) in the library.
Obligation: the body reads position i + K' (some look-ahead) of what it iterates; a loop that stops
short but only ever touches position i silently skips the last K elements (e.g. the last column of the
simulation matrix is never made symmetric, and Reduce merges a state into one it merely simulates)."""
from vfacts import strip, walk

RULE = 'LOOPBOUND'
FLOOR = 0
WITNESS = 'src/loopbound.cc'


def plus_k(e, var=None):
    """(var decl, K) if e is `v + K` / `K + v`"""
    e = strip(e)
    if e is None or e['k'] != 'BinaryOperator' or e.get('op') != '+':
        return None
    a, b = strip(e['ch'][0]), strip(e['ch'][1])
    for x, y in ((a, b), (b, a)):
        if x is not None and y is not None and x['k'] == 'DeclRefExpr' and y['k'] == 'IntegerLiteral' and y.get('v', 0) > 0:
            if var is None or x.get('d') == var:
                return x.get('d'), y['v']
    return None


def run(unit, em):
    for fn in unit.functions:
        f = fn.file
        if fn.body is None or not ('/src/' in f or '/include/' in f):
            continue
        for n in fn.walk():
            if n['k'] != 'ForStmt' or n.get('c') is None:
                continue
            c = strip(n['c'])
            if c is None or c['k'] != 'BinaryOperator' or c.get('op') not in ('<', '<=', '!='):
                continue
            pk = plus_k(c['ch'][0])
            if not pk:
                # i < n - K
                r = strip(c['ch'][1])
                l = strip(c['ch'][0])
                if r is not None and r['k'] == 'BinaryOperator' and r.get('op') == '-' and l is not None and l['k'] == 'DeclRefExpr':
                    k = strip(r['ch'][1])
                    if k is not None and k['k'] == 'IntegerLiteral' and k.get('v', 0) > 0:
                        pk = (l.get('d'), k['v'])
            if not pk:
                continue
            var, K = pk
            ahead = any(plus_k(x, var) for x in walk(n.get('body'))) or any(plus_k(x, var) for x in walk(n.get('inc')) if x is not None) if n.get('body') else False
            txt = unit.text(n['c'], 60)
            if ahead:
                em.ok(n, txt, 'the body looks ahead of the loop variable')
            else:
                em.violation(n, txt, 'the loop stops %d short of the end but its body never looks ahead of the loop variable: the last %d element(s) are skipped' % (K, K))
