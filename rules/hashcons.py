"""HASHCONS — tuples enter a rule store only hash-consed (C12, C11).

ContainsTransition and the tuple sets compare TuplePtr by address, so every TuplePtr stored must be the
process-wide representative: it comes from tupleLookup()/Cache::lookup(), or is a TuplePtr already
stored somewhere (element of another tuple set, field of a record filled from one, a TuplePtr
parameter whose call sites are themselves instances). Instance: every TuplePtr inserted into a
TuplePtrSet and every TuplePtr passed to internalAddTransition. A `new StateTuple`/make_shared
pointer is the violation."""
from vfacts import strip, walk, method_name, is_node
from .prov import var_table, local_sources

RULE = 'HASHCONS'
FLOOR = 3
TPS = 'std::set<std::shared_ptr<std::vector<unsigned long'
TP = 'std::shared_ptr<std::vector<unsigned long'


def classify(unit, fn, e, depth=0):
    e = strip(e)
    if e is None or depth > 8:
        return 'unknown'
    k = e['k']
    if k in ('CXXMemberCallExpr', 'CallExpr') and method_name(e) in ('tupleLookup', 'lookup'):
        return 'lookup'
    if k == 'CXXMemberCallExpr' and method_name(e) == 'find' and 'Cache<' in unit.ty(strip(e.get('obj')) or e.get('obj') or {'t': -1}):
        return 'maybe-null'      # the non-inserting query of the tuple cache: null when no live rule holds an equal tuple
    if k == 'CXXNewExpr':
        return 'fresh'
    if k == 'CallExpr' and e.get('q') == 'std::make_shared':
        return 'fresh'
    if k in ('CXXConstructExpr', 'CXXTemporaryObjectExpr'):
        for a in e.get('args', []):
            if (strip(a) or {}).get('k') == 'CXXNewExpr':
                return 'fresh'
        if e.get('args'):
            return classify(unit, fn, e['args'][0], depth + 1)
        return 'unknown'
    if k == 'DeclRefExpr':
        v = var_table(fn).get(e.get('d'))
        if not v:
            return 'unknown'
        if v['kind'] in ('param', 'lparam'):
            return 'existing(param)'
        if v['kind'] == 'rangevar':
            return 'existing(element)'
        rs = {classify(unit, fn, s, depth + 1) for s in local_sources(fn, e['d'])}
        if 'fresh' in rs:
            return 'fresh'
        if rs and all(r.startswith(('lookup', 'existing')) for r in rs):
            return sorted(rs)[0]
        return 'unknown'
    if k == 'MemberExpr':
        return 'existing(field %s)' % e['n']
    if k in ('UnaryOperator', 'CXXOperatorCallExpr') and e.get('op') == '*':
        return 'existing(element)'
    return 'unknown'


def run(unit, em):
    for fn in unit.functions:
        if fn.body is None or 'explicit_tree' not in fn.file:
            continue
        for c in fn.calls():
            m = method_name(c)
            arg = None
            if c['k'] == 'CXXMemberCallExpr' and m == 'insert' and len(c.get('args', [])) == 1:
                ot = unit.ty(strip(c.get('obj')) or c['obj']).replace('const ', '')
                if ot.startswith(TPS) and unit.ty(strip(c['args'][0]) or c['args'][0]).replace('const ', '').startswith(TP):
                    arg = c['args'][0]
            elif m == 'internalAddTransition' and c.get('args'):
                arg = c['args'][0]
            if arg is None:
                continue
            cl = classify(unit, fn, arg)
            txt = unit.text(c, 80)
            if cl == 'maybe-null':
                em.violation(c, txt, 'the TuplePtr comes from the non-inserting Cache::find(), which returns null when no live rule of any automaton holds an equal tuple: a null pointer is stored in the tuple set (the rule is missing and every iteration over the set dereferences null)')
            elif cl == 'fresh':
                em.violation(c, txt, 'a TuplePtr built with new/make_shared is stored without going through tupleLookup(): ContainsTransition and the tuple sets compare by address, the rule would be missed or duplicated')
            elif cl == 'unknown':
                em.unknown(c, txt, 'origin of the stored TuplePtr not resolved')
            else:
                em.ok(c, txt, cl)
                run_h2(unit, fn, em, c, arg, cl)


# ---- H2: a stored TuplePtr is the representative of the *destination's* tuple cache ------------------
AUTCORE = 'ExplicitTreeAutCore'


def owner_roots(unit, fn, e, depth=0, seen=None):
    """automata an expression's value is taken from: {'this'} | {('param', d)} | {('local', d)}; TuplePtr
    parameters give ('ptrparam', d)"""
    seen = seen if seen is not None else set()
    out = set()
    if not is_node(e) or depth > 10:
        return out
    vt = var_table(fn)
    for n in walk(e, lambdas=False):
        k = n['k']
        if k == 'CXXThisExpr':
            out.add('this')
        elif k == 'DeclRefExpr' and n.get('d') in vt and n['d'] not in seen:
            seen.add(n['d'])
            v = vt[n['d']]
            t = unit.ty(v['decl']).replace('const ', '').replace('VATA::', '')
            if v['kind'] == 'param':
                out.add(('param', n['d']) if t.startswith(AUTCORE) else ('ptrparam', n['d']))
            elif v['kind'] == 'rangevar':
                out |= owner_roots(unit, fn, v['node'].get('range'), depth + 1, seen)
            elif v['kind'] == 'local':
                if t.startswith(AUTCORE) and not t.rstrip().endswith(('&', '*')):
                    out.add(('local', n['d']))
                else:
                    for s in local_sources(fn, n['d']):
                        out |= owner_roots(unit, fn, s, depth + 1, seen)
                    # containers: what was put into them
                    for m in fn.walk(lambdas=False):
                        if m['k'] == 'CXXMemberCallExpr' and method_name(m) in ('push_back', 'insert', 'emplace_back', 'emplace', 'push_front'):
                            o = strip(m.get('obj'))
                            while o is not None and o['k'] in ('CXXOperatorCallExpr',) and o.get('op') == '[]' and o.get('args'):
                                o = strip(o['args'][0])
                            if o is not None and o['k'] == 'DeclRefExpr' and o.get('d') == n['d']:
                                for a in m.get('args') or []:
                                    out |= owner_roots(unit, fn, a, depth + 1, seen)
    return out


def same_cache_evidence(unit, fn, dest, src):
    """dest = ('local', d): its constructor received src's cache_ or src itself"""
    vt = var_table(fn)
    v = vt.get(dest[1])
    init = strip(v['decl'].get('init')) if v and is_node(v['decl'].get('init')) else None
    if init is None:
        return False
    for a in init.get('args') or []:
        if not is_node(a) or a['k'] == 'CXXDefaultArgExpr':
            continue
        r = owner_roots(unit, fn, a)
        ta = unit.ty(strip(a) or a)
        if src in r and ('Cache<' in ta or AUTCORE in ta):
            return True
    return False


def run_h2(unit, fn, em, c, arg, cl):
    if not cl.startswith('existing'):
        return
    dst = owner_roots(unit, fn, c.get('obj'))
    srcs = owner_roots(unit, fn, arg)
    txt = unit.text(c, 80)
    if any(isinstance(s, tuple) and s[0] == 'ptrparam' for s in srcs) and not (srcs - {s for s in srcs if isinstance(s, tuple) and s[0] == 'ptrparam'}):
        em.ok(c, txt, 'TuplePtr parameter: representative established at the call sites', 'H2')
        return
    srcs = {s for s in srcs if not (isinstance(s, tuple) and s[0] == 'ptrparam')}
    if not dst or not srcs:
        em.unknown(c, txt, 'owner of the tuple set / of the stored pointer not resolved', 'H2')
        return
    bad = []
    for d in dst:
        for s in srcs:
            if d == s:
                continue
            if isinstance(d, tuple) and d[0] == 'local' and same_cache_evidence(unit, fn, d, s):
                continue
            bad.append((d, s))
    if not bad:
        em.ok(c, txt, 'source and destination share one tuple cache (same automaton, or the destination was constructed with the source\'s cache)', 'H2')
    else:
        vt = var_table(fn)
        nm = lambda x: 'this' if x == 'this' else (vt[x[1]]['decl'].get('n') or '?')
        d, s = bad[0]
        em.violation(c, txt, 'a TuplePtr taken from `%s` is stored in a tuple set of `%s` without %s.tupleLookup(): the two automata may use different tuple caches, and tuple sets / ContainsTransition compare pointers, so the rule is not found and can be duplicated' % (nm(s), nm(d), nm(d)), 'H2')
