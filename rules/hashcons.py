"""HASHCONS — tuples enter a rule store only hash-consed (C12, C11).

ContainsTransition and the tuple sets compare TuplePtr by address, so every TuplePtr stored must be the
process-wide representative: it comes from tupleLookup()/Cache::lookup(), or is a TuplePtr already
stored somewhere (element of another tuple set, field of a record filled from one, a TuplePtr
parameter whose call sites are themselves instances). Instance: every TuplePtr inserted into a
TuplePtrSet and every TuplePtr passed to internalAddTransition. A `new StateTuple`/make_shared
pointer is the violation."""
from vfacts import strip, walk, method_name, is_node
from .prov import var_table, local_sources

RULE = 'HASHCONS'
FLOOR = 3
TPS = 'std::set<std::shared_ptr<std::vector<unsigned long'
TP = 'std::shared_ptr<std::vector<unsigned long'


def classify(unit, fn, e, depth=0):
    e = strip(e)
    if e is None or depth > 8:
        return 'unknown'
    k = e['k']
    if k in ('CXXMemberCallExpr', 'CallExpr') and method_name(e) in ('tupleLookup', 'lookup'):
        return 'lookup'
    if k == 'CXXNewExpr':
        return 'fresh'
    if k == 'CallExpr' and e.get('q') == 'std::make_shared':
        return 'fresh'
    if k in ('CXXConstructExpr', 'CXXTemporaryObjectExpr'):
        for a in e.get('args', []):
            if (strip(a) or {}).get('k') == 'CXXNewExpr':
                return 'fresh'
        if e.get('args'):
            return classify(unit, fn, e['args'][0], depth + 1)
        return 'unknown'
    if k == 'DeclRefExpr':
        v = var_table(fn).get(e.get('d'))
        if not v:
            return 'unknown'
        if v['kind'] in ('param', 'lparam'):
            return 'existing(param)'
        if v['kind'] == 'rangevar':
            return 'existing(element)'
        rs = {classify(unit, fn, s, depth + 1) for s in local_sources(fn, e['d'])}
        if 'fresh' in rs:
            return 'fresh'
        if rs and all(r.startswith(('lookup', 'existing')) for r in rs):
            return sorted(rs)[0]
        return 'unknown'
    if k == 'MemberExpr':
        return 'existing(field %s)' % e['n']
    if k in ('UnaryOperator', 'CXXOperatorCallExpr') and e.get('op') == '*':
        return 'existing(element)'
    return 'unknown'


def run(unit, em):
    for fn in unit.functions:
        if fn.body is None or 'explicit_tree' not in fn.file:
            continue
        for c in fn.calls():
            m = method_name(c)
            arg = None
            if c['k'] == 'CXXMemberCallExpr' and m == 'insert' and len(c.get('args', [])) == 1:
                ot = unit.ty(strip(c.get('obj')) or c['obj']).replace('const ', '')
                if ot.startswith(TPS) and unit.ty(strip(c['args'][0]) or c['args'][0]).replace('const ', '').startswith(TP):
                    arg = c['args'][0]
            elif m == 'internalAddTransition' and c.get('args'):
                arg = c['args'][0]
            if arg is None:
                continue
            cl = classify(unit, fn, arg)
            txt = unit.text(c, 80)
            if cl == 'fresh':
                em.violation(c, txt, 'a TuplePtr built with new/make_shared is stored without going through tupleLookup(): ContainsTransition and the tuple sets compare by address, the rule would be missed or duplicated')
            elif cl == 'unknown':
                em.unknown(c, txt, 'origin of the stored TuplePtr not resolved')
            else:
                em.ok(c, txt, cl)
