"""CANON — unique-table, reduction and apply-recursion discipline of the MTBDD package (C17).

  C1  CreateLeaf / CreateInternal are called only inside spawnLeaf / spawnInternal (hash-consing is
      the only way to make a node)
  C2  every spawnInternal(l, h, v) is reached only with l != h (reduction) — frozen exceptions:
      constructMTBDD (the sink is the default leaf and the node is not: entry test) and renameNode
      (an order-preserving renaming keeps distinct reduced children distinct)
  C3  MEMO-RESET: every public operator() of the apply functors clears the memo table `ht` before
      the first recDescend (keys are raw node addresses that can be reused after a release)
  C4  apply recursion: the two recursive descents pair low subtrees with low subtrees and high with
      high; spawnInternal gets (low result, high result); the node-to-branch decision of operand k
      (relation & NODEkMASK) takes variable and children from operand k itself
  C5  MEMO-KEY: the memo key is built from exactly the node parameters, and a computed result is
      stored under it before it is returned (frozen exception: the unary functors do not cache
      internal nodes, by design)
  C6  classifyCase: operand k is branched iff it is internal and every other operand is a leaf or has
      a variable <= its own (`>=`, not `>`: equal variables branch together)
  C7  equality of two handles is identity of their roots and reads nothing else"""
import re
from vfacts import strip, walk, method_name, must_pass_through, known_facts, is_node
from .prov import var_table, local_sources

RULE = 'CANON'
FLOOR = 30
ANCHORS = ['Apply2Functor::recDescend', 'classifyCase2']
C2_EXC = {'constructMTBDD': 'sink is the default leaf, the spine node is not (entry test returns early otherwise)',
          'renameNode': 'order-preserving renaming keeps the two distinct reduced children distinct'}
UNARY = ('Apply1Functor', 'VoidApply1Functor')


def construct_entry_test(unit, fn, call):
    """True, or the reason why spawnInternal(sink, spine) in constructMTBDD may get equal children"""
    from vfacts import guards
    from .prov import var_table, local_sources
    vt = var_table(fn)
    # the sink: a local initialised by spawnLeaf(D)
    dtxt = None
    for a in call.get('args', [])[:2]:
        s = strip(a)
        if s is not None and s['k'] == 'DeclRefExpr' and s.get('d') in vt and vt[s['d']]['kind'] == 'local':
            for src in local_sources(fn, s['d']):
                ss = strip(src)
                if ss is not None and ss['k'] in ('CallExpr', 'CXXMemberCallExpr') and cname(ss) == 'spawnLeaf' and ss.get('args'):
                    dtxt = unit.text(strip(ss['args'][0]), 0)
    if dtxt is None:
        return 'no child is a leaf spawned for the default value'
    params = {p['d'] for p in fn.params}
    for pol, cnd, how in guards(call):
        if how != 'early-exit' or pol is not False:
            continue
        for x in walk(cnd):
            ops = None
            if x['k'] == 'BinaryOperator' and x.get('op') == '==':
                ops = x['ch']
            elif x['k'] == 'CXXOperatorCallExpr' and x.get('op') == '==' and len(x.get('args', [])) == 2:
                ops = x['args']
            if not ops:
                continue
            l, r = strip(ops[0]), strip(ops[1])
            for u_, v_ in ((l, r), (r, l)):
                if u_ is not None and u_['k'] in ('CallExpr', 'CXXMemberCallExpr') and cname(u_) == 'GetDataFromLeaf' and u_.get('args'):
                    node = strip(u_['args'][0])
                    if node is not None and node.get('d') in params and unit.text(v_, 0) == dtxt:
                        return True
    return 'no early exit `GetDataFromLeaf(<node parameter>) == %s` dominates this call, so the given node can be the sink itself' % dtxt


def cname(c):
    return (c.get('q') or '').rsplit('::', 1)[-1] if c['k'] in ('CallExpr', 'CXXMemberCallExpr') else None


def side_of(fn, e, depth=0, seen=None):
    """'low' / 'high' / 'self' / None: does a subtree argument derive from GetLow*, GetHigh* or the node itself"""
    e = strip(e)
    seen = seen if seen is not None else set()
    if e is None or depth > 6:
        return set()
    if e['k'] == 'CallExpr':
        n = cname(e) or ''
        if n.startswith('GetLowFromInternal'):
            return {'low'}
        if n.startswith('GetHighFromInternal'):
            return {'high'}
        return set()
    if e['k'] == 'DeclRefExpr':
        v = var_table(fn).get(e.get('d'))
        if v is None:
            return set()
        if v['kind'] == 'param':
            return {'self'}
        if e['d'] in seen:
            return set()
        seen.add(e['d'])
        out = set()
        for s in local_sources(fn, e['d']):
            ss = strip(s)
            if ss is not None and ss['k'] == 'IntegerLiteral':
                continue
            out |= side_of(fn, s, depth + 1, seen)
        return out
    return set()


def memo_fields(unit):
    """class record type id -> (decl id of the memo-table field, decl id of the key variable): the field on
    which recDescend calls find(key)"""
    out = {}
    for fn in unit.functions:
        if fn.body is None or fn.q.rsplit('::', 1)[-1] != 'recDescend':
            continue
        for c in fn.calls():
            if c['k'] == 'CXXMemberCallExpr' and method_name(c) == 'find' and c.get('args'):
                o = strip(c.get('obj'))
                a = strip(c['args'][0])
                if o is not None and o['k'] == 'MemberExpr' and o.get('dk') == 'field' and a is not None and a['k'] == 'DeclRefExpr':
                    out[fn.d.get('rcd')] = (o['d'], a['d'])
    return out


def run(unit, em):
    MEMO = memo_fields(unit)
    for fn in unit.functions:
        if fn.body is None or '/mtbdd/' not in fn.file:
            continue
        name = fn.q.rsplit('::', 1)[-1]
        cls = (fn.cls or '').rsplit('::', 1)[-1]
        if cls == 'Apply2Functor' and name == 'recDescend':
            em.anchor(fn, 'Apply2Functor::recDescend')
        if name == 'classifyCase2':
            em.anchor(fn, 'classifyCase2')
        cfg = fn.cfg()
        # ---- C7 equality is root identity: the verdict of operator== / != of the handle class reads the roots and nothing else
        if cls == 'OndriksMTBDD' and name in ('operator==', 'operator!=') and len(fn.params) == 1:
            extra = []
            roots = 0
            for r in fn.walk():
                e = None
                if r['k'] == 'ReturnStmt':
                    e = (r.get('ch') or [None])[0]
                elif r['k'] in ('IfStmt', 'ConditionalOperator'):
                    e = r.get('c') if r['k'] == 'IfStmt' else r['ch'][0]
                if not is_node(e):
                    continue
                for x in walk(e):
                    if x['k'] == 'MemberExpr' and x.get('dk', 'field') == 'field':
                        if x.get('n') == 'root_':
                            roots += 1
                        else:
                            extra.append(x)
                    elif x['k'] == 'CXXMemberCallExpr' and (x.get('q') or '').startswith('VATA::MTBDDPkg::OndriksMTBDD::'):
                        m = method_name(x)
                        if m in ('getRoot', 'operator==', 'operator!='):
                            roots += 1
                        else:
                            extra.append(x)
            if extra:
                em.violation(extra[0], 'OndriksMTBDD::%s' % name, 'the verdict also reads %s: nodes are hash-consed, so two handles denote the same function exactly when their roots are identical; '
                             'anything else that enters the comparison (the default value is bookkeeping of how the diagram was built) makes equal functions compare unequal' % unit.text(extra[0], 40), 'C7')
            elif roots:
                em.ok(fn, 'OndriksMTBDD::%s' % name, 'the verdict is a comparison of the roots only', 'C7')
            else:
                em.violation(fn, 'OndriksMTBDD::%s' % name, 'the verdict does not compare the roots', 'C7')
        # ---- C1
        for c in fn.calls():
            cn = cname(c)
            if cn in ('CreateLeaf', 'CreateInternal'):
                want = 'spawnLeaf' if cn == 'CreateLeaf' else 'spawnInternal'
                if name == want:
                    em.ok(c, unit.text(c, 50), 'inside %s' % want, 'C1')
                else:
                    em.violation(c, unit.text(c, 50), '%s called outside %s: the node bypasses the unique table, equal functions get different roots' % (cn, want), 'C1')
        # ---- C2
        for c in fn.calls():
            if cname(c) == 'spawnInternal' and len(c.get('args', [])) == 3 and name != 'spawnInternal':
                a, b = strip(c['args'][0]), strip(c['args'][1])
                ta, tb = unit.text(a, 0), unit.text(b, 0)
                facts, _ = known_facts(c)
                good = False
                for pol, atom in facts:
                    at = strip(atom)
                    if at is None:
                        continue
                    ops = None
                    if at['k'] == 'BinaryOperator' and at.get('op') in ('==', '!='):
                        ops, op = at['ch'], at['op']
                    elif at['k'] == 'CXXOperatorCallExpr' and at.get('op') in ('==', '!=') and len(at.get('args', [])) == 2:
                        ops, op = at['args'], at['op']
                    if ops:
                        l, r = unit.text(strip(ops[0]), 0), unit.text(strip(ops[1]), 0)
                        if {l, r} == {ta, tb} and ((op == '==' and pol is False) or (op == '!=' and pol is True)):
                            good = True
                txt = unit.text(c, 70)
                if good:
                    em.ok(c, txt, 'reached only with %s != %s' % (ta, tb), 'C2')
                elif name == 'constructMTBDD':
                    # not frozen: the exception holds only because of the entry test.  sink = spawnLeaf(D); the spine starts at
                    # the parameter node; an early exit `if (IsLeaf(node) && GetDataFromLeaf(node) == D) return ..` must dominate.
                    why = construct_entry_test(unit, fn, c)
                    if why is True:
                        em.ok(c, txt, 'the sink is the default leaf and the entry test returns early when the given node is that leaf, so the two children differ', 'C2')
                    else:
                        em.violation(c, txt, 'an internal node can be created with identical children %s, %s: %s; extending a constant MTBDD then builds unreduced nodes and equal functions compare unequal' % (ta, tb, why), 'C2')
                elif name in C2_EXC:
                    em.ok(c, txt, 'frozen exception (%s): %s' % (name, C2_EXC[name]), 'C2')
                else:
                    em.violation(c, txt, 'an internal node can be created with identical children %s, %s: the MTBDD is no longer reduced and equal functions compare unequal' % (ta, tb), 'C2')
        # ---- C7 projection: the equal-children shortcut applies only to variables that are kept
        if name == 'projectNode':
            for n in fn.walk():
                if n['k'] != 'IfStmt':
                    continue
                c = strip(n['c'])
                ops = None
                if c is not None and c['k'] == 'BinaryOperator' and c.get('op') == '==':
                    ops = c['ch']
                elif c is not None and c['k'] == 'CXXOperatorCallExpr' and c.get('op') == '==' and len(c.get('args', [])) == 2:
                    ops = c['args']
                if not ops:
                    continue
                names = {unit.text(strip(o), 0) for o in ops}
                if not all(re.search('[Tt]ree|low|high', x) for x in names) or len(names) != 2:
                    continue
                facts, _ = known_facts(n)
                kept = any(pol is False and (strip(a) or {}).get('k') == 'CXXOperatorCallExpr' and (strip(a) or {}).get('op') == '()' for pol, a in facts) or \
                    any(pol is False and 'pred' in unit.text(a, 0) for pol, a in facts)
                if kept:
                    em.ok(n, 'projectNode: ' + unit.text(n['c'], 40), 'the equal-children shortcut is taken only when the variable is not projected out', 'C7')
                else:
                    em.violation(n, 'projectNode: ' + unit.text(n['c'], 40), 'the equal-children shortcut is reachable for a projected variable: op(child, child) is skipped, which is wrong for non-idempotent operations', 'C7')
        if cfg is None:
            continue
        is_apply = cls in ('Apply1Functor', 'Apply2Functor', 'Apply3Functor', 'VoidApply1Functor', 'VoidApply2Functor')
        # ---- C3
        if is_apply and name == 'operator()':
            rec = [c for c in fn.calls() if cname(c) == 'recDescend']
            if rec:
                def clears(x):
                    mf = MEMO.get(fn.d.get('rcd'), (None, None))[0]
                    o = strip(x.get('obj')) if x['k'] == 'CXXMemberCallExpr' else None
                    return x['k'] == 'CXXMemberCallExpr' and method_name(x) == 'clear' and o is not None and (o.get('d') == mf if mf is not None else o.get('n') == 'ht')
                ok, _ = must_pass_through(cfg, (cfg.entry, 0), lambda x: x is rec[0], clears, start_after=False)
                nm = '%s::operator() [%d parameters]: memo reset' % (cls, len(fn.params))
                if ok:
                    em.ok(rec[0], nm, 'ht.clear() on every path before recDescend', 'C3')
                else:
                    em.violation(rec[0], nm, 'the address-keyed memo table survives from the previous application: a node address reused after a release yields a stale result', 'C3')
        if not (is_apply and name == 'recDescend'):
            # ---- C6
            if name.startswith('classifyCase'):
                nparams = len(fn.params)
                pd = [p['d'] for p in fn.params]
                for n in fn.walk():
                    if n['k'] in ('CompoundAssignOperator', 'BinaryOperator') and n.get('op') == '|=':
                        mask = strip(n['ch'][1])
                        mname = mask.get('n', '') if mask is not None else ''
                        m = re.search(r'NODE(\d)MASK', mname)
                        if not m:
                            continue
                        k = int(m.group(1)) - 1
                        facts, _ = known_facts(n)
                        internal_k = False
                        cmp_ok = True
                        seen_cmp = 0
                        others = set()
                        for pol, atom in facts:
                            at = strip(atom)
                            if at is None:
                                continue
                            if pol is True and at['k'] == 'CallExpr' and cname(at) == 'IsInternal' and (strip(at['args'][0]) or {}).get('d') == pd[k]:
                                internal_k = True
                            # disjunctions  IsLeaf(other) || Var(k) >= Var(other)
                            for x in walk(at):
                                if x['k'] == 'BinaryOperator' and x.get('op') in ('>=', '>', '<', '<='):
                                    l, r = strip(x['ch'][0]), strip(x['ch'][1])
                                    if l is not None and r is not None and l['k'] == 'CallExpr' and r['k'] == 'CallExpr' and cname(l) == cname(r) == 'GetVarFromInternal':
                                        seen_cmp += 1
                                        ld, rd = (strip(l['args'][0]) or {}).get('d'), (strip(r['args'][0]) or {}).get('d')
                                        others.add(rd if ld == pd[k] else ld)
                                        if not ((x['op'] == '>=' and ld == pd[k] and rd != pd[k]) or (x['op'] == '<=' and rd == pd[k] and ld != pd[k])):
                                            cmp_ok = False
                        txt = unit.text(n, 50)
                        if internal_k and cmp_ok and others == set(pd) - {pd[k]}:
                            em.ok(n, '%s: %s' % (name, txt), 'operand %d branched iff internal and its variable >= every other internal operand\'s' % (k + 1), 'C6')
                        else:
                            em.violation(n, '%s: %s' % (name, txt), 'operand %d must be branched exactly when it is internal and its variable is >= the variable of every other internal operand (found internal-test=%s, comparisons ok=%s, compared against %d of %d other operands)' % (k + 1, internal_k, cmp_ok, len(others & (set(pd) - {pd[k]})), nparams - 1), 'C6')
            continue
        # ---- C4 / C5 on recDescend
        nodes = [p['d'] for p in fn.params]
        rec = [c for c in fn.calls() if cname(c) == 'recDescend' and len(c.get('args', [])) == len(nodes)]
        sp = [c for c in fn.calls() if cname(c) == 'spawnInternal' and len(c.get('args', [])) == 3]
        void = cls.startswith('Void')
        # pairing of the descents
        kinds = []
        for c in rec:
            sides = set()
            for a in c['args']:
                sides |= side_of(fn, a) - {'self'}
            kinds.append(sides)
            txt = unit.text(c, 70)
            if len(sides) == 1:
                em.ok(c, txt, 'descends into the %s subtrees of all operands' % next(iter(sides)), 'C4-pair')
            elif not sides:
                em.unknown(c, txt, 'subtree provenance not resolved', 'C4-pair')
            else:
                em.violation(c, txt, 'one recursive descent mixes low and high subtrees of different operands: the result is not the pointwise application', 'C4-pair')
        if len(rec) >= 2 and sorted(map(lambda s: next(iter(s)) if len(s) == 1 else '?', kinds))[:2] != ['high', 'low']:
            em.violation(rec[0], 'recDescend: both halves', 'the recursion must descend once into the low and once into the high subtrees (found %s)' % kinds, 'C4-both')
        elif len(rec) >= 2:
            em.ok(rec[0], 'recDescend: both halves', 'one low descent, one high descent', 'C4-both')
        # spawnInternal(lowOut, highOut, var)
        for c in sp:
            def res_side(e):
                e = strip(e)
                if e is None or e['k'] != 'DeclRefExpr':
                    return None
                for s in local_sources(fn, e['d']):
                    ss = strip(s)
                    if ss is not None and ss['k'] in ('CallExpr', 'CXXMemberCallExpr') and cname(ss) == 'recDescend':
                        sd = set()
                        for a in ss['args']:
                            sd |= side_of(fn, a) - {'self'}
                        if len(sd) == 1:
                            return next(iter(sd))
                return None
            l, h = res_side(c['args'][0]), res_side(c['args'][1])
            txt = unit.text(c, 70)
            if (l, h) == ('low', 'high'):
                em.ok(c, txt, 'low result becomes the low child, high result the high child', 'C4-spawn')
            elif l is None or h is None:
                em.unknown(c, txt, 'origin of the children not resolved', 'C4-spawn')
            else:
                em.violation(c, txt, 'the %s-descent result is used as low child and the %s-descent result as high child' % (l, h), 'C4-spawn')
        # branch decision of operand k uses operand k
        for n in fn.walk():
            if n['k'] != 'IfStmt':
                continue
            c = strip(n['c'])
            if c is None or c['k'] != 'BinaryOperator' or c.get('op') != '&':
                continue
            mask = strip(c['ch'][1])
            m = re.search(r'NODE(\d)MASK', (mask or {}).get('n', '')) if mask is not None else None
            if not m:
                continue
            k = int(m.group(1)) - 1
            if k >= len(nodes):
                continue
            bad = None
            for x in walk(n.get('th')):
                if x['k'] == 'CallExpr' and (cname(x) or '').endswith('FromInternal') and x.get('args'):
                    d = (strip(x['args'][0]) or {}).get('d')
                    if d in nodes and d != nodes[k]:
                        bad = x
            txt = unit.text(n['c'], 40)
            if bad is None:
                em.ok(n, 'recDescend: ' + txt, 'variable and children taken from operand %d' % (k + 1), 'C4-mask')
            else:
                em.violation(bad, 'recDescend: ' + txt, 'under the decision to branch operand %d, `%s` reads another operand' % (k + 1, unit.text(bad, 40)), 'C4-mask')
        # ---- C5 memo key / store
        keyvar = None
        for n in fn.walk():
            if n['k'] == 'DeclStmt':
                for d in n.get('decls', []):
                    if d['d'] == MEMO.get(fn.d.get('rcd'), (None, None))[1] or (fn.d.get('rcd') not in MEMO and 'CacheAddress' in unit.tname(d['ts'])):
                        keyvar = (d, n)
        if keyvar is None:
            em.unknown(fn, '%s::recDescend: memo key' % cls, 'key variable not found', 'C5')
            continue
        d, dn = keyvar
        used = {x.get('d') for x in walk(d['init']) if x['k'] == 'DeclRefExpr'} if is_node(d.get('init')) else set()
        if set(nodes) <= used and not (used - set(nodes) - {None}):
            em.ok(dn, '%s::recDescend: memo key' % cls, 'built from exactly the %d node parameters' % len(nodes), 'C5-key')
        else:
            em.violation(dn, '%s::recDescend: memo key' % cls, 'the memo key is not built from exactly the node parameters (missing: %d) — results of different operand tuples would be confused' % len(set(nodes) - used), 'C5-key')
        if void:
            continue
        for r in fn.walk():
            if r['k'] != 'ReturnStmt':
                continue
            rv = strip((r.get('ch') or [None])[0])
            if rv is None or rv['k'] != 'DeclRefExpr':
                continue  # memo hit (returns itHt->second) or non-variable
            if cls in UNARY and not any(x['k'] == 'CallExpr' and cname(x) == 'IsLeaf' for pol, a in known_facts(r)[0] if pol is True for x in walk(a)):
                em.ok(r, unit.text(r, 40), 'frozen exception: unary apply does not cache internal nodes', 'C5-store')
                continue
            rd = rv['d']

            def stores(x):
                if x['k'] == 'CXXMemberCallExpr' and method_name(x) == 'insert' and (strip(x.get('obj')) or {}).get('d') == MEMO.get(fn.d.get('rcd'), (None, None))[0]:
                    ds = {y.get('d') for y in walk(x) if y['k'] == 'DeclRefExpr'}
                    return rd in ds and d['d'] in ds
                return False
            ok, _ = must_pass_through(cfg, (cfg.entry, 0), lambda x: x is r, stores, start_after=False)
            if ok:
                em.ok(r, unit.text(r, 40), 'stored under the key before being returned', 'C5-store')
            else:
                em.violation(r, unit.text(r, 40), 'a computed result is returned without being stored under the memo key: shared subgraphs are recomputed and, with side-effecting leaf operations, applied repeatedly', 'C5-store')
