"""CONGRMATCH — a congruence rule is tested against the closure it is then added to (C09, C19).

Bisimulation up to congruence saturates a macro-state `set` with the rules (X, Y) of the relation: a rule applies when
one side is already contained in the closure, and then both sides are added (`AddSubSet(set, X); AddSubSet(set, Y)`).
`MatchPair(closure, rule)` answers "rule is a subset of closure".  Instance: every `MatchPair(A, B)` in a condition
whose guarded branch calls `AddSubSet(S, ..)`.  Obligations: A is S (the closure that grows), and B derives from the
same relation element as the added sides.  With the arguments exchanged a rule whose side is a *superset* of the
closure is applied: the closure is over-approximated, pairs are judged implied and dropped, and a counterexample
behind them is never explored (seed C09-5, in the already-visited twin only)."""
from vfacts import strip, walk, is_node, method_name, root_path
from .prov import origins

RULE = 'CONGRMATCH'
FLOOR = 3
ANCHORS = ['ExplicitFACongrFunctorCacheOpt::ApplyRulesForRelation', 'ExplicitFACongrFunctorCacheOpt::ApplyRulesForRelationVisited']


def run(unit, em):
    for fn in unit.functions:
        if fn.body is None or 'congr' not in fn.file:
            continue
        short = fn.q.replace('VATA::', '')
        anchored = False
        for n in fn.walk():
            if n['k'] != 'IfStmt' or not is_node(n.get('c')) or not is_node(n.get('th')):
                continue
            matches = [c for c in walk(n['c']) if c['k'] in ('CXXMemberCallExpr', 'CallExpr') and method_name(c) == 'MatchPair' and len(c.get('args', [])) == 2]
            if not matches:
                continue
            adds = [c for c in walk(n['th'], lambdas=False) if c['k'] in ('CXXMemberCallExpr', 'CallExpr') and method_name(c) == 'AddSubSet' and len(c.get('args', [])) == 2]
            if not adds:
                continue
            for a in ANCHORS:
                if short.startswith(a.split('::')[0]) and short.endswith(a.split('::')[1]) and not anchored:
                    em.anchor(fn, a)
                    anchored = True
            S = root_path(adds[0]['args'][0])
            added = set()
            for a in adds:
                added |= origins(fn, a['args'][1])
            for m in matches:
                txt = unit.text(m, 70)
                A, B = root_path(m['args'][0]), m['args'][1]
                if A is None or S is None:
                    em.unknown(m, txt, 'closure argument not resolved', 'closure')
                elif A != S:
                    em.violation(m, txt, 'the first argument of MatchPair (the closure, "rule is contained in it") is %s, but the branch it guards adds the rule to %s: with the arguments in this order a rule whose side is a superset of the closure is applied and the closure is over-approximated' % (
                        unit.text(m['args'][0], 30), unit.text(adds[0]['args'][0], 30)), 'closure')
                elif not (origins(fn, B) & added):
                    em.violation(m, txt, 'the rule side tested here does not come from the relation element whose sides are added in the branch', 'closure')
                else:
                    em.ok(m, txt, 'tests the closure the rule is then added to', 'closure')
