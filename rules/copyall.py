"""COPYALL — a field-wise copy is not skipped by an unrelated early exit (C20, C04/C16 engine state).

Instance: every assignment `dst.F = src.F` between the same-named field of two different objects of
one record type (copy loops, copy helpers such as SharedCounter::copyLabels). Obligation: an earlier
`if (c) continue/return/break;` in the same block may skip it only if `c` looks at that very field
(`if (!src.F) continue;` — nothing to copy) or is a self-assignment test. A copy of field F skipped
under a condition on a *different* field leaves dst.F stale/uninitialised on that path."""
from vfacts import strip, walk, root_path, stmt_exits, is_node

RULE = 'COPYALL'
FLOOR = 45


def field_copy(n):
    l = r = None
    if n['k'] == 'BinaryOperator' and n.get('op') == '=':
        l, r = strip(n['ch'][0]), strip(n['ch'][1])
    elif n['k'] == 'CXXOperatorCallExpr' and n.get('op') == '=' and len(n.get('args', [])) == 2:
        l, r = strip(n['args'][0]), strip(n['args'][1])
    if l is None or r is None or l['k'] != 'MemberExpr' or r['k'] != 'MemberExpr':
        return None
    if l['n'] != r['n'] or l.get('cls') != r.get('cls') or l.get('dk') != 'field':
        return None
    lb, rb = root_path(l), root_path(r)
    if not lb or not rb or lb[:-1] == rb[:-1]:
        return None
    return l['n'], lb[:-1], rb[:-1]


def mentions_field(cond, name):
    return any(x['k'] == 'MemberExpr' and x['n'] == name for x in walk(cond))


def self_test(cond, a, b):
    txt_this = any(x['k'] == 'CXXThisExpr' for x in walk(cond))
    amp = any(x['k'] == 'UnaryOperator' and x.get('op') == '&' for x in walk(cond))
    return txt_this and amp


def run(unit, em):
    for fn in unit.functions:
        if fn.body is None or '/repo/' not in fn.file and '/witness/' not in fn.file:
            pass
        if fn.body is None:
            continue
        for n in fn.walk():
            fc = field_copy(n)
            if not fc:
                continue
            F, dst, src = fc
            # earlier sibling early-exits in the chain of enclosing compound statements (up to the loop / function)
            bad = None
            cur = n
            while cur is not None and bad is None:
                p = cur.get('_p')
                if p is None:
                    break
                if p['k'] == 'CompoundStmt':
                    for sib in p.get('ch', []):
                        if sib is cur:
                            break
                        if sib['k'] == 'IfStmt' and sib.get('el') is None and stmt_exits(sib.get('th')):
                            c = sib['c']
                            if mentions_field(c, F) or self_test(c, dst, src):
                                continue
                            # the guard must concern the objects being copied to be relevant
                            roots = {root_path(x)[:-1] for x in walk(c) if x['k'] == 'MemberExpr' and root_path(x)}
                            if src in roots or dst in roots:
                                bad = sib
                                break
                if p['k'] in ('ForStmt', 'WhileStmt', 'CXXForRangeStmt', 'DoStmt', 'LambdaExpr'):
                    break
                cur = p
            txt = unit.text(n, 70)
            if bad is not None:
                em.violation(n, txt, 'this field copy is skipped when `%s` leaves early, a condition that does not look at %s: on that path the destination keeps a stale %s' % (unit.text(bad['c'], 50), F, F))
            else:
                em.ok(n, txt, 'on every path of its block (or skipped only when %s itself is empty)' % F)


# ---- clause `complete`: a hand-written assignment operator / copy constructor handles every data member
def run_complete(unit, em):
    recs = {r.get('d'): r for r in unit.records}
    for fn in unit.functions:
        if not fn.d.get('rcd') or fn.d['rcd'] not in recs:
            continue
        name = fn.q.rsplit('::', 1)[-1]
        rec = recs[fn.d['rcd']]
        rct = rec['rct'].replace('const ', '').strip()
        is_asg = name == 'operator=' and fn.body is not None and len(fn.params) == 1
        is_cctor = fn.d.get('fk') == 'ctor' and len(fn.params) == 1
        if not (is_asg or is_cctor):
            continue
        pt = unit.ty(fn.params[0]).replace('const ', '').replace('&', '').strip()
        if pt != rct:
            continue
        def assignable(t):
            t = t.replace('const ', '').strip()
            for r2 in unit.records:
                if r2['rct'].replace('const ', '').strip() == t:
                    if any(unit.tname(f2.get('t')).rstrip().endswith('&') for f2 in r2.get('fields', [])):
                        return False     # a class with a reference member cannot be re-seated by assignment
            return True
        fields = [f for f in rec.get('fields', []) if not unit.tname(f.get('t')).rstrip().endswith('&') and not unit.tname(f.get('t')).startswith('const ')
                  and (is_cctor or assignable(unit.tname(f.get('t'))))]
        if len(fields) < 2:
            continue
        handled = set()
        if is_cctor:
            # only initialisers written in the source count: a member left to its in-class default initialiser
            # (`size_t next_ = 0;`) starts afresh instead of being copied
            for i in fn.d.get('inits') or []:
                if i.get('n') and i.get('written'):
                    handled.add(i['n'])
                elif i.get('n') and is_node(i.get('init')):
                    # an in-class initialiser that binds the member to the object's own storage (`transl_{dict_, [this]...}`)
                    # is exactly what a copy needs: the member must NOT be copied from the source (rule SELFREF)
                    from .selfref import self_refs
                    if self_refs(unit, fn, i['init'], i['n']):
                        handled.add(i['n'])
            if not any(i.get('written') for i in fn.d.get('inits') or []):
                continue
        if fn.body is not None:
            for n in fn.walk():
                # any mention of an own member counts as handling it (deep copies rebuild members through calls)
                if n['k'] == 'MemberExpr' and n.get('dk', 'field') == 'field':
                    b0 = n.get('ch') or [n.get('obj')]
                    bb0 = strip(b0[0]) if b0 and b0[0] else None
                    if bb0 is None or bb0['k'] == 'CXXThisExpr':
                        handled.add(n.get('n'))
                if n['k'] in ('BinaryOperator', 'CXXOperatorCallExpr') and n.get('op') == '=':
                    ops = n.get('ch') if n['k'] == 'BinaryOperator' else n.get('args')
                    l = strip(ops[0]) if ops else None
                    if l is not None and l['k'] == 'MemberExpr' and l.get('dk', 'field') == 'field':
                        b = l.get('ch') or [l.get('obj')]
                        bb = strip(b[0]) if b and b[0] else None
                        if bb is None or bb['k'] == 'CXXThisExpr':
                            handled.add(l.get('n'))
                # swap(a.F, b.F) / std::swap(F, rhs.F)
                if n['k'] == 'CallExpr' and (n.get('q') or '').endswith('swap'):
                    for a in n.get('args') or []:
                        sa = strip(a)
                        if sa is not None and sa['k'] == 'MemberExpr':
                            handled.add(sa.get('n'))
                # delegation to a base / whole-object copy: not analysed
                if n['k'] in ('CXXMemberCallExpr', 'CXXOperatorCallExpr') and (n.get('q') or '').endswith('operator=') and n.get('inrepo') and n is not fn.body:
                    cal = n.get('q') or ''
                    if cal.rsplit('::', 2)[0] != fn.q.rsplit('::', 2)[0]:
                        pass
        missing = [f['n'] for f in fields if f['n'] not in handled]
        what = '%s::%s' % (rct.split('::')[-1].split('<')[0], 'operator=' if is_asg else 'copy/move constructor')
        if not handled:
            continue        # defaulted-like / delegating implementation: nothing field-wise to compare
        if missing:
            em.violation(fn, what + ' handles every member', 'the hand-written %s copies the members one by one but leaves out `%s`: the destination keeps its own old value of that member (a cached answer, a counter) after taking over the rest of the source' % (
                'assignment operator' if is_asg else 'constructor', '`, `'.join(missing)), 'complete')
        else:
            em.ok(fn, what + ' handles every member', '%d members' % len(fields), 'complete')


_run_copies = run


def run(unit, em):
    _run_copies(unit, em)
    run_complete(unit, em)
