"""COPYALL — a field-wise copy is not skipped by an unrelated early exit (C20, C04/C16 engine state).

Instance: every assignment `dst.F = src.F` between the same-named field of two different objects of
one record type (copy loops, copy helpers such as SharedCounter::copyLabels). Obligation: an earlier
`if (c) continue/return/break;` in the same block may skip it only if `c` looks at that very field
(`if (!src.F) continue;` — nothing to copy) or is a self-assignment test. A copy of field F skipped
under a condition on a *different* field leaves dst.F stale/uninitialised on that path."""
from vfacts import strip, walk, root_path, stmt_exits, is_node

RULE = 'COPYALL'
FLOOR = 30


def field_copy(n):
    l = r = None
    if n['k'] == 'BinaryOperator' and n.get('op') == '=':
        l, r = strip(n['ch'][0]), strip(n['ch'][1])
    elif n['k'] == 'CXXOperatorCallExpr' and n.get('op') == '=' and len(n.get('args', [])) == 2:
        l, r = strip(n['args'][0]), strip(n['args'][1])
    if l is None or r is None or l['k'] != 'MemberExpr' or r['k'] != 'MemberExpr':
        return None
    if l['n'] != r['n'] or l.get('cls') != r.get('cls') or l.get('dk') != 'field':
        return None
    lb, rb = root_path(l), root_path(r)
    if not lb or not rb or lb[:-1] == rb[:-1]:
        return None
    return l['n'], lb[:-1], rb[:-1]


def mentions_field(cond, name):
    return any(x['k'] == 'MemberExpr' and x['n'] == name for x in walk(cond))


def self_test(cond, a, b):
    txt_this = any(x['k'] == 'CXXThisExpr' for x in walk(cond))
    amp = any(x['k'] == 'UnaryOperator' and x.get('op') == '&' for x in walk(cond))
    return txt_this and amp


def run(unit, em):
    for fn in unit.functions:
        if fn.body is None or '/repo/' not in fn.file and '/witness/' not in fn.file:
            pass
        if fn.body is None:
            continue
        for n in fn.walk():
            fc = field_copy(n)
            if not fc:
                continue
            F, dst, src = fc
            # earlier sibling early-exits in the chain of enclosing compound statements (up to the loop / function)
            bad = None
            cur = n
            while cur is not None and bad is None:
                p = cur.get('_p')
                if p is None:
                    break
                if p['k'] == 'CompoundStmt':
                    for sib in p.get('ch', []):
                        if sib is cur:
                            break
                        if sib['k'] == 'IfStmt' and sib.get('el') is None and stmt_exits(sib.get('th')):
                            c = sib['c']
                            if mentions_field(c, F) or self_test(c, dst, src):
                                continue
                            # the guard must concern the objects being copied to be relevant
                            roots = {root_path(x)[:-1] for x in walk(c) if x['k'] == 'MemberExpr' and root_path(x)}
                            if src in roots or dst in roots:
                                bad = sib
                                break
                if p['k'] in ('ForStmt', 'WhileStmt', 'CXXForRangeStmt', 'DoStmt', 'LambdaExpr'):
                    break
                cur = p
            txt = unit.text(n, 70)
            if bad is not None:
                em.violation(n, txt, 'this field copy is skipped when `%s` leaves early, a condition that does not look at %s: on that path the destination keeps a stale %s' % (unit.text(bad['c'], 50), F, F))
            else:
                em.ok(n, txt, 'on every path of its block (or skipped only when %s itself is empty)' % F)
