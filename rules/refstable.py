"""REFSTABLE — a reference handed out to an element of a growing container stays valid (C20; C09 C19 for the macro-state cache).

The macro-state cache returns `StateSet&` to the stored copy, and the inclusion functors keep those references (their
addresses key the memo tables, ADDRKEY).  Instance: every return of a member function whose return type is a reference
or pointer and whose returned expression is an *element* of a container owned by a field of the class (`c.back()`,
`c.front()`, `c[i]`, `*it`, a range-for variable over it, `it->second`), in a *get-or-create* function — one that itself inserts
into a container of that type, so that references it returned earlier are expected to outlive later calls (pure accessors
such as ExplicitLTS::bwLabels are not instances).  Obligation: the container is one whose element references survive insertion — std::list, forward_list,
deque, the ordered and the unordered associative containers — not std::vector / std::basic_string, where growth moves
every element and all references handed out earlier dangle."""
from vfacts import strip, walk, is_node, method_name
from .prov import var_table, local_sources

RULE = 'REFSTABLE'
FLOOR = 3
ANCHORS = ['MacroStateCache::insert']
STABLE = ('std::list<', 'std::forward_list<', 'std::deque<', 'std::set<', 'std::map<', 'std::multiset<', 'std::multimap<',
          'std::unordered_set<', 'std::unordered_map<', 'std::unordered_multiset<', 'std::unordered_multimap<')
UNSTABLE = ('std::vector<', 'std::basic_string<')
ELEM = ('back', 'front', 'at', 'operator[]')


def container_of(unit, fn, e, vt, depth=0):
    """type of the container whose element the lvalue e is, or None"""
    e = strip(e)
    if e is None or depth > 5:
        return None
    k = e['k']
    if k == 'CXXMemberCallExpr' and method_name(e) in ELEM and is_node(e.get('obj')):
        return unit.ty(strip(e['obj']) or e['obj'])
    if k == 'CXXOperatorCallExpr' and e.get('op') == '[]' and e.get('args'):
        return unit.ty(strip(e['args'][0]) or e['args'][0])
    if k == 'DeclRefExpr':
        v = vt.get(e.get('d'))
        if v is None:
            return None
        if v['kind'] == 'rangevar' and unit.ty(v['decl']).rstrip().endswith('&'):
            r = v['node'].get('range')
            return unit.ty(strip(r) or r) if is_node(r) else None
        if v['kind'] == 'local' and unit.ty(v['decl']).rstrip().endswith('&') and is_node(v['decl'].get('init')):
            return container_of(unit, fn, v['decl']['init'], vt, depth + 1)
    return None


def run(unit, em):
    for fn in unit.functions:
        if fn.body is None or not fn.d.get('rcd'):
            continue
        rt = unit.tname(fn.d.get('ret')).rstrip()
        if not rt.endswith(('&', '*')) or rt.startswith('const char'):
            continue
        rec = next((r for r in unit.records if r.get('d') == fn.d['rcd']), None)
        if rec is None:
            continue
        ftypes = [unit.tname(f.get('t')).replace('const ', '') for f in rec.get('fields', [])]
        vt = var_table(fn)
        short = fn.q.replace('VATA::', '')
        for r in fn.walk(lambdas=False):
            if r['k'] != 'ReturnStmt' or not (r.get('ch') or [None])[0]:
                continue
            e = r['ch'][0]
            se = strip(e)
            if se is not None and se['k'] == 'UnaryOperator' and se.get('op') == '&':
                e = se['ch'][0]
            ct = container_of(unit, fn, e, vt)
            if not ct:
                continue
            ct = ct.replace('const ', '').replace('&', '').strip()
            if not any(ct in ft for ft in ftypes):
                continue        # not storage owned by a field of the class
            grows = any(c['k'] == 'CXXMemberCallExpr' and method_name(c) in ('push_back', 'insert', 'emplace', 'emplace_back', 'push_front', 'resize')
                        and unit.ty(strip(c.get('obj')) or c.get('obj') or {'t': -1}).replace('const ', '').replace('&', '').strip() == ct
                        for c in fn.calls())      # get-or-create: the very function that hands the reference out also inserts
            if not grows:
                continue
            if any(short.endswith(a.split('::')[-1]) and a.split('::')[0] in short for a in ANCHORS):
                em.anchor(fn, ANCHORS[0])
            txt = unit.text(r, 60)
            if ct.startswith(STABLE):
                em.ok(r, txt, 'element of a %s: references survive later insertions' % ct.split('<')[0], 'stable')
            elif ct.startswith(UNSTABLE):
                em.violation(r, txt, 'a reference to an element of a %s owned by the object is handed out, and the class also inserts into that container: growth moves the elements, every reference returned earlier (and every address derived from it) dangles' % ct.split('<')[0], 'stable')
            else:
                em.unknown(r, txt, 'container kind %s not classified' % ct[:40], 'stable')


# ---- clause `callback`: an allocator callback that keeps the address of its argument is handed container-owned storage
def run_callbacks(unit, em):
    from .prov import origins
    keepers = []     # (lambda node, function, record decl of the object it is given to)
    for fn in unit.functions:
        if fn.body is None:
            continue
        for n in fn.walk():
            if n['k'] != 'LambdaExpr':
                continue
            lp = {p['d'] for p in n.get('params', []) if unit.ty(p).rstrip().endswith('&')}
            if not lp:
                continue
            keeps = None
            for x in walk(n.get('body')):
                if x['k'] == 'UnaryOperator' and x.get('op') == '&':
                    t = strip(x['ch'][0])
                    if t is not None and t['k'] == 'DeclRefExpr' and t.get('d') in lp:
                        par = x.get('_p')
                        while par is not None and par['k'] in ('ImplicitCastExpr', 'ParenExpr', 'MaterializeTemporaryExpr'):
                            par = par.get('_p')
                        if par is not None and par['k'] in ('CXXMemberCallExpr', 'CallExpr') and method_name(par) in ('push_back', 'insert', 'emplace_back', 'emplace'):
                            keeps = x
            if keeps is None:
                continue
            # the object constructed with this lambda
            par = n.get('_p')
            while par is not None and (par['k'] not in ('CXXConstructExpr', 'CXXTemporaryObjectExpr', 'DeclStmt') or
                                       (par['k'] != 'DeclStmt' and unit.ty(par).replace('const ', '').startswith('std::function<'))):
                par = par.get('_p')
            if par is not None and par['k'] in ('CXXConstructExpr', 'CXXTemporaryObjectExpr'):
                keepers.append((n, fn, keeps, unit.ty(par).replace('const ', '').strip()))
    for lam, fn, keeps, cls in keepers:
        ops = [g for g in unit.functions if g.body is not None and g.q.endswith('::operator()') and not g.d.get('const')
               and unit.tname(g.d.get('rc', -1)).replace('const ', '').strip() == cls]
        txt = 'callback keeping %s, given to %s' % (unit.text(keeps, 20), cls.split('<')[0].split('::')[-1])
        if not ops:
            em.unknown(lam, txt, 'operator() of the receiving class not found in this unit', 'callback')
            continue
        g = ops[0]
        gp = {p['d'] for p in g.params}
        calls = [c for c in g.walk() if c['k'] == 'CXXOperatorCallExpr' and c.get('op') == '()' and c.get('args') and
                 (strip(c['args'][0]) or {}).get('k') == 'MemberExpr' and 'function<' in unit.ty(strip(c['args'][0]))]
        if not calls:
            em.unknown(lam, txt, 'no application of the stored callback found', 'callback')
            continue
        bad = None
        for c in calls:
            for a in c['args'][1:]:
                o = origins(g, a, stop=gp)
                root = strip(a)
                direct_param = root is not None and root['k'] == 'DeclRefExpr' and root.get('d') in gp
                if direct_param or (o and o <= gp):
                    bad = (c, a)
        if bad:
            em.violation(bad[0], txt, 'the callback stores the address of its argument (%s, %s:%d), but %s::operator() applies it to its own parameter `%s` — possibly a temporary of the caller — instead of the key stored in the container: the kept pointers dangle as soon as the call returns' % (
                unit.text(keeps, 20), unit.rel(unit.loc(keeps)[0]), unit.loc(keeps)[1], cls.split('<')[0].split('::')[-1], unit.text(bad[1], 20)), 'callback')
        else:
            em.ok(calls[0], txt, 'the callback is applied to storage owned by the container (the inserted key)', 'callback')


_run_returns = run


def run(unit, em):
    _run_returns(unit, em)
    run_callbacks(unit, em)
