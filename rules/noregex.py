"""NOREGEX — the text front end does not run a backtracking regular-expression matcher over input tokens (C13).

libstdc++'s `std::regex_match / regex_search / regex_replace` (and the iterators built on them) recurse once per matched
character for quantified sub-patterns: a token of a few hundred thousand characters — a legal state or symbol name — overflows
the stack, so the parser dies with SIGSEGV instead of returning a description or throwing a standard exception.  The Timbuk
parser and serializer are hand-written scanners (`find`, `substr`, `isspace`); the rule keeps them so.
Instance: every function of the parser / serializer / conversion units.  Obligation: no call to the regex algorithms and no
regex iterator is constructed.  Zero violating instances on the tree: witness/src/noregex.cc must fire on every run."""
from vfacts import walk

RULE = 'NOREGEX'
FLOOR = 10
WITNESS = 'src/noregex.cc'
BANNED = ('std::regex_match', 'std::regex_search', 'std::regex_replace')
BANNED_TYPES = ('std::regex_iterator', 'std::regex_token_iterator')
FILES = ('timbuk_parser', 'timbuk_serializer', 'convert.hh', 'parsing/', 'serialization/', 'noregex.cc')


def run(unit, em):
    for fn in unit.functions:
        if fn.body is None or not any(x in fn.file for x in FILES):
            continue
        bad = None
        for n in fn.walk():
            q = n.get('q') or ''
            if n['k'] in ('CallExpr', 'CXXOperatorCallExpr', 'CXXMemberCallExpr') and q.startswith(BANNED):
                bad = n
                break
            if n['k'] in ('CXXConstructExpr', 'CXXTemporaryObjectExpr') and q.startswith(BANNED_TYPES):
                bad = n
                break
        name = fn.q.replace('VATA::', '')
        if bad is None:
            em.ok(fn, name, 'no regex matching over input text')
        else:
            em.violation(bad, unit.text(bad, 60), 'a backtracking regex matcher is run over parser input in %s: libstdc++ recurses once per matched character, so a long (legal) token overflows the stack — a crash, '
                         'not a result or a standard exception' % name)
