"""PARALLEL — a derived parallel array is refreshed whenever its source slot changes (C07, C01).

Discovery (from the code itself): two vector fields A, B of one class are *parallel* when some
statement computes `B[e] = f(A[e])` for the same index expression e (e.g. the choice-function
generator keeps iterators in currentCf_ and the values they point to in currentResult_).
Instance: every write to a slot A[e] (assignment, ++/--) in a method of that class.
Obligation: on every CFG path from the write, B[e] is written (same index expression) before the
index variable changes or the method returns — otherwise the tuple handed out mixes a new iterator
with a stale value and some combinations are never produced."""
from vfacts import strip, walk, must_pass_through, is_node

RULE = 'PARALLEL'
FLOOR = 1
ANCHORS = ['ChoiceFunctionGenerator::GetNext']


def slot(unit, e):
    """(field name, index text, index vars) if e is this->F[idx]"""
    e = strip(e)
    while e is not None and e['k'] == 'UnaryOperator' and e.get('op') in ('*',):
        e = strip(e['ch'][0])
    if e is None or e['k'] != 'CXXOperatorCallExpr' or e.get('op') != '[]' or len(e.get('args', [])) != 2:
        return None
    b = strip(e['args'][0])
    if b is None or b['k'] != 'MemberExpr' or b.get('dk') != 'field':
        return None
    bb = strip((b.get('ch') or [None])[0])
    if bb is None or bb['k'] != 'CXXThisExpr':
        return None
    idx = e['args'][1]
    ivars = {x['d'] for x in walk(idx) if x['k'] == 'DeclRefExpr' and x.get('dk') in ('local', 'param')}
    return b['n'], unit.text(strip(idx), 0), ivars


def slot_writes(unit, fn):
    """[(node, field, index text, index vars)] for element writes this->F[idx] = .. / ++this->F[idx]"""
    out = []
    for n in fn.walk():
        tgt = None
        if n['k'] in ('BinaryOperator', 'CompoundAssignOperator') and n.get('op', '').endswith('=') and n.get('op') not in ('==', '!=', '<=', '>='):
            tgt = n['ch'][0]
        elif n['k'] == 'CXXOperatorCallExpr' and n.get('op') in ('=', '++', '--', '+=', '-=') and n.get('args'):
            tgt = n['args'][0]
        elif n['k'] == 'UnaryOperator' and n.get('op') in ('++', '--'):
            tgt = n['ch'][0]
        if tgt is None:
            continue
        t = strip(tgt)
        while t is not None and t['k'] == 'ParenExpr':
            t = strip(t['ch'][0])
        s = slot(unit, t) if t is not None and not (t['k'] == 'UnaryOperator') else None
        if s:
            out.append((n, s[0], s[1], s[2]))
    return out


def run(unit, em):
    by_cls = {}
    for fn in unit.functions:
        if fn.cls and fn.body is not None:
            by_cls.setdefault((fn.cls, fn.d.get('rcd')), []).append(fn)
    for (cls, rc), fns in by_cls.items():
        # discover parallel pairs  B[e] = f(A[e])
        pairs = set()
        for fn in fns:
            for n, B, e, _ in slot_writes(unit, fn):
                rhs = None
                if n['k'] == 'BinaryOperator':
                    rhs = n['ch'][1]
                elif n['k'] == 'CXXOperatorCallExpr' and n.get('op') == '=':
                    rhs = n['args'][1]
                if rhs is None:
                    continue
                for x in walk(rhs):
                    s = slot(unit, x) if x['k'] == 'CXXOperatorCallExpr' else None
                    if s and s[0] != B and s[1] == e:
                        pairs.add((s[0], B))
        if not pairs:
            continue
        for fn in fns:
            short = fn.q.replace('VATA::', '')
            if short.endswith('ChoiceFunctionGenerator::GetNext'):
                em.anchor(fn, 'ChoiceFunctionGenerator::GetNext')
            cfg = fn.cfg()
            if cfg is None:
                continue
            writes = slot_writes(unit, fn)
            for A, B in pairs:
                for n, F, e, ivars in writes:
                    if F != A or not ivars:
                        continue
                    pos = cfg.locate(n)
                    if pos is None:
                        continue

                    def is_b_write(x, B=B, e=e):
                        return any(w[0] is x and w[1] == B and w[2] == e for w in writes)

                    def index_changes(x, ivars=ivars):
                        t = None
                        if x['k'] == 'UnaryOperator' and x.get('op') in ('++', '--'):
                            t = strip(x['ch'][0])
                        elif x['k'] in ('BinaryOperator', 'CompoundAssignOperator') and x.get('op', '').endswith('=') and x.get('op') not in ('==', '!=', '<=', '>='):
                            t = strip(x['ch'][0])
                        elif x['k'] == 'ReturnStmt':
                            return True
                        return t is not None and t['k'] == 'DeclRefExpr' and t.get('d') in ivars
                    ok, wit = must_pass_through(cfg, pos, index_changes, is_b_write)
                    txt = unit.text(n, 70)
                    if ok:
                        em.ok(n, txt, '%s[%s] is refreshed before %s changes' % (B, e, e))
                    else:
                        em.violation(n, txt, 'slot %s[%s] changes but the parallel %s[%s] is not refreshed before `%s`: the value handed out for this position is stale' % (A, e, B, e, unit.text(wit, 30) if wit else 'return'))
