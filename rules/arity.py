"""ARITY — the arity prefix of top-down symbols is built and consumed with the same constants (C08).

The top-down BDD encoding appends an arity prefix of SYMBOL_ARITY_LENGTH variables after the
SYMBOL_SIZE symbol variables. Instances and obligations:
  A1  every SymbolicVarAsgn constructed as an arity prefix (2-argument form (length, value)) uses
      length == SYMBOL_ARITY_LENGTH (by value of the constant, not by spelling)
  A2  every ExtendWith / GetMtbddForPrefix taking such a prefix uses offset == SYMBOL_SIZE
  A3  the arity value is the size of the child tuple at hand (`children.size()` / `tuple.size()`)
  A4  BDDTDTreeAutCore::AddTransition extends the symbol with addArityToSymbol before the MTBDD for
      the rule is built (MPT), with the arity of the rule's own children."""
from vfacts import strip, walk, method_name, must_pass_through, is_node
from .prov import var_table, local_sources

RULE = 'ARITY'
FLOOR = 5
ANCHORS = ['BDDTDTreeAutCore::addArityToSymbol', 'BDDTDTreeAutCore::AddTransition']


def const_value(unit, e):
    e = strip(e)
    if e is None:
        return None, None
    if e['k'] == 'DeclRefExpr' and 'v' in e:
        return e['v'], e.get('q') or e.get('n')
    if e['k'] == 'IntegerLiteral':
        return e['v'], 'literal'
    return None, None


def stale_tuple(unit, fn, decl_stmt, a):
    """the arity is `X.size()` of a local X that an enclosing loop re-assigns per element: the assignment of the current
    element must come before the prefix is built in the iteration; returns a reason when it does not"""
    from vfacts import enclosing
    if a is None or a['k'] != 'CXXMemberCallExpr' or method_name(a) != 'size':
        return None
    x = strip(a.get('obj'))
    if x is None or x['k'] != 'DeclRefExpr' or x.get('dk') != 'local':
        return None
    v = var_table(fn).get(x['d'])
    if v is None or v['kind'] != 'local':
        return None
    L = enclosing(decl_stmt, ('ForStmt', 'WhileStmt', 'DoStmt', 'CXXForRangeStmt'))
    while L is not None:
        asg = []
        for m in walk(L.get('body'), lambdas=False):
            if m['k'] in ('CXXOperatorCallExpr', 'BinaryOperator') and m.get('op') == '=':
                ops = m.get('args') or m.get('ch')
                if ops and (strip(ops[0]) or {}).get('d') == x['d']:
                    asg.append(m)
        if asg and not any(z is v['node'] for z in walk(L)):
            cfg = fn.cfg()
            body = L['body']
            first = None
            for m_ in walk(body):
                if m_ is not body and cfg is not None and cfg.locate(m_) is not None:
                    first = m_
                    break
            if cfg is None or first is None:
                return None
            ids = {id(z) for z in walk(decl_stmt)}
            aid = {id(z) for m in asg for z in walk(m)}
            ok, _ = must_pass_through(cfg, cfg.locate(first), lambda z: id(z) in ids, lambda z: id(z) in aid, start_after=False)
            if not ok:
                return 'the arity is taken from `%s`, which the enclosing loop assigns only *after* this point of the iteration (line %d): the prefix carries the arity of the previously visited tuple' % (x.get('n'), unit.loc(asg[0])[1])
            return None
        L = enclosing(L, ('ForStmt', 'WhileStmt', 'DoStmt', 'CXXForRangeStmt'))
    return None


def run(unit, em):
    consts = {}
    for fn in unit.functions:
        for n in fn.walk() if fn.body is not None else []:
            if n['k'] == 'DeclRefExpr' and 'v' in n and (n.get('q') or '').endswith(('SYMBOL_ARITY_LENGTH', 'SYMBOL_SIZE')):
                consts[n['q'].rsplit('::', 1)[-1]] = n['v']
    if 'SYMBOL_ARITY_LENGTH' not in consts or 'SYMBOL_SIZE' not in consts:
        return
    AL, SS = consts['SYMBOL_ARITY_LENGTH'], consts['SYMBOL_SIZE']
    for fn in unit.functions:
        if fn.body is None or 'bdd_' not in fn.file:
            continue
        short = fn.q.replace('VATA::', '')
        if short in ANCHORS:
            em.anchor(fn, short)
        prefixes = {}
        for n in fn.walk():
            if n['k'] == 'DeclStmt':
                for d in n.get('decls', []):
                    if 'SymbolicVarAsgn' in unit.tname(d['t']) and is_node(d.get('init')):
                        i = strip(d['init'])
                        if i is not None and i['k'] == 'CXXConstructExpr' and len(i.get('args', [])) == 2 and 'unsigned long' in unit.ty(strip(i['args'][0]) or i['args'][0]):
                            v, nm = const_value(unit, i['args'][0])
                            txt = unit.text(n, 70)
                            if v is None:
                                em.unknown(n, txt, 'prefix length not a constant', 'A1')
                            elif v == AL:
                                em.ok(n, txt, 'length %d == SYMBOL_ARITY_LENGTH' % v, 'A1')
                                prefixes[d['d']] = n
                            else:
                                em.violation(n, txt, 'the arity prefix has length %s (%s) but readers and writers of the encoding use SYMBOL_ARITY_LENGTH = %d' % (v, nm, AL), 'A1')
                                prefixes[d['d']] = n
                            a = strip(i['args'][1])
                            at = unit.text(a, 0) if a is not None else ''
                            stale = stale_tuple(unit, fn, n, a)
                            if stale:
                                em.violation(n, txt + ' value', stale, 'A3')
                            elif at.endswith('.size()') or (a is not None and a['k'] == 'DeclRefExpr' and a.get('dk') == 'param'):
                                em.ok(n, txt + ' value', 'arity is %s' % at, 'A3')
                            else:
                                em.unknown(n, txt + ' value', 'arity expression %s' % at, 'A3')
        for c in fn.calls():
            if c['k'] == 'CXXMemberCallExpr' and method_name(c) in ('ExtendWith', 'GetMtbddForPrefix') and len(c.get('args', [])) == 2:
                a0 = strip(c['args'][0])
                if a0 is None or a0.get('d') not in prefixes:
                    continue
                v, nm = const_value(unit, c['args'][1])
                txt = unit.text(c, 70)
                if v == SS:
                    em.ok(c, txt, 'offset %d == SYMBOL_SIZE' % v, 'A2')
                elif v is None:
                    em.unknown(c, txt, 'offset not a constant', 'A2')
                else:
                    em.violation(c, txt, 'the arity prefix is placed/read at offset %s (%s); the symbol part occupies SYMBOL_SIZE = %d variables' % (v, nm, SS), 'A2')
        if short == 'BDDTDTreeAutCore::AddTransition':
            cfg = fn.cfg()
            add = [c for c in fn.calls() if method_name(c) == 'addArityToSymbol']
            built = [n for n in fn.walk() if n['k'] == 'DeclStmt' and any('OndriksMTBDD' in unit.tname(d['t']) and not d.get('ref') for d in n.get('decls', []))]
            if not add:
                em.violation(fn, 'AddTransition: arity prefix', 'the symbol is not extended with its arity prefix: rules of different arity over one symbol are confused', 'A4')
            elif cfg is not None and built:
                ok, _ = must_pass_through(cfg, (cfg.entry, 0), lambda x: x is built[0], lambda x: x is add[0], start_after=False)
                a = strip(add[0]['args'][1]) if len(add[0].get('args', [])) > 1 else None
                own = a is not None and unit.text(a, 0).endswith('.size()') and any(x['k'] == 'DeclRefExpr' and x.get('d') == fn.params[0]['d'] for x in walk(a))
                if ok and own:
                    em.ok(add[0], 'AddTransition: arity prefix', 'added (arity of the rule\'s own children) before the MTBDD is built', 'A4')
                else:
                    em.violation(add[0], 'AddTransition: arity prefix', 'the arity prefix is not added on every path before the rule\'s MTBDD is built, or not with the size of the rule\'s own child tuple', 'A4')
