"""SIMMAP / REDORDER — the simulation result is indexed by the map that numbered the LTS, and Reduce
takes its quotient from the symmetric part (C04, C05, C19).

SIMMAP (Compute{Up,Down}wardSimulation(size)): the translator handed to Translate* is built over a
local map M with a by-reference counter starting at 0; the LTS simulation is computed on the LTS
returned by Translate* with the same `size`; the returned DiscontBinaryRelation is built from that
simulation and M (not another map).
REDORDER (Reduce): BuildStateIndex fills the counter n through a translator; SetNumStates(n);
the relation is ComputeSimulation's result on *this; RestrictToSymmetric() precedes
GetQuotientProjection() on that relation on every path; CollapseStates gets the projection's map;
the result is the collapsed automaton (after pruning)."""
from vfacts import strip, walk, method_name, root_path, must_pass_through, is_node
from .prov import var_table, local_sources, origins

RULE = 'SIMMAP'
FLOOR = 6
ANCHORS = ['ExplicitTreeAutCore::ComputeUpwardSimulation', 'ExplicitTreeAutCore::ComputeDownwardSimulation', 'ExplicitTreeAutCore::Reduce']


def translator_info(unit, fn, d):
    """(map decl, counter decl) of a local weak translator variable"""
    v = var_table(fn).get(d)
    if not v or not is_node(v['decl'].get('init')):
        return None, None
    init = strip(v['decl']['init'])
    args = init.get('args', []) if init is not None else []
    mp = strip(args[0]).get('d') if args and strip(args[0]) is not None and strip(args[0])['k'] == 'DeclRefExpr' else None
    cnt = None
    for x in walk(init):
        if x['k'] == 'LambdaExpr':
            for y in walk(x.get('body')):
                if y['k'] == 'UnaryOperator' and y.get('op') == '++':
                    r = strip(y['ch'][0])
                    if r is not None and r['k'] == 'DeclRefExpr' and any(c.get('d') == r['d'] and c.get('byref') for c in x.get('captures', [])):
                        cnt = r['d']
    return mp, cnt


def check_sim(unit, fn, em):
    if len(fn.params) != 1 or unit.tname(fn.params[0]['t']) != 'unsigned long':
        return
    size = fn.params[0]['d']
    name = fn.q.split('::')[-1]
    tr = [c for c in fn.calls() if method_name(c) in ('TranslateUpward', 'TranslateDownward')]
    cs = [c for c in fn.calls() if method_name(c) == 'computeSimulation']
    rets = [n for n in fn.walk(lambdas=False) if n['k'] == 'ReturnStmt']
    if len(tr) != 1 or len(cs) != 1 or len(rets) != 1:
        em.unknown(fn, name, 'unexpected shape (%d translate, %d computeSimulation, %d returns)' % (len(tr), len(cs), len(rets)))
        return
    t, c, r = tr[0], cs[0], rets[0]
    # translator argument: last argument of Translate*
    ta = strip(t['args'][-1])
    mp, cnt = translator_info(unit, fn, ta.get('d')) if ta is not None and ta['k'] == 'DeclRefExpr' else (None, None)
    if mp is None or cnt is None:
        em.violation(t, name + ': state index', 'the state index passed to %s is not a weak translator over a local map with a by-reference counter' % method_name(t), 'index')
    else:
        cv = var_table(fn).get(cnt)
        zero = cv and is_node(cv['decl'].get('init')) and (strip(cv['decl']['init']) or {}).get('v') == 0
        if zero:
            em.ok(t, name + ': state index', 'fresh translator, counter from 0', 'index')
        else:
            em.violation(t, name + ': state index', 'the index counter does not start at 0: LTS nodes would not be 0..n-1', 'index')
    # size consistency
    uses_size = lambda call: any(x['k'] == 'DeclRefExpr' and x.get('d') == size for a in call.get('args', []) for x in walk(a))
    if uses_size(t) and uses_size(c):
        em.ok(c, name + ': number of states', 'the same `size` bounds the LTS encoding and the reported relation', 'size')
    else:
        em.violation(c, name + ': number of states', 'Translate* and computeSimulation must both be given the `size` parameter', 'size')
    # the LTS simulated is the one translated
    lts = strip(c.get('obj'))
    if lts is not None and lts['k'] == 'DeclRefExpr' and any(t in list(walk(s)) for s in local_sources(fn, lts['d'])):
        em.ok(c, name + ': LTS', 'simulation computed on the translated LTS', 'lts')
    else:
        em.violation(c, name + ': LTS', 'computeSimulation is not called on the LTS returned by Translate*', 'lts')
    # result built from (that simulation, the translator's map)
    rv = strip((r.get('ch') or [None])[0])
    args = rv.get('args', []) if rv is not None and rv['k'] in ('CXXConstructExpr', 'CXXTemporaryObjectExpr', 'CXXFunctionalCastExpr') else []
    while len(args) == 1 and strip(args[0]) is not None and strip(args[0])['k'] in ('CXXConstructExpr', 'CXXTemporaryObjectExpr'):
        args = strip(args[0]).get('args', [])
    good = False
    if len(args) == 2:
        a0, a1 = strip(args[0]), strip(args[1])
        from_sim = a0 is not None and a0['k'] == 'DeclRefExpr' and any(c in list(walk(s)) for s in local_sources(fn, a0['d']))
        same_map = a1 is not None and a1['k'] == 'DeclRefExpr' and a1.get('d') == mp
        good = from_sim and same_map
    if good:
        em.ok(r, name + ': result map', 'relation re-indexed by the map that numbered the LTS', 'result')
    else:
        em.violation(r, name + ': result map', 'the returned relation must be built from the LTS simulation and the very map filled by the state index', 'result')


def check_reduce(unit, fn, em):
    calls = list(fn.calls())
    def one(m):
        xs = [c for c in calls if method_name(c) == m]
        return xs[0] if len(xs) == 1 else None
    bsi, sns, cs, rts, gqp, col = (one(m) for m in ('BuildStateIndex', 'SetNumStates', 'ComputeSimulation', 'RestrictToSymmetric', 'GetQuotientProjection', 'CollapseStates'))
    if None in (bsi, sns, cs, rts, gqp, col):
        em.violation(fn, 'Reduce', 'expected exactly one call each of BuildStateIndex, SetNumStates, ComputeSimulation, RestrictToSymmetric, GetQuotientProjection, CollapseStates', 'shape')
        return
    # counter
    ta = strip(bsi['args'][0])
    mp, cnt = translator_info(unit, fn, ta.get('d')) if ta is not None and ta['k'] == 'DeclRefExpr' else (None, None)
    a = strip(sns['args'][0])
    if cnt is not None and a is not None and a.get('d') == cnt:
        em.ok(sns, 'Reduce: number of states', 'SetNumStates(n) with n counted by BuildStateIndex', 'numstates')
    else:
        em.violation(sns, 'Reduce: number of states', 'SetNumStates must be given the counter filled by BuildStateIndex on this automaton', 'numstates')
    # relation object
    rel = strip(rts.get('obj'))
    rel2 = strip(gqp.get('obj'))
    same = rel is not None and rel2 is not None and rel.get('d') is not None and rel.get('d') == rel2.get('d')
    from_cs = same and any(cs in list(walk(s)) for s in local_sources(fn, rel['d']))
    this_recv = strip(cs.get('obj')) is not None and strip(cs.get('obj'))['k'] == 'CXXThisExpr'
    if same and from_cs and this_recv:
        em.ok(gqp, 'Reduce: relation', 'quotient of the simulation computed on *this', 'relation')
    else:
        em.violation(gqp, 'Reduce: relation', 'RestrictToSymmetric/GetQuotientProjection must act on the relation returned by this->ComputeSimulation', 'relation')
    cfg = fn.cfg()
    if cfg is not None:
        ok, _ = must_pass_through(cfg, (cfg.entry, 0), lambda n: n is gqp, lambda n: n is rts, start_after=False)
        if ok:
            em.ok(gqp, 'Reduce: symmetric part first', 'RestrictToSymmetric() on every path before GetQuotientProjection()', 'order')
        else:
            em.violation(gqp, 'Reduce: symmetric part first', 'the quotient is taken from a relation that was not restricted to its symmetric part: states that merely simulate each other one way would be merged and the language grows', 'order')
    m1 = strip(gqp['args'][0])
    m2 = strip(col['args'][0])
    if m1 is not None and m2 is not None and m1.get('d') is not None and m1.get('d') == m2.get('d'):
        em.ok(col, 'Reduce: collapse map', 'CollapseStates gets the projection map', 'collapse')
    else:
        em.violation(col, 'Reduce: collapse map', 'CollapseStates must be given the map filled by GetQuotientProjection', 'collapse')
    rets = [n for n in fn.walk(lambdas=False) if n['k'] == 'ReturnStmt']
    for r in rets:
        rv = strip((r.get('ch') or [None])[0])
        if rv is not None and rv['k'] == 'DeclRefExpr' and any(col in list(walk(s)) for s in local_sources(fn, rv['d'])):
            em.ok(r, 'Reduce: result', 'returns the collapsed automaton', 'result')
        else:
            em.violation(r, 'Reduce: result', 'the returned automaton does not derive from CollapseStates', 'result')


def run(unit, em):
    for fn in unit.functions:
        short = fn.q.replace('VATA::', '')
        if short not in ANCHORS or fn.body is None:
            continue
        em.anchor(fn, short)
        if short.endswith('Reduce'):
            if fn.params:  # the parameterless overload only forwards Reduce(ReduceParam())
                check_reduce(unit, fn, em)
        else:
            check_sim(unit, fn, em)
