"""SAMELEN — tuples that are combined position by position have equal length (C08, C02, C07).

Instance: two different state tuples A and B (child tuples of rules of the two operands) that one expression or loop body
subscripts with the same index variable (`lhsTuple[i] == x && rhsTuple[i] == y`, `make_pair(a[i], b[i])`), under a branch fact
that compares their lengths.  Obligation: that fact is an *equality* (`a.size() == b.size()`, or the `!=` test that skips the
pair), possibly through a local holding one of the sizes.  A relational test (`<`, `<=`) admits a longer partner: a k-ary rule is
then paired with the first k positions of a longer tuple — a symbol used with two arities (legal in Timbuk; the BDD bottom-up
encoding keeps the arity only as the tuple length) produces product rules neither operand has (seed C08-10).
Pairs with no length test at all are not instances (their equality follows from a shared symbol, checked elsewhere)."""
from vfacts import strip, walk, is_node, method_name, known_facts
from .prov import var_table, local_sources

RULE = 'SAMELEN'
FLOOR = 0      # the one instance on the tree moves into a lambda under extraction refactorings (refactor/N-5); the witness keeps the rule honest
WITNESS = 'src/samelen.cc'


def is_tuple_type(t):
    t = t.replace('const ', '').replace('&', '').strip()
    return t in ('std::vector<unsigned long>', 'VATA::TreeAutBase::StateTuple', 'StateTuple') or t.endswith('StateTuple')


def size_of(fn, e, depth=0):
    """declaration id of the tuple whose size expression e denotes (directly or through a scalar local), else None"""
    e = strip(e)
    if e is None or depth > 3:
        return None
    if e['k'] == 'CXXMemberCallExpr' and method_name(e) == 'size':
        o = strip(e.get('obj'))
        return o.get('d') if o is not None and o['k'] == 'DeclRefExpr' else None
    if e['k'] == 'DeclRefExpr' and e.get('dk') == 'local':
        srcs = local_sources(fn, e.get('d'))
        if len(srcs) == 1:
            return size_of(fn, srcs[0], depth + 1)
    return None


def run(unit, em):
    for fn in unit.functions:
        if fn.body is None or not ('/src/' in fn.file or fn.file.endswith('samelen.cc')) or '/util/' in fn.file or '/mtbdd/' in fn.file:
            continue
        vt = var_table(fn)
        subs = {}   # index decl -> {tuple decl: first node}
        for n in fn.walk(lambdas=False):
            if n['k'] == 'CXXOperatorCallExpr' and n.get('op') == '[]' and len(n.get('args') or []) == 2:
                b, i = strip(n['args'][0]), strip(n['args'][1])
                if b is None or i is None or b['k'] != 'DeclRefExpr' or i['k'] != 'DeclRefExpr':
                    continue
                v = vt.get(b.get('d'))
                if v is None or not is_tuple_type(unit.ty(v['decl'])):
                    continue
                subs.setdefault(i.get('d'), {}).setdefault(b.get('d'), n)
        done = set()
        for idx, tup in subs.items():
            ds = sorted(tup)
            for x in range(len(ds)):
                for y in range(x + 1, len(ds)):
                    A, B = ds[x], ds[y]
                    if (A, B) in done:
                        continue
                    site = tup[B] if tup[B]['i'] > tup[A]['i'] else tup[A]
                    facts, _ = known_facts(site)
                    verdict = None
                    for pol, a in facts:
                        a = strip(a)
                        if a is None or a['k'] != 'BinaryOperator' or a.get('op') not in ('==', '!=', '<', '>', '<=', '>='):
                            continue
                        sa, sb = size_of(fn, a['ch'][0]), size_of(fn, a['ch'][1])
                        if {sa, sb} != {A, B}:
                            continue
                        if (a['op'] == '==' and pol) or (a['op'] == '!=' and not pol):
                            verdict = ('ok', a)
                        elif verdict is None:
                            verdict = ('bad', a)
                    if verdict is None:
                        continue
                    done.add((A, B))
                    na, nb = vt[A]['decl'].get('n'), vt[B]['decl'].get('n')
                    txt = '%s[%s] with %s[%s]' % (na, vt[idx]['decl'].get('n') if idx in vt else 'i', nb, vt[idx]['decl'].get('n') if idx in vt else 'i')
                    if verdict[0] == 'ok':
                        em.ok(site, txt, 'combined position-wise under an equality test of their lengths')
                    else:
                        em.violation(site, txt, '`%s` and `%s` are combined position by position, but the only length test in force here is `%s`, which is not an equality: a tuple is paired with the leading positions '
                                     'of a longer one (one symbol used with two arities yields product rules that neither operand has)' % (na, nb, unit.text(verdict[1], 50)))
