"""HASHEQ — a hash-consing lookup may substitute a stored object only on full equality (C09).

MacroStateCache::insert(key, value) returns a previously stored macro-state instead of `value` when
its comparison callable says so; keys are only sums of state numbers, so the callable is the whole
equality test. Instance: the callable whose `true` result guards `return <stored element>` in
MacroStateCache::insert. Obligation: it rejects different cardinalities (`a.size() != b.size()`
returns false) AND checks element-wise inclusion of one side in the other (size equality + one
inclusion = set equality; any weaker size test makes a strict subset match)."""
from vfacts import strip, walk, method_name, is_node
from .prov import var_table

RULE = 'HASHEQ'
FLOOR = 1
ANCHORS = ['MacroStateCache::insert']


def run(unit, em):
    for fn in unit.functions:
        if fn.q.replace('VATA::', '') != 'MacroStateCache::insert' or fn.body is None:
            continue
        em.anchor(fn, 'MacroStateCache::insert')
        # find `if (F(x, y)) return x;`
        target = None
        for n in fn.walk(lambdas=False):
            if n['k'] == 'IfStmt' and any(m['k'] == 'ReturnStmt' for m in walk(n.get('th'), lambdas=False)):
                c = strip(n['c'])
                if c is not None and c['k'] == 'CXXOperatorCallExpr' and c.get('op') == '()':
                    f = strip(c['args'][0])
                    if f is not None and f['k'] == 'DeclRefExpr':
                        v = var_table(fn).get(f['d'])
                        if v and is_node(v['decl'].get('init')):
                            lam = strip(v['decl']['init'])
                            if lam is not None and lam['k'] == 'LambdaExpr':
                                target = (n, lam)
                elif c is not None and c['k'] in ('CallExpr', 'CXXMemberCallExpr') and c.get('inrepo') and len(c.get('args', [])) == 2:
                    # the equality test is a (static) member function of the class
                    g = unit.by_decl.get(c.get('cd'))
                    if g is not None and g.body is not None and len(g.params) == 2:
                        target = (n, {'k': 'FunctionBody', 'params': g.params, 'body': g.body, '_where': g})
        if target is None:
            em.unknown(fn, 'MacroStateCache::insert lookup', 'equality callable not resolved')
            continue
        ifn, lam = target
        where = lam.get('_where') or lam
        ps = [p['d'] for p in lam.get('params', [])]
        size_ne = False
        incl = False
        for n in walk(lam['body'], lambdas=False):
            if n['k'] == 'IfStmt':
                c = strip(n['c'])
                rets_false = any(m['k'] == 'ReturnStmt' and (strip((m.get('ch') or [None])[0]) or {}).get('v') is False for m in walk(n.get('th'), lambdas=False))
                if c is not None and c['k'] == 'BinaryOperator' and c.get('op') == '!=' and rets_false:
                    sides = [strip(x) for x in c['ch']]
                    if all(s is not None and s['k'] == 'CXXMemberCallExpr' and method_name(s) == 'size' for s in sides):
                        ds = {(strip(s.get('obj')) or {}).get('d') for s in sides}
                        if ds == set(ps):
                            size_ne = True
            if n['k'] == 'CXXForRangeStmt':
                r = strip(n.get('range'))
                if r is not None and r.get('d') in ps:
                    other = [p for p in ps if p != r['d']]
                    for m in walk(n['body'], lambdas=False):
                        if m['k'] == 'IfStmt':
                            c = strip(m['c'])
                            neg = c is not None and c['k'] == 'UnaryOperator' and c.get('op') == '!'
                            inner = strip(c['ch'][0]) if neg else None
                            if c is not None and c['k'] in ('BinaryOperator', 'CXXOperatorCallExpr') and c.get('op') == '==':
                                # `b.find(x) == b.end()` / `b.count(x) == 0`: x is not in b
                                ops = c.get('ch') or c.get('args') or []
                                for o_ in ops:
                                    so = strip(o_)
                                    if so is not None and so['k'] == 'CXXMemberCallExpr' and method_name(so) in ('find', 'count'):
                                        inner = dict(so)
                                        inner['_as_count'] = True
                            if inner is not None and inner['k'] == 'CXXMemberCallExpr' and method_name(inner) in ('count', 'contains', 'find') and \
                               (strip(inner.get('obj')) or {}).get('d') in other and \
                               any(x['k'] == 'ReturnStmt' and (strip((x.get('ch') or [None])[0]) or {}).get('v') is False for x in walk(m.get('th'), lambdas=False)):
                                incl = True
        if size_ne and incl:
            em.ok(where, 'MacroStateCache::insert equality', 'size() != size() rejects, then element-wise inclusion')
        elif not size_ne:
            em.violation(where, 'MacroStateCache::insert equality', 'the stored macro-state is substituted without rejecting different cardinalities (`a.size() != b.size()`): a strict sub/superset with the same key would match')
        else:
            em.violation(where, 'MacroStateCache::insert equality', 'no element-wise inclusion test after the cardinality test')


# ---- clause `sumkey`: the checksum that keys the macro-state cache decides nothing by itself
def run_sumkey(unit, em):
    """The cache key of a macro-state is the *sum* of its state numbers — many different sets share it (state 0 adds
    nothing).  Instance: every local that is handed to MacroStateCache::insert as the key.  Obligation: it occurs in no
    comparison; equal keys only select the bucket, equality of the sets is decided by insert() (main clause)."""
    for fn in unit.functions:
        if fn.body is None:
            continue
        keys = {}
        for c in fn.calls():
            if c['k'] == 'CXXMemberCallExpr' and method_name(c) == 'insert' and len(c.get('args', [])) == 2 and 'MacroStateCache' in unit.ty(strip(c.get('obj')) or c.get('obj') or {'t': -1}):
                k = strip(c['args'][0])
                if k is not None and k['k'] == 'DeclRefExpr' and k.get('dk') == 'local':
                    keys[k['d']] = k.get('n')
        if not keys:
            continue
        bad = {}
        for n in fn.walk():
            if n['k'] in ('BinaryOperator', 'CXXOperatorCallExpr') and n.get('op') in ('==', '!=', '<', '>', '<=', '>='):
                for x in walk(n):
                    if x['k'] == 'DeclRefExpr' and x.get('d') in keys:
                        bad.setdefault(x['d'], n)
        for d, name in keys.items():
            cname = 'checksum key %s in %s' % (name, fn.q.split('::')[-1])
            if d in bad:
                em.violation(bad[d], cname, 'the sum of the state numbers of a macro-state is compared (`%s`) to take a decision: different sets have equal sums ({0} ∪ T and T always do), so pairs are treated as equal / skipped that are not' % unit.text(bad[d], 50), 'sumkey')
            else:
                em.ok(fn, cname, 'used only to select the cache bucket', 'sumkey')


_run_eq = run


def run(unit, em):
    _run_eq(unit, em)
    run_sumkey(unit, em)
