"""ERASER — iterators kept outside an antichain are dropped when the antichain erases their element
(C20, C01).

Discovery: an antichain X whose `insert()` result (a list iterator) is stored into another container
N (`iter = X.insert(q, Q); N.insert(make_pair(q, iter))`). Instance: every `X.refine(...)` call on such
an X. Obligation: refine is given an eraser built over N (4th argument), so that the entries of N
pointing to erased list nodes are removed with them; otherwise N (whose comparator dereferences the
iterators) keeps an iterator to a freed node."""
from vfacts import strip, walk, method_name, root_path, is_node
from .prov import var_table, local_sources

RULE = 'ERASER'
FLOOR = 1
ANCHORS = ['ExplicitUpwardInclusion::checkInternal']


def run(unit, em):
    for fn in unit.functions:
        if fn.body is None:
            continue
        short = fn.q.replace('VATA::', '')
        if short in ANCHORS:
            em.anchor(fn, short)
        # discover (X, N)
        pairs = set()
        for c in fn.calls():
            if c['k'] != 'CXXMemberCallExpr' or method_name(c) != 'insert':
                continue
            N = root_path(c.get('obj'))
            if not N:
                continue
            for x in walk(c):
                if x['k'] == 'DeclRefExpr' and x.get('dk') == 'local':
                    for s in local_sources(fn, x['d']):
                        ss = strip(s)
                        if ss is not None and ss['k'] == 'CXXMemberCallExpr' and method_name(ss) == 'insert' and 'Antichain2C' in (ss.get('q') or ''):
                            X = root_path(ss.get('obj'))
                            if X and X != N:
                                pairs.add((X, N))
        if not pairs:
            continue
        for c in fn.calls():
            if c['k'] != 'CXXMemberCallExpr' or method_name(c) != 'refine' or 'Antichain2C' not in (c.get('q') or ''):
                continue
            X = root_path(c.get('obj'))
            for (PX, N) in pairs:
                if X != PX:
                    continue
                args = c.get('args', [])
                txt = unit.text(c, 90)
                good = False
                if len(args) >= 4:
                    a = args[3]
                    if not (strip(a) or a).get('defaultarg') and any(x['k'] == 'DeclRefExpr' and root_path(x) == N for x in walk(a)):
                        good = True
                if good:
                    em.ok(c, txt, 'eraser over %s removes the stored iterators of erased elements' % '.'.join(N[1:]))
                else:
                    em.violation(c, txt, 'iterators returned by %s.insert() are kept in %s, but this refine() erases elements without an eraser over %s: %s is left with iterators to freed list nodes (its comparator dereferences them)' % (
                        '.'.join(X[1:]), '.'.join(N[1:]), '.'.join(N[1:]), '.'.join(N[1:])))
