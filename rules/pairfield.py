"""PAIRFIELD — startStates_ ⊆ dom(startStateToSymbols_) in every NFA the code builds (C10, C20).

GetStartSymbols(s) dereferences startStateToSymbols_.find(s) unconditionally, so every state put
into an automaton's startStates_ needs an entry in the same automaton's startStateToSymbols_.
Instance: every write to `O.startStates_` (assignment or insert) in the NFA sources.
Obligation: the same function writes `O.startStateToSymbols_` from a source that covers it:
the sibling field of the same source object (X.startStates_ with X.startStateToSymbols_), the same
key (insert(k) with insert/find of k), or a loop over the very source set inserting an entry per
element (Reverse: start states come from the final states)."""
from vfacts import strip, walk, method_name, root_path, is_node

RULE = 'PAIRFIELD'
FLOOR = 4
ANCHORS = ['ExplicitFiniteAutCore::Reverse', 'ExplicitFiniteAutCore::SetStateStart']
A, B = 'startStates_', 'startStateToSymbols_'


def field_writes(unit, fn, field):
    """[(node, owner path, source path or key text, how)]"""
    out = []
    for n in fn.walk():
        lhs = rhs = None
        if n['k'] == 'CXXOperatorCallExpr' and n.get('op') == '=' and len(n.get('args', [])) == 2:
            lhs, rhs = n['args']
            rp = root_path(lhs)
            if rp and rp[-1] == field:
                out.append((n, rp[:-1], root_path(rhs), 'assign'))
        elif n['k'] == 'CXXMemberCallExpr' and method_name(n) in ('insert', 'emplace'):
            rp = root_path(n.get('obj'))
            if rp and rp[-1] == field:
                args = n.get('args', [])
                if len(args) == 2:
                    s0 = root_path(args[0])
                    out.append((n, rp[:-1], s0[:-1] if s0 and s0[-1] == 'begin()' else s0, 'range-insert'))
                elif len(args) == 1:
                    a = strip(args[0])
                    while a is not None and a['k'] in ('CallExpr', 'CXXConstructExpr') and a.get('args') and (a.get('q') in ('std::make_pair', 'std::pair')):
                        a = strip(a['args'][0])
                    out.append((n, rp[:-1], ('key', unit.text(a, 0) if a is not None else '?'), 'insert'))
    # member-initialisers of constructors
    for i in fn.d.get('inits', []):
        if i.get('n') == field and is_node(i.get('init')):
            si = strip(i['init'])
            if si is not None and si['k'] == 'CXXConstructExpr' and not si.get('args'):
                continue  # default-constructed: empty
            out.append((i['init'], ('this',), root_path(i['init']), 'ctor-init'))
    return out


def run(unit, em):
    for fn in unit.functions:
        if fn.body is None or 'explicit_finite' not in fn.file:
            continue
        short = fn.q.replace('VATA::', '')
        if short in ANCHORS:
            em.anchor(fn, short)
        wa = field_writes(unit, fn, A)
        if not wa:
            continue
        wb = field_writes(unit, fn, B)
        for node, owner, src, how in wa:
            txt = unit.text(node, 90)
            cover = None
            for nb, ob, sb, hb in wb:
                if ob != owner:
                    continue
                if src and sb and src[0] != 'key' and sb[0] != 'key' and src[-1] == A and sb[-1] == B and src[:-1] == sb[:-1]:
                    cover = 'sibling field of the same source (%s)' % '.'.join(sb)
                elif src and sb and src[0] == 'key' and sb[0] == 'key' and src[1] == sb[1]:
                    cover = 'entry for the same key %s' % src[1]
            if cover is None and src and src[0] != 'key':
                # loop over the very source set inserting an entry per element
                for lp in fn.walk():
                    if lp['k'] != 'CXXForRangeStmt' or root_path(lp.get('range')) != src:
                        continue
                    var = lp['var']['d']
                    for m in walk(lp['body'], lambdas=False):
                        if m['k'] == 'CXXMemberCallExpr' and method_name(m) in ('insert', 'emplace'):
                            rp = root_path(m.get('obj'))
                            if rp and rp[-1] == B and rp[:-1] == owner and any(x['k'] == 'DeclRefExpr' and x.get('d') == var for a in m.get('args', []) for x in walk(a)):
                                cover = 'loop over %s inserting an entry per state' % '.'.join(src)
            if cover:
                em.ok(node, txt, cover, how)
            else:
                em.violation(node, txt, 'start states are taken from %s but no entry of %s.%s covers them in this function: GetStartSymbols() on such a state dereferences end()' % (
                    '.'.join(src) if src else '?', '.'.join(owner), B), how)
