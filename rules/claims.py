"""Per-property claim texts for MANIFEST.json (what the static check decides, and what it does not)."""

NOT_YET = 'rules for this property are designed (DESIGN.md section 3) but not armed yet; not claimed until they pass their self-test and floors'

CLAIMS = {
    'C01': {
        'text': 'Decides structural necessary conditions of exact explicit inclusion on every path of the anchored code: the option->algorithm dispatch '
                '(case constants evaluated and decoded by the FLAG_MASK values; right algorithm entity, (smaller,bigger) order, sanitised operands and Identity(n) '
                'for no-simulation cases, params.GetSimulation() otherwise, default throws) incl. the obligations of SanitizeAutsForInclusion, and the antichain '
                'contains/refine comparator duality at every call site. Exactness of the antichain algorithms themselves is not decided.',
        'note': 'trusted: clang 14 AST/CFG, exporter, the registered flags->entity table; rules are necessary conditions, not a proof of language inclusion',
    },
    'C02': {
        'text': 'Decides structural necessary conditions of exact explicit union/intersection: on every return of Union/UnionDisjointStates both operands have contributed '
                'final states and rules (one shared by-reference counter for the fresh ids), product pairs are (state of lhs, state of rhs) and each component is only looked up in its own operand, '
                'a product state is marked final only on evidence from both components, one-sided tests in product conditions are mirrored for the other operand, new pairs are enqueued, '
                'and operands cannot be written through shared storage (COW). Language equality itself is not decided.',
        'note': 'trusted: clang 14 AST, exporter; side analysis is intra-procedural (data flows through locals, range-for variables, out-parameters and swaps)',
    },
    'C03': {
        'text': 'Decides structural necessary conditions of language-preserving trimming: no cardinality comparison guards returning/sharing the unchanged input (SIZEEQ), '
                'every first-visit insert enqueues the element and nothing but the enqueue depends on novelty, so no rule of an already known state is dropped (WORKLIST), '
                'and results that share rule stores with the input never write them (COW). That the two passes compute exactly the useful states is not decided.',
        'note': 'trusted: clang 14 AST, exporter; frozen exception: GetCandidateTree keeps one rule per new state by design',
    },
    'C04': {
        'text': 'Decides the numbering discipline both tree simulations rest on: in TranslateDownward/TranslateUpward and the callers every stored state crosses the state index exactly once '
                '(no double translation, no untranslated state reaching an LTS node or partition block; kinds inferred from typed sources through locals and local-struct fields), '
                'auxiliary nodes come from separate counters, and the returned relation is built from the LTS simulation and the very map that numbered the LTS with the same size. '
                'That the LTS encoding and the engine yield the greatest simulation is not decided (see C16).',
        'note': 'trusted: clang 14 AST, exporter; kind inference is flow-insensitive and intra-procedural, unresolved kinds are unknown (never reported)',
    },
    'C05': {
        'text': 'Decides the structural chain Reduce relies on: the state count given to the simulation is the count of this automaton (BuildStateIndex counter), the quotient projection is taken on every path only after '
                'RestrictToSymmetric() from the relation computed on *this, CollapseStates gets that projection map and the result derives from it; each state crosses the index once (KIND); COW. '
                'Language preservation and size monotonicity as such are not decided.',
        'note': 'trusted: clang 14 AST/CFG, exporter',
    },
    'C06': {
        'text': 'Decides structural necessary conditions of the top-down complementation (ExplicitDownwardComplementation::Compute and its helpers), each of which, when broken, makes some tree over the alphabet '
                'accepted by both or by neither of A and Complement(A): the per-macro-state symbol loop ranges over a container filled unconditionally from the alphabet dictionary (GetSymbolDict of the '
                'alphabet parameter), with the rank of every symbol recorded at the position stored with it; the first macro-state is built from all final states of the operand and the one accepting state of the '
                'result is its number; rules are emitted for exactly the cases (no rule, rank 0), (no rule, rank > 0: children = the empty macro-state) and (rules, rank > 0: one per choice function) and never for '
                '(rules, rank 0); the choice functions range over (collected rules) x (rank) and ChoiceFunction::next is an odometer that stops only past the last counter; a child taken from position c goes to '
                'post[c] and position i of the new rule comes from post[i]; per-symbol scratch containers are emptied per iteration and a position macro-state is cleared after its harvest; rank vector and rule '
                'index are subscripted with the dense symbol index, rules are emitted under the symbol and the number of the dequeued macro-state; topDownIndex files every rule under [parent][dense symbol index]; '
                'ComplementWithPreorder complements *this over its own alphabet into the automaton it returns (COMPL). Also the clauses shared with other properties on this code: contains/refine index orientation of the '
                'position antichains (ACDUAL), first-visit macro-states are enqueued (WORKLIST), index lengths compared relationally (SYMIDX), post[0] exists for alphabets of constants (SIZEDINDEX), the result carries '
                'the operand\'s alphabet (ALPHASRC), and the trimming pass applied to the raw result (COUNTGUARD, KEPTRULES, DRAIN, ACCRET, COLLECTALL on RemoveUselessStates/RemoveUnreachableStates). '
                'Exactness of the construction as such is not decided.',
        'note': 'trusted: clang 14 AST/CFG, exporter; COMPL is written for this one function family and names its entities (Compute, ChoiceFunction::next, topDownIndex, ComplementWithPreorder) as anchors',
    },
    'C07': {
        'text': 'Decides, for both BDD encodings, the dispatch clauses (3 + 4 cases, delegation of the bottom-up downward variant with an equivalent InclParam on '
                'sanitised operands and a simulation computed on their union, default throws => unimplemented selections raise an exception) and comparator duality of '
                'the upward/downward functors as instantiated for the BDD cores. Equality with the explicit verdict is not decided.',
        'note': 'trusted: clang 14 AST/CFG, exporter, flags->entity table',
    },
    'C08': {
        'text': 'Decides structural necessary conditions for the BDD-encoded operations: both operands contribute final states and rules on every return of the four Union/UnionDisjointStates functions '
                '(shared- and distinct-table branches; bottom-up nullary MTBDD unioned), product pairs/keys keep the operands apart and finality needs both components in both Intersections and their apply functors, '
                'first visits are enqueued in the BDD trimming worklists, and the product state counter is initialised. Language preservation is not decided.',
        'note': 'trusted: clang 14 AST/CFG, exporter; accepted idiom: top-down automata that share a transition table already share their rules',
    },
    'C09': {
        'text': 'Decides structural necessary conditions of exact NFA inclusion: dispatch (7 cases: functor, search order, comparator, normal-form relation; union of the '
                'sanitised operands for congruence; default throws), soundness of the subset memo tables (every add implied by the branch, every hit implies its verdict), '
                'comparator/candidate duality of the two antichains, and full-equality lookup of the macro-state cache. Correctness of bisimulation up to congruence is not decided.',
        'note': 'trusted: clang 14 AST/CFG, exporter, memo-table meaning (subsetMap_: subset, subsetNotMap_: not subset) fixed from the reader',
    },
    'C10': {
        'text': 'Decides structural necessary conditions of the exact NFA operations: both operands contribute finals, starts, start symbols and edges to a union (each set from the same-named set of the operand); '
                'product pairs keep the operands apart and start/final marking needs evidence from both components; every start state written has a start-symbol entry (PAIRFIELD); the witness search looks at the '
                'finality of every state it reaches (FINCHK); worklists enqueue first visits; COW. Language equalities are not decided.',
        'note': 'trusted: clang 14 AST, exporter',
    },
    'C11': {
        'text': 'Decides the copy-on-write discipline that value semantics of explicit tree/finite automata rests on: every mutation of a shared rule store '
                '(state->cluster map, cluster, tuple set) reached through a shared_ptr uses a pointer that is Unique (from unique*()), Fresh or guarded by .unique(); '
                'the unique*() functions clone when shared; hash-consed tuples are never mutated. A necessary condition of copy isolation; independence from process history in general is not decided.',
        'note': 'trusted: clang 14 AST, exporter; provenance analysis is intra-procedural (parameters/members/elements are Shared, unresolved is unknown and only costs the floor)',
    },
    'C12': {
        'text': 'Decides structural necessary conditions of the rule container: tuples are stored only hash-consed (membership is pointer equality), the nested iterators re-seat every inner level whenever an outer level moves '
                '(hierarchy discovered from the begin() assignments), Clear() resets rules and final states on every path, and no lookup or accessor writes the shared stores (COW: e.g. operator[] in a query). '
                '"Exactly once and nothing else" for every history is not decided.',
        'note': 'trusted: clang 14 AST/CFG, exporter',
    },
    'C13': {
        'text': 'Decides the failure and format discipline of the Timbuk text layer: every position obtained from find() is compared with npos before it is used, constant subscripts are dominated by size tests, '
                'every throw in parser/serializer/loaders raises a std::exception-derived type and no abort/exit is called, and writer/reader tables agree (section keywords, arrow/parentheses, symbolic-assignment characters). '
                'Round-trip equality, termination on all inputs and the <cctype> domain are not decided.',
        'note': 'trusted: clang 14 AST, exporter',
    },
    'C14': {
        'text': 'Decides that renaming writes exactly translated values into the destination: in ReindexStates (tree, NFA, both BDD cores) and CollapseStates every state handed to the destination '
                '(final/start states, rule parents, children, successors) is the state index applied once to a stored state; the destination is written only through unique*() handles (COW). '
                'Image equality as a set statement is not decided.',
        'note': 'trusted: clang 14 AST, exporter',
    },
    'C15': {
        'text': 'Decides the structural clauses behind the witness automaton: sub-language by construction (every rule of the result is a role-preserving copy of a stored rule, tuples stay hash-consed, final states are a filter of the '
                'input\'s final states over the reachable set), and the search side: first visits are enqueued, the worklist is drained (no early break without a result) and finality is looked at for every reached state. '
                'Non-emptiness whenever A is non-empty is not decided as such.',
        'note': 'trusted: clang 14 AST, exporter; frozen exception: one rule per newly reached state is the design of the witness',
    },
    'C16': {
        'text': 'Decides the bookkeeping disciplines the partition-refinement engine rests on, not its fix-point: every per-block, per-label datum (remove list stored, counter '
                'set/decremented, work item queued, enqueueToRemove) is touched only with evidence that the label is in the inset of that block (loop over B->inset_, contains() guard, '
                'or a pair received from the caller); the predecessor list of the dequeued block is built from the parameter block before any call that can reassign Block::states_; '
                'a block made by the splitting constructor is added to the partition only together with relation_.split on every path; the remove list taken for processing is '
                'detached from its block before split/enqueue/unsafeRelease; SharedCounter::copyLabels copies master_ on every path on which it copies data_ (COPYALL); the removal '
                'mask is sized by the state count, not by a block count that split() grows (STALESIZE); the queue is read and popped at the same end and drained (QUEUEENDS, DRAIN); '
                'RestrictToSymmetric / quotient loops cover the whole range (LOOPBOUND witness); no scalar of the engine is read uninitialised (INIT). That the refinement computes the '
                '*greatest* simulation inside the given preorder is not decided.',
        'note': 'trusted: clang 14 AST/CFG, exporter; field names of Block (inset_, remove_, counter_, states_) and of the engine (queue_, partition_, relation_) are registered entities; '
                'five independently written breaking changes of the engine (seeded/C04-2/-3, C05-3/-5, C20-1 and their duplicates) are each caught by one of these clauses',
    },
    'C17': {
        'text': 'Decides the disciplines canonicity and pointwise application rest on, on every instantiation of the package: nodes are created only through the unique tables, no internal node with equal children is spawned '
                '(two frozen, reasoned exceptions), every apply clears its address-keyed memo table before descending, the recursion pairs low with low and high with high and builds (low result, high result), '
                'branching decisions read the operand they are about, memo keys are exactly the node parameters and results are stored before return, and the 2-/3-ary case classification branches operand k iff '
                'internal with variable >= the others. Pointwise correctness of Project/Rename/ExtendWith/GetMtbddForPrefix is not decided.',
        'note': 'trusted: clang 14 AST/CFG, exporter; template bodies never instantiated by the build (e.g. projectNode) are not analysed',
    },
    'C18': {
        'text': 'Decides the reference-counting typestate of MTBDD nodes (28 obligations): owned roots at every private-constructor call site, increment in copy/value constructors, operator= (self test, release before '
                're-seat, increment after), destructor releases, spawnInternal references both children and enters the table, disposeOf* erase the table entry and release each child exactly once before deletion, '
                'disposal only when the decrement returned 0, and who-may-call for the decrement/delete primitives; the apply functors\' memo tables, which hold raw uncounted node pointers, are cleared '
                'on every path before each application (clause C3 of CANON), so no table entry outlives the nodes it names. Collection of orphan intermediate nodes is not decided.',
        'note': 'trusted: clang 14 AST/CFG, exporter',
    },
    'C19': {
        'text': 'Decides only the mechanism named in the anchors: numbering enters through translators, so no state is translated twice or not at all (KIND), the simulation result is indexed by the numbering map (SIMMAP), '
                'inclusion operands are renumbered by one shared counter with the map cleared in between (DISPATCH/sanitiser), and the necessary conditions for all inclusion selections to agree that are decided for C01/C07/C09 (dispatch tables, comparator duality, total worklist orders, per-level state of the sibling functors, frame reset, memo and macro-state cache soundness). The metamorphic laws themselves are not decided.',
        'note': 'trusted: clang 14 AST/CFG, exporter',
    },
    'C20': {
        'text': 'Decides named undefined-behaviour classes on every path of every function body (incl. template instantiations): '
                'INIT (a scalar local read with no reaching write, incl. through by-reference lambda captures) and FALLOFF (a value-returning '
                'function whose CFG reaches the exit without return/throw under NDEBUG). It does not decide memory safety of the hand-managed pools in general.',
        'note': 'trusted: clang 14 AST/CFG, the exporter, NDEBUG release flags from the regenerated compilation database; INIT is the definitely-uninitialised end (potential writes through non-const references count as writes)',
    },
}

NOT_APPLICABLE = {
}
for _p in ['C01', 'C02', 'C03', 'C04', 'C05', 'C07', 'C08', 'C09', 'C10', 'C11', 'C12', 'C13', 'C14', 'C15', 'C17', 'C18', 'C19']:
    NOT_APPLICABLE.setdefault(_p, NOT_YET)


# One-line statement of the clause each later rule decides; appended to the property text for every property the rule serves.
RULE_CLAUSES = {
    'RELIDX': 'the index builders of a relation file images under rows and co-images under columns (RELIDX)',
    'TRANSLALL': 'every rule (and rule position) of the automaton adds its edge to the LTS the simulation is computed on (TRANSLALL)',
    'SELFREF': 'a class with a member bound to its own storage has user-provided or deleted copy/move operations that re-bind it (SELFREF)',
    'SAMELEN': 'tuples combined position by position are guarded by an equality of their lengths (SAMELEN)',
    'CHECKEDRET': 'no boolean verdict of an in-repository function is discarded (CHECKEDRET)',
    'MEMBERQ': 'membership queries are decided by lookups of the key only (MEMBERQ)',
    'SHAREID': 'no branch of an explicit-core operation tests whether two operands physically share their stores (SHAREID)',
    'NOREGEX': 'the parser and serializer run no backtracking regex matcher over input tokens (NOREGEX)',
    'OWNKEY': 'a state drawn from one operand is only looked up in that operand (OWNKEY)',
    'REFCNT': 'every MTBDD node handed to a handle is counted, and released only through the counting discipline — a node freed while a handle or the unique table still refers to it breaks hash-consing, so equal functions stop sharing one root (REFCNT)',
    'COMPL': 'the clauses of the complementation construction listed in DESIGN.md section 3 (COMPL)',
    'SIZEDINDEX': 'a vector created with a run-time size is subscripted with a constant only where that size structurally covers the constant or is tested (SIZEDINDEX)',
    'USEMOVE': 'no local is read after it was moved from (USEMOVE)',
    'KEYFIELDS': 'every field the equality of a hash key compares is also hashed, and vice versa (KEYFIELDS)',
    'ADDRKEY': 'a cache key derived from an object is taken from the object the cached value was computed for (ADDRKEY)',
    'QUEUEENDS': 'the element read from a work queue is the one that is removed (QUEUEENDS)',
    'COUNTGUARD': 'a per-rule countdown is decremented once per counted child position and never below what was counted (COUNTGUARD)',
    'LOADROLE': 'loaders and dumpers put each field of a textual rule into the matching argument role (LOADROLE)',
    'CLIOPT': 'the command line maps each option value to the matching InclParam/SimParam setter value (CLIOPT)',
    'NFAOPS': 'NFA reversal exchanges start/final sets and reverses every edge, trimming is prune-reverse-prune-reverse (NFAOPS)',
    'UNIONTRANSL': 'a renumbering union re-indexes its operands through translators with disjoint map storage fed by one by-reference counter (UNIONTRANSL)',
    'ACCRET': 'a by-value builder returns the accumulator it filled, never a fresh object, on every path after the first mutation (ACCRET)',
    'SCRATCHRESET': 'a scratch container is emptied between handing it over and filling it again (SCRATCHRESET)',
    'NOTHROW': 'no non-throwing function (noexcept, throw(), destructor) reaches a throw site through in-repo callees (NOTHROW)',
    'USEDSTATES': 'GetUsedStates inserts parents, children and final states unconditionally and nothing else (USEDSTATES)',
    'ALPHASRC': "an operation reads the alphabet of an operand, never that of a freshly default-constructed local (ALPHASRC)",
    'KEPTRULES': 'the container of rules kept for the result is only appended to, never overwritten per key outside the first-visit guard (KEPTRULES)',
    'INSETLABEL': 'per-block label data of the LTS engine is touched only for labels in that block\'s inset (INSETLABEL)',
    'FLAGRESET': 'an accumulated boolean is assigned afresh before it is accumulated again after having been read (FLAGRESET)',
    'GENPRE': 'a choice-function generator is constructed only over components tested non-empty on every path (GENPRE)',
    'NULLPARAM': 'an optional pointer parameter is dereferenced only after a non-null test or after it was given a local default on every null path (NULLPARAM)',
    'TENTATIVE': 'no effect is made under a tentatively inserted map entry while it can still be erased (TENTATIVE)',
    'PREPASS': 'a translator counter is read as a value only in loops preceded by a pass that registers the same values (PREPASS)',
    'ITERINVAL': 'no container is restructured inside a loop that iterates it, except by the idioms the standard keeps valid (ITERINVAL)',
    'REINDEXALL': 'ReindexStates registers every final and start state of the source in the destination on every path through the copying loop (REINDEXALL)',
    'BACKTRACK': 'the per-branch state of a recursive descent is passed by value or explicitly put back after the last recursive call (BACKTRACK)',
    'CONGRMATCH': 'a congruence rule is tested for containment in the very closure it is then added to (CONGRMATCH)',
    'REFSTABLE': 'references handed out by get-or-create functions point into reference-stable containers, and callbacks that keep the address of their argument are applied to container-owned storage (REFSTABLE)',
    'STATICSTATE': 'no operation keeps a mutable static / thread_local local that is not reset before use (STATICSTATE)',
    'SIBLING': 'sibling functors hold and initialise the same caches and agree on the shape of their shared calls (SIBLING)',
    'FORWARD': 'facade methods forward every argument, in order, to the same-named core method (FORWARD)',
    'TUPLEPOS': 'position-wise tuple handling never reorders, deduplicates or drops positions (TUPLEPOS)',
    'ARITY': 'tuples combined position-wise are guarded by an arity comparison (ARITY)',
    'NONEMPTY': 'front()/back()/begin() dereferences are dominated by a non-emptiness fact (NONEMPTY)',
    'STALESIZE': 'a container sized from another container is not used after that container grew (STALESIZE)',
    'ERASER': 'iterators stored elsewhere are erased when the antichain drops their element (ERASER)',
}


def full_text(pid, rule_names):
    t = CLAIMS[pid]['text']
    extra = [RULE_CLAUSES[r] for r in rule_names if r in RULE_CLAUSES and r not in t]
    if extra:
        t += ' Further clauses decided: ' + '; '.join(extra) + '.'
    return t
