"""Per-property claim texts for MANIFEST.json (what the static check decides, and what it does not)."""

NOT_YET = 'rules for this property are designed (DESIGN.md section 3) but not armed yet; not claimed until they pass their self-test and floors'

CLAIMS = {
    'C20': {
        'text': 'Decides named undefined-behaviour classes on every path of every function body (incl. template instantiations): '
                'INIT (a scalar local read with no reaching write, incl. through by-reference lambda captures) and FALLOFF (a value-returning '
                'function whose CFG reaches the exit without return/throw under NDEBUG). It does not decide memory safety of the hand-managed pools in general.',
        'note': 'trusted: clang 14 AST/CFG, the exporter, NDEBUG release flags from the regenerated compilation database; INIT is the definitely-uninitialised end (potential writes through non-const references count as writes)',
    },
}

NOT_APPLICABLE = {
    'C06': 'exactness of a determinisation-style construction has no structural necessary condition a static rule in reach can decide (DESIGN.md section 4)',
    'C16': 'fix-point correctness of the partition-refinement engine is not visible in code shape (DESIGN.md section 4)',
}
for _p in ['C01', 'C02', 'C03', 'C04', 'C05', 'C07', 'C08', 'C09', 'C10', 'C11', 'C12', 'C13', 'C14', 'C15', 'C17', 'C18', 'C19']:
    NOT_APPLICABLE.setdefault(_p, NOT_YET)
