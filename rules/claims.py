"""Per-property claim texts for MANIFEST.json (what the static check decides, and what it does not)."""

NOT_YET = 'rules for this property are designed (DESIGN.md section 3) but not armed yet; not claimed until they pass their self-test and floors'

CLAIMS = {
    'C11': {
        'text': 'Decides the copy-on-write discipline that value semantics of explicit tree/finite automata rests on: every mutation of a shared rule store '
                '(state->cluster map, cluster, tuple set) reached through a shared_ptr uses a pointer that is Unique (from unique*()), Fresh or guarded by .unique(); '
                'the unique*() functions clone when shared; hash-consed tuples are never mutated. A necessary condition of copy isolation; independence from process history in general is not decided.',
        'note': 'trusted: clang 14 AST, exporter; provenance analysis is intra-procedural (parameters/members/elements are Shared, unresolved is unknown and only costs the floor)',
    },
    'C20': {
        'text': 'Decides named undefined-behaviour classes on every path of every function body (incl. template instantiations): '
                'INIT (a scalar local read with no reaching write, incl. through by-reference lambda captures) and FALLOFF (a value-returning '
                'function whose CFG reaches the exit without return/throw under NDEBUG). It does not decide memory safety of the hand-managed pools in general.',
        'note': 'trusted: clang 14 AST/CFG, the exporter, NDEBUG release flags from the regenerated compilation database; INIT is the definitely-uninitialised end (potential writes through non-const references count as writes)',
    },
}

NOT_APPLICABLE = {
    'C06': 'exactness of a determinisation-style construction has no structural necessary condition a static rule in reach can decide (DESIGN.md section 4)',
    'C16': 'fix-point correctness of the partition-refinement engine is not visible in code shape (DESIGN.md section 4)',
}
for _p in ['C01', 'C02', 'C03', 'C04', 'C05', 'C07', 'C08', 'C09', 'C10', 'C11', 'C12', 'C13', 'C14', 'C15', 'C17', 'C18', 'C19']:
    NOT_APPLICABLE.setdefault(_p, NOT_YET)
