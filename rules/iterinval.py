"""ITERINVAL — a container is not restructured while a loop iterates it (C20; C09 for the congruence closure).

Instance: every structural mutation (`insert`, `emplace*`, `push_*`, `erase`, `clear`, `resize`, `pop_*`, map
`operator[]`) of a container X inside a loop that iterates X (range-for over X, or a loop whose condition
compares an iterator with `X.end()`).  Obligations, by what the standard guarantees:
  * insert-like calls: X is node-based and never rehashes (std::list / set / map / multiset / multimap);
    on vector, deque, string and the unordered containers an insertion may reallocate / rehash and
    invalidates the loop's iterator (found F16: `for (auto& s : normalForm) normalForm.insert(r)` on an
    unordered_set);
  * erase: in a range-for never; in an iterator loop the result is assigned to the loop iterator
    (`it = X.erase(it)`) or X is node-based and the erased iterator is a saved copy, not the loop iterator;
  * clear / resize / pop on the iterated container: never."""
from vfacts import strip, walk, is_node, method_name, root_path

RULE = 'ITERINVAL'
FLOOR = 2
ANCHORS = []
WITNESS = 'src/iterinval.cc'
INSERTS = ('insert', 'emplace', 'emplace_back', 'emplace_front', 'emplace_hint', 'push_back', 'push_front')
KILL = ('clear', 'resize', 'pop_back', 'pop_front', 'assign', 'swap')
NODE_STABLE = ('std::list<', 'std::set<', 'std::map<', 'std::multiset<', 'std::multimap<', 'std::forward_list<')
NODE_ERASE = NODE_STABLE + ('std::unordered_set<', 'std::unordered_map<', 'std::unordered_multiset<', 'std::unordered_multimap<')


def container_kind(unit, t, depth=0):
    """canonical std container a type is, looking through in-repo classes that derive from one"""
    t = t.replace('const ', '').replace('&', '').strip()
    if t.startswith('std::'):
        return t
    if depth < 3:
        for r in unit.records:
            if r['rct'] == t:
                for b in r.get('bases', []):
                    k = container_kind(unit, unit.tname(b), depth + 1)
                    if k:
                        return k
    return ''


def run(unit, em):
    for fn in unit.functions:
        if fn.body is None:
            continue
        for lp in fn.walk():
            X = None
            itvar = None
            if lp['k'] == 'CXXForRangeStmt':
                X = root_path(lp.get('range'))
                xt = unit.ty(strip(lp.get('range')) or lp.get('range')) if is_node(lp.get('range')) else ''
            elif lp['k'] in ('ForStmt', 'WhileStmt') and is_node(lp.get('c')):
                for m in walk(lp['c']):
                    if m['k'] == 'CXXMemberCallExpr' and method_name(m) in ('end', 'cend') and is_node(m.get('obj')):
                        X = root_path(m.get('obj'))
                        xt = unit.ty(strip(m['obj']) or m['obj'])
                c = strip(lp['c'])
                if c is not None and c.get('op') in ('!=', '<') :
                    ops = c.get('ch') or c.get('args') or []
                    for o in ops:
                        so = strip(o)
                        if so is not None and so['k'] == 'DeclRefExpr':
                            itvar = so.get('d')
            if not X or not is_node(lp.get('body')):
                continue
            kind = container_kind(unit, xt)
            if not kind:
                continue
            for c in walk(lp['body'], lambdas=False):
                if c['k'] == 'CXXMemberCallExpr' and not c.get('const') and root_path(c.get('obj')) == X:
                    m = method_name(c)
                elif c['k'] == 'CXXOperatorCallExpr' and c.get('op') == '[]' and c.get('args') and root_path(c['args'][0]) == X and 'map<' in kind and not c.get('const'):
                    m = 'operator[]'
                else:
                    continue
                txt = unit.text(c, 70)
                short = kind.split('<')[0]
                if m in INSERTS or m == 'operator[]':
                    if kind.startswith(NODE_STABLE):
                        em.ok(c, txt, 'insertion into a node-based ordered container does not invalidate the loop iterator', 'inval')
                    else:
                        em.violation(c, txt, 'the loop iterates this %s and inserts into it: an insertion may reallocate / rehash and invalidates the iterator the loop is using (undefined behaviour; elements are skipped or visited twice)' % short, 'inval')
                elif m == 'erase':
                    p = c.get('_p')
                    while p is not None and p['k'] in ('ImplicitCastExpr', 'ParenExpr', 'MaterializeTemporaryExpr', 'CXXBindTemporaryExpr', 'ExprWithCleanups', 'CXXConstructExpr'):
                        p = p.get('_p')
                    assigned = p is not None and p['k'] in ('BinaryOperator', 'CXXOperatorCallExpr') and p.get('op') == '=' and itvar is not None and \
                        (strip((p.get('ch') or p.get('args'))[0]) or {}).get('d') == itvar
                    arg = strip(c['args'][0]) if c.get('args') else None
                    erases_loop_it = arg is not None and arg['k'] == 'DeclRefExpr' and arg.get('d') == itvar
                    if lp['k'] == 'CXXForRangeStmt':
                        em.violation(c, txt, 'erase from the %s a range-for is iterating' % short, 'inval')
                    elif assigned:
                        em.ok(c, txt, 'the loop iterator is re-seated from the result of erase', 'inval')
                    elif kind.startswith(NODE_ERASE) and not erases_loop_it:
                        em.ok(c, txt, 'node-based container: erasing a saved iterator leaves the loop iterator valid', 'inval')
                    else:
                        em.violation(c, txt, 'erase invalidates the iterator this loop goes on using (result not assigned back / contiguous container)', 'inval')
                elif m in KILL:
                    em.violation(c, txt, '`%s` on the container the loop is iterating' % m, 'inval')
