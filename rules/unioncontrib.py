"""UNIONCONTRIB — both operands contribute to a union on every path (C02, C08, C10).

Instance: every `return` of the Union / UnionDisjointStates functions of the five cores, once per
(operand, component) with components = final states, rules (+ start states and start symbols for
NFAs). Obligation: before the return, on its unconditional prefix (statements of the enclosing
blocks that precede it), the returned automaton R received that component from that operand, by
one of the accepted idioms:
  * R copy-constructed from the operand, or `X.ReindexStates(R, t)`            (everything)
  * `R.<field>.insert(X.<same field>.begin(), X.<same field>.end())`             (that field)
  * range-for over X's final states / start states / rule table feeding R.SetStateFinal /
    SetStateStart|SetExistingStateStart / SetMtbdd with the loop variable
  * `R.SetMtbdd(t, f(... X.GetMtbdd(..) ...))`                                   (rules)
  * top-down BDD automata that share their transition table already share the rules.
A state set filled from a *different* field (e.g. start states taken from the keys of the
start-symbol map) is not a contribution of that component. `Union` additionally builds both weak
translators over one counter captured by reference (fresh, disjoint ranges)."""
from vfacts import must_pass_through, strip, walk, method_name, root_path, known_facts, is_node
from .prov import origins, var_table

RULE = 'UNIONCONTRIB'
FLOOR = 30
FUNCS = ('Union', 'UnionDisjointStates')
CORES = ('ExplicitTreeAutCore', 'ExplicitFiniteAutCore', 'BDDBUTreeAutCore', 'BDDTDTreeAutCore')
ANCHORS = ['%s::%s' % (c, f) for c in CORES for f in FUNCS]
FIELD = {'finalStates_': 'final', 'transitions_': 'rules', 'startStates_': 'start', 'startStateToSymbols_': 'startsym'}
GETTER = {'GetFinalStates()': 'final', 'GetStartStates()': 'start', 'GetTransTable()': 'rules', 'GetStates()': 'rules'}


def operand(rp, params):
    """index of the operand parameter an access path is rooted at"""
    if rp and rp[0] == 'param' and rp[1] in params:
        return params.index(rp[1])
    return None


def component(rp):
    for el in rp[2:]:
        if el in FIELD:
            return FIELD[el]
        if el in GETTER:
            return GETTER[el]
    return None


def prefix_statements(ret):
    """statements that execute unconditionally before `ret` in its chain of enclosing blocks"""
    out = []
    cur = ret
    while cur is not None:
        p = cur.get('_p')
        if p is None:
            break
        if p['k'] == 'CompoundStmt':
            for sib in p.get('ch', []):
                if sib is cur:
                    break
                out.append(sib)
        if p['k'] == 'LambdaExpr':
            break
        cur = p
    return out


def not_shared_cond(fn, c):
    """condition is `!ShareTransTable(..)` or `!b` with a local bool b initialised from that call"""
    c = strip(c)
    if c is None or c['k'] != 'UnaryOperator' or c.get('op') != '!':
        return False
    x = strip(c['ch'][0])
    if x is not None and x['k'] == 'DeclRefExpr':
        v = var_table(fn).get(x.get('d'))
        x = strip(v['decl'].get('init')) if v and is_node(v['decl'].get('init')) else None
    return x is not None and x['k'] in ('CallExpr', 'CXXMemberCallExpr') and method_name(x) == 'ShareTransTable'


MECH = {}


def note(op, comp, mech):
    MECH.setdefault((op, comp), set()).add(mech)


def evidence(unit, fn, stmt, R, params, ev, bad):
    """collect (operand, component) contributions of one statement into R"""
    k = stmt['k']
    if k == 'DeclStmt':
        for d in stmt.get('decls', []):
            if d['d'] == R and is_node(d.get('init')):
                i = strip(d['init'])
                # copy construction `T R(x)` / `T R = x` is stripped to the DeclRefExpr by strip()
                rp = root_path(i)
                op = operand(rp, params) if rp else None
                if op is not None and len(rp) == 2:
                    for c in ('final', 'rules', 'start', 'startsym'):
                        ev.add((op, c))
                        note(op, c, 'copy')
                elif i is not None and i['k'] == 'CXXConstructExpr' and i.get('args'):
                    # copy-like constructor T(const T& aut, bool copyTrans = true, bool copyFinal = true)
                    rp = root_path(i['args'][0])
                    op = operand(rp, params) if rp else None
                    if op is not None and len(rp) == 2 and unit.tname(d['t']) == unit.ty(strip(i['args'][0])).replace('const ', ''):
                        flags = []
                        for a in i['args'][1:]:
                            sa = strip(a)
                            flags.append(True if a.get('defaultarg') or (sa is not None and sa.get('defaultarg')) else (sa.get('v') if sa is not None and sa['k'] == 'CXXBoolLiteralExpr' else None))
                        if len(flags) == 2:
                            if flags[0] is True:
                                ev.add((op, 'rules'))
                                note(op, 'rules', 'copy')
                            if flags[1] is True:
                                ev.add((op, 'final'))
                                note(op, 'final', 'copy')
            elif is_node(d.get('init')):
                for n in walk(d['init'], lambdas=False):
                    call_evidence(unit, fn, n, R, params, ev, bad)
        return
    if k == 'ForStmt' and is_node(stmt.get('init')) and stmt['init']['k'] == 'DeclStmt' and is_node(stmt.get('body')):
        # iterator form of the same loop: for (auto it = X.begin(); it != X.end(); ++it) ... *it ...
        for d0 in stmt['init'].get('decls', []):
            i0 = strip(d0.get('init')) if is_node(d0.get('init')) else None
            if i0 is not None and i0['k'] == 'CXXMemberCallExpr' and method_name(i0) in ('begin', 'cbegin'):
                X = i0.get('obj')
                sx = strip(X)
                if sx is not None and sx['k'] == 'DeclRefExpr' and sx.get('dk') == 'local':
                    from .prov import local_sources
                    srcs = local_sources(fn, sx.get('d'))
                    if len(srcs) == 1:
                        X = srcs[0]
                evidence(unit, fn, {'k': 'CXXForRangeStmt', 'range': X, 'var': {'d': d0['d']}, 'body': stmt['body'], '_real': stmt}, R, params, ev, bad)
                return
    if k == 'CXXForRangeStmt':
        rp = root_path(stmt.get('range'))
        op = operand(rp, params) if rp else None
        comp = component(rp) if rp else None
        var = stmt['var']['d']
        if op is not None:
            for n in walk(stmt['body'], lambdas=False):
                if n['k'] != 'CXXMemberCallExpr':
                    continue
                o = strip(n.get('obj'))
                if o is None or o.get('d') != R:
                    continue
                m = method_name(n)
                uses_var = any(x['k'] == 'DeclRefExpr' and x.get('d') == var for a in n.get('args', [])[:1] for x in walk(a))
                if not uses_var:
                    continue
                # a contribution made only for some elements (under a condition inside the loop) is not a contribution of
                # the whole component: in a union every final state / rule of the operand has to arrive
                cond_ = False
                pp = n.get('_p')
                while pp is not None and pp is not stmt and pp is not stmt.get('_real'):
                    if pp['k'] in ('IfStmt', 'ConditionalOperator', 'SwitchStmt'):
                        cond_ = True
                    pp = pp.get('_p')
                if cond_:
                    bad.append((n, 'the %s of operand `%s` are copied only for the elements that pass a test inside the loop: the others are missing from the union' % (comp or 'component', params[op])))
                    continue
                if m == 'SetStateFinal':
                    if comp == 'final':
                        ev.add((op, 'final'))
                    else:
                        bad.append((n, 'final states of the result are filled from %s, not from the operand\'s final states' % '.'.join(rp[1:])))
                elif m in ('SetStateStart', 'SetExistingStateStart'):
                    if comp == 'start':
                        ev.add((op, 'start'))
                        if len(n.get('args', [])) > 1:
                            arp = root_path(n['args'][1])
                            if arp and operand(arp, params) == op and ('GetStartSymbols()' in arp or 'startStateToSymbols_' in arp):
                                ev.add((op, 'startsym'))
                    else:
                        bad.append((n, 'start states of the result are filled from %s, not from the operand\'s start states (the start-symbol map may hold entries of states that are no longer initial)' % '.'.join(rp[1:])))
                elif m == 'SetMtbdd' and comp == 'rules':
                    ev.add((op, 'rules'))
        return
    for n in walk(stmt, lambdas=False):
        call_evidence(unit, fn, n, R, params, ev, bad)


def call_evidence(unit, fn, n, R, params, ev, bad):
    if n['k'] != 'CXXMemberCallExpr':
        return
    m = method_name(n)
    orp = root_path(n.get('obj'))
    args = n.get('args', [])
    if m == 'ReindexStates' and orp and operand(orp, params) is not None and len(orp) == 2 and args:
        a0 = strip(args[0])
        if a0 is not None and a0.get('d') == R:
            for c in ('final', 'rules', 'start', 'startsym'):
                ev.add((operand(orp, params), c))
                note(operand(orp, params), c, 'renumbered')
        return
    if m == 'insert' and orp and orp[0] == 'local' and len(args) == 2:
        v = var_table(fn).get(R)
        if v is None or orp[1] != v['decl']['n']:
            return
        dstc = None
        for el in orp[2:]:
            if el in FIELD:
                dstc = FIELD[el]
            if el == 'uniqueClusterMap()':
                dstc = 'rules'
        a0, a1 = root_path(args[0]), root_path(args[1])
        if dstc and a0 and a1:
            op = operand(a0, params)
            srcc = component(a0)
            if op is not None and op == operand(a1, params) and a0[-1] == 'begin()' and a1[-1] == 'end()':
                if srcc == dstc and component(a1) == dstc:
                    ev.add((op, dstc))
                else:
                    bad.append((n, 'the result\'s %s are filled from the operand\'s %s' % (dstc, srcc)))
        return
    if m == 'SetMtbdd' and orp and len(orp) == 2 and len(args) == 2:
        o = strip(n.get('obj'))
        if o is not None and o.get('d') == R:
            for x in walk(args[1], lambdas=False):
                if x['k'] == 'CXXMemberCallExpr' and method_name(x) == 'GetMtbdd':
                    op = operand(root_path(x.get('obj')), params)
                    if op is not None:
                        ev.add((op, 'rules'))
                if x['k'] == 'DeclRefExpr' and x.get('dk') == 'local':
                    vv = var_table(fn).get(x['d'])
                    if vv and is_node(vv['decl'].get('init')):
                        for y in walk(vv['decl']['init'], lambdas=False):
                            if y['k'] == 'CXXMemberCallExpr' and method_name(y) in ('GetMtbdd', 'ReindexStates'):
                                op = operand(root_path(y.get('obj')), params)
                                if op is not None:
                                    ev.add((op, 'rules'))


def check_translators(unit, fn, em):
    """Union: the weak translators of both operands draw from one counter captured by reference"""
    lambdas = []
    trs = []
    for n in fn.walk(lambdas=False):
        if n['k'] == 'DeclStmt':
            for d in n.get('decls', []):
                t = unit.tname(d['t'])
                if 'TranslatorWeak' in t and is_node(d.get('init')):
                    trs.append((n, d))
    if len(trs) < 2:
        return
    counters = []
    for n, d in trs:
        cnt = None
        init = strip(d['init'])
        a = init.get('args', []) if init is not None else []
        for x in a[1:2]:
            lam = None
            for y in walk(x):
                if y['k'] == 'LambdaExpr':
                    lam = y
                if y['k'] == 'DeclRefExpr' and y.get('dk') == 'local':
                    vv = var_table(fn).get(y['d'])
                    if vv and is_node(vv['decl'].get('init')):
                        li = strip(vv['decl']['init'])
                        if li is not None and li['k'] == 'LambdaExpr':
                            lam = li
            if lam is not None:
                for y in walk(lam.get('body')):
                    if y['k'] == 'UnaryOperator' and y.get('op') == '++':
                        r = strip(y['ch'][0])
                        if r is not None and r['k'] == 'DeclRefExpr' and any(c.get('d') == r['d'] and c.get('byref') for c in lam.get('captures', [])):
                            cnt = r['d']
        counters.append(cnt)
    where = trs[1][0]
    if None in counters:
        em.violation(where, 'Union: translator counter', 'a weak translator of Union does not draw fresh ids from a counter captured by reference', 'counter')
    elif len(set(counters)) != 1:
        em.violation(where, 'Union: translator counter', 'the two operands are renumbered from different counters: their state ranges can overlap', 'counter')
    else:
        em.ok(where, 'Union: translator counter', 'both translators share one by-reference counter', 'counter')


_LW_DONE = set()


def lastwrite(unit, fn, em, R, params):
    """clause `lastwrite`: a table entry of the result written with a value combined from BOTH operands is the last write
    that can hit that entry — no path leads from it to a `SetMtbdd` on the result whose value comes from one operand only
    (a loop that copies one operand's whole table also yields that operand's entry for the same key, e.g. the empty tuple
    of the leaf rules, and overwrites the union with one side of it; seed C07-9)."""
    key = (unit.unit, fn.q, fn.line, R)
    if key in _LW_DONE:
        return
    _LW_DONE.add(key)
    cfg = fn.cfg()
    if cfg is None:
        return
    pd = [p['d'] for p in params]
    sets = []
    for c in fn.calls():
        if c['k'] == 'CXXMemberCallExpr' and method_name(c) == 'SetMtbdd' and (strip(c.get('obj')) or {}).get('d') == R and len(c.get('args') or []) == 2:
            o = origins(fn, c['args'][1], stop=set(pd))
            for _ in range(3):      # loop variables stand for the container they range over
                for d in list(o):
                    v = var_table(fn).get(d)
                    if v and v['kind'] == 'rangevar' and is_node(v['node'].get('range')):
                        o |= origins(fn, v['node']['range'], stop=set(pd))
            sets.append((c, o & set(pd)))
    for c, o in sets:
        if len(o) < 2:
            continue
        singles = [x for x, ox in sets if len(ox) == 1]
        pos = cfg.locate(c)
        if pos is None:
            continue
        reach_ok, w = must_pass_through(cfg, pos, lambda n: any(n is x for x in singles), lambda n: False)
        txt = unit.text(c, 70)
        if reach_ok:
            em.ok(c, txt, 'no later write of a one-operand value into the result\'s table', 'lastwrite')
        else:
            em.violation(c, txt, 'this entry is the union of both operands\' entries, but control can go on to `%s` (line %d), which stores a value taken from one operand only and, ranging over that operand\'s '
                         'whole table, also hits this key: the union is overwritten with one side of it (the other operand\'s rules for this tuple are lost)' % (unit.text(w, 50), unit.loc(w)[1]), 'lastwrite')


def run(unit, em):
    _LW_DONE.clear()
    for fn in unit.functions:
        short = fn.q.replace('VATA::', '')
        if short not in ANCHORS or fn.body is None or len(fn.params) < 2:
            continue
        em.anchor(fn, short)
        cls = short.split('::')[0]
        params = [p['n'] for p in fn.params[:2]]
        comps = ['final', 'rules'] + (['start', 'startsym'] if cls == 'ExplicitFiniteAutCore' else [])
        if short.endswith('::Union'):
            check_translators(unit, fn, em)
        for ret in fn.walk(lambdas=False):
            if ret['k'] != 'ReturnStmt':
                continue
            rv = strip((ret.get('ch') or [None])[0])
            if rv is None or rv['k'] != 'DeclRefExpr' or rv.get('dk') != 'local':
                em.unknown(ret, unit.text(ret, 60), 'returned value is not a local automaton', 'return')
                continue
            R = rv['d']
            ev, bad = set(), []
            MECH.clear()
            for s in prefix_statements(ret):
                evidence(unit, fn, s, R, params, ev, bad)
                # `if (!<tables shared>) { copy the table }` without else: when the tables are shared the rules in them are
                # already common to both operands, so a contribution made under "not shared" is as good as unconditional
                if s['k'] == 'IfStmt' and s.get('el') is None and is_node(s.get('th')) and not_shared_cond(fn, s.get('c')) and cls.startswith('BDD'):
                    th = s['th']
                    for t in (th.get('ch', []) if th['k'] == 'CompoundStmt' else [th]):
                        evidence(unit, fn, t, R, params, ev, bad)
            for (op_, comp_), ms in sorted(MECH.items()):
                if 'copy' in ms and 'renumbered' in ms:
                    bad.append((ret, 'the %s of operand `%s` enter the result twice: copied in the operand\'s own numbering (constructor) and again renumbered (ReindexStates); the stale copies alias unrelated result states' % (
                        {'final': 'final states', 'rules': 'rules', 'start': 'start states', 'startsym': 'start symbols'}[comp_], params[op_])))
            facts, _ = known_facts(ret)
            shared = any(pol is True and (strip(a) or {}).get('k') in ('CallExpr', 'CXXMemberCallExpr') and method_name(strip(a)) == 'ShareTransTable' for pol, a in facts)
            if shared and cls == 'BDDTDTreeAutCore':
                ev.add((0, 'rules'))
                ev.add((1, 'rules'))
            branch = 'shared-table branch' if shared else 'line %d' % unit.loc(ret)[1]
            if cls.startswith('BDD'):
                lastwrite(unit, fn, em, R, fn.params[:2])
            for node, why in bad:
                em.violation(node, unit.text(node, 80), why, 'source')
            for op in (0, 1):
                for c in comps:
                    name = '%s of %s reach the result (%s)' % ({'final': 'final states', 'rules': 'rules', 'start': 'start states', 'startsym': 'start symbols'}[c], params[op], branch)
                    if (op, c) in ev:
                        em.ok(ret, name, '', 'contrib')
                    else:
                        em.violation(ret, name, 'no statement on the unconditional prefix of this return gives the result the %s of operand `%s`' % (c, params[op]), 'contrib')
