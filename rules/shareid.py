"""SHAREID — the outcome of an operation does not depend on whether two operands physically share storage (C11, C02, C10).

The explicit cores are copy-on-write: copies of one automaton share their rule stores until one of them is written.  Sharing
is an implementation detail; two automata with equal content behave alike whether or not they share.  Instance: every branch
condition in the explicit cores that compares two `shared_ptr` handles (or their raw pointers) rooted in *different* objects for
identity (`a.transitions_ == b.transitions_`).  Obligation: there is none — such a test makes the result depend on the history
of the operands (copies that were given different final states still share their rules; seed C10-10 returned L(lhs) for the
intersection of two such copies; seed C11-5 short-cut inclusion the same way).  Comparisons with null and tests of one object
against itself (`this == &rhs`) are not instances.  The BDD cores' `ShareTransTable` protocol is out of scope (they handle
both cases explicitly; UNIONCONTRIB checks them).  Zero instances on the tree: witness/src/shareid.cc must fire on every run."""
from vfacts import strip, walk, is_node, root_path
from .ownkey import AUT

RULE = 'SHAREID'
FLOOR = 0
WITNESS = 'src/shareid.cc'


def handle_type(t):
    t = t.replace('const ', '').strip()
    return t.startswith('std::shared_ptr<') or t.startswith('shared_ptr<')


def run(unit, em):
    for fn in unit.functions:
        f = fn.file
        if fn.body is None or not ('explicit_' in f or f.endswith('shareid.cc')):
            continue
        for n in fn.walk():
            if n['k'] not in ('IfStmt', 'ConditionalOperator', 'WhileStmt'):
                continue
            c = n.get('c') if n['k'] != 'ConditionalOperator' else n['ch'][0]
            if not is_node(c):
                continue
            for x in walk(c):
                ops = None
                if x['k'] == 'CXXOperatorCallExpr' and x.get('op') in ('==', '!=') and len(x.get('args') or []) == 2:
                    ops = x['args']
                elif x['k'] == 'BinaryOperator' and x.get('op') in ('==', '!='):
                    ops = x['ch']
                if not ops:
                    continue
                a, b = strip(ops[0]), strip(ops[1])
                if a is None or b is None:
                    continue

                def handle(e):
                    """the shared_ptr expression behind e (`p`, `p.get()`), or None"""
                    if handle_type(unit.ty(e)):
                        return e
                    if e['k'] == 'CXXMemberCallExpr' and (e.get('q') or '').endswith('::get') and is_node(e.get('obj')) and handle_type(unit.ty(strip(e['obj']) or e['obj'])):
                        return strip(e['obj'])
                    return None
                ha, hb = handle(a), handle(b)
                if ha is None or hb is None:
                    continue
                # only stores owned by automata: `X.member` with X of an automaton class (hash-consed macro-state handles and
                # tuple pointers are compared by identity on purpose)
                def owner_is_aut(h):
                    if h['k'] != 'MemberExpr':
                        return False
                    base = strip((h.get('ch') or [None])[0])
                    if base is None:
                        return False
                    t = unit.ty(base).replace('const ', '')
                    return bool(AUT.search(t)) or t.strip().startswith('Aut')
                if not (owner_is_aut(ha) and owner_is_aut(hb)):
                    continue
                ra, rb = root_path(ha), root_path(hb)
                if not ra or not rb or ra[:2] == rb[:2] and len(ra) > 1 and ra[0] != 'this':
                    continue
                if ra[0] == 'this' and rb[0] == 'this':
                    continue
                em.violation(x, unit.text(x, 70), 'this branch asks whether `%s` and `%s` are physically the same store: copies of an automaton share their stores until written, so the outcome now depends on how the '
                             'operands were created, not on their content (copies that differ in their final states still share their rules)' % (unit.text(ha, 30), unit.text(hb, 30)))
