"""CACHELIFE — address-keyed memo tables are invalidated when, and declared before, the keyed objects die
(C01, C07, C11, C20).

`Util::Cache<T>` hands out `shared_ptr<T>`; `CachedBinaryOp<K1,K2,V>` tables are keyed by the raw
`const T*` of such objects. A released object's address can be reused, so:
  K1  Cache::DeleteElementF runs the user deleter and then erases the entry from store_ (an expired
      weak_ptr left behind makes the next lookup of an equal value throw: history dependence)
  K2  for every local Cache<T> constructed with a deleter and every CachedBinaryOp in the same function
      with a key side of type `const T*`: the deleter calls invalidateFirst/Second (for that side) on
      that table
  K3  declaration (= reverse destruction) order: the tables are declared before the cache, and every
      local holding shared_ptr<T> handles (antichains, ordered sets, frames) after it — the source
      itself says "NB: antichains need to be declared after the cache!!!!!"."""
import re
from vfacts import strip, walk, method_name, must_pass_through, is_node

RULE = 'CACHELIFE'
FLOOR = 12
ANCHORS = ['Cache::DeleteElementF::operator()']


def tmpl_args(t):
    """top-level template arguments of a printed type"""
    i = t.find('<')
    if i < 0:
        return []
    depth, cur, out = 0, '', []
    for ch in t[i + 1:]:
        if ch == '<':
            depth += 1
        if ch == '>':
            if depth == 0:
                out.append(cur.strip())
                break
            depth -= 1
        if ch == ',' and depth == 0:
            out.append(cur.strip())
            cur = ''
            continue
        cur += ch
    return out


def run(unit, em):
    for fn in unit.functions:
        if fn.body is None:
            continue
        short = fn.q.replace('VATA::Util::', '')
        if short == 'Cache::DeleteElementF::operator()':
            em.anchor(fn, short)
            cfg = fn.cfg()
            dele = [c for c in fn.calls() if c['k'] == 'CXXOperatorCallExpr' and c.get('op') == '()' and 'deleter_' in unit.text(c, 0)]
            er = [c for c in fn.calls() if c['k'] == 'CXXMemberCallExpr' and method_name(c) == 'erase' and 'store_' in unit.text(c.get('obj'), 0)]
            if not er:
                em.violation(fn, 'Cache: entry erased on release', 'the released value is not erased from store_: an expired weak_ptr stays and the next lookup of an equal value throws bad_weak_ptr', 'K1')
            elif dele and cfg is not None and must_pass_through(cfg, (cfg.entry, 0), lambda x: x is er[0], lambda x: x is dele[0], start_after=False)[0]:
                em.ok(er[0], 'Cache: entry erased on release', 'user deleter, then store_.erase(*v)', 'K1')
            else:
                em.violation(er[0], 'Cache: entry erased on release', 'the user deleter (which invalidates the address-keyed tables) does not run before the entry is erased on every path', 'K1')
            continue
        # locals of the function, in declaration order
        decls = []
        for n in fn.walk(lambdas=False):
            if n['k'] == 'DeclStmt':
                for d in n.get('decls', []):
                    decls.append((d, n))
        caches = [(d, n) for d, n in decls if unit.tname(d['t']).startswith('VATA::Util::Cache<') and is_node(d.get('init'))]
        if not caches:
            continue
        tables = [(d, n) for d, n in decls if unit.tname(d['t']).startswith('VATA::Util::CachedBinaryOp<')]
        order = {d['d']: i for i, (d, n) in enumerate(decls)}
        for cd, cn in caches:
            T = tmpl_args(unit.tname(cd['t']))[0]
            lam = None
            for x in walk(cd['init']):
                if x['k'] == 'LambdaExpr':
                    lam = x
            key_t = 'const %s *' % T
            for td, tn in tables:
                args = tmpl_args(unit.tname(td['t']))
                for side, meth in ((0, 'invalidateFirst'), (1, 'invalidateSecond')):
                    if len(args) <= side or args[side].replace(' ', '') != key_t.replace(' ', ''):
                        continue
                    name = '%s: %s of %s on release' % (cd['n'], meth, td['n'])
                    called = lam is not None and any(x['k'] == 'CXXMemberCallExpr' and method_name(x) == meth and (strip(x.get('obj')) or {}).get('d') == td['d'] for x in walk(lam.get('body')))
                    if called:
                        em.ok(cn, name, 'the deleter invalidates this key side', 'K2')
                    else:
                        em.violation(cn, name, 'objects of %s are used as %s keys of %s, but its deleter does not call %s: after a release a new object at the same address inherits stale results' % (cd['n'], ('first', 'second')[side], td['n'], meth), 'K2')
                # K3 tables before the cache
                name = '%s declared before %s' % (td['n'], cd['n'])
                if order[td['d']] < order[cd['d']]:
                    em.ok(tn, name, 'the table outlives the cache (destroyed after it)', 'K3')
                else:
                    em.violation(tn, name, 'the table is destroyed before the cache: the cache\'s deleter then calls into a dead table', 'K3')
            # holders of shared_ptr<T> after the cache
            sp = 'std::shared_ptr<%s>' % T
            for d, n in decls:
                if d['d'] == cd['d']:
                    continue
                t = unit.tname(d['t'])
                if sp.replace(' ', '') in t.replace(' ', '') and not d.get('ref'):
                    name = '%s declared after %s' % (d['n'], cd['n'])
                    if order[d['d']] > order[cd['d']]:
                        em.ok(n, name, 'handles die before the cache', 'K3')
                    else:
                        em.violation(n, name, '%s holds shared_ptr handles of the cache but is declared before it: it is destroyed after the cache, whose deleter the handles still call' % d['n'], 'K3')
