"""PREPASS — a translator's counter is used as a value only when the translator can no longer allocate (C04, C19).

TranslateUpward labels the "child -> environment" edges of the LTS with the raw symbol counter (`symbolCnt`,
one fresh label beyond all real symbols) while the same loop still applies `symbolTranslator(..)`, whose
allocator post-increments that counter.  This is sound only because an earlier pass applied the translator to
every symbol the main loop will meet, so the counter is final.  Instance: every raw read of a counter C, captured
by reference by the allocator of a weak translator T, inside a loop that also applies T.  Obligation: a loop that
executes completely before that loop applies T to a value drawn from the same source (same chain of iterated
container types and member selections) as every application of T in the reading loop.  Without it environments
created before and after a symbol is first met carry different labels and the simulation loses pairs depending on
hash-map order."""
from vfacts import strip, walk, is_node, method_name, enclosing
from .prov import var_table
from .uniontransl import counter_of

RULE = 'PREPASS'
FLOOR = 1
ANCHORS = ['ExplicitTreeAutCore::TranslateUpward']
LOOPS = ('ForStmt', 'WhileStmt', 'DoStmt', 'CXXForRangeStmt')


def outermost_loop(n):
    out = None
    p = n.get('_p')
    while p is not None:
        if p['k'] in LOOPS:
            out = p
        if p['k'] == 'LambdaExpr':
            return None
        p = p.get('_p')
    return out


def signature(unit, fn, e, vt, depth=0):
    """name-independent description of where a value is drawn from: member selections + types of the iterated ranges"""
    e = strip(e)
    if e is None or depth > 6:
        return ('?',)
    if e['k'] == 'MemberExpr':
        base = e.get('ch', [None])[0] if e.get('ch') else e.get('obj')
        return ('.' + (e.get('n') or ''),) + signature(unit, fn, base, vt, depth + 1)
    if e['k'] == 'DeclRefExpr':
        v = vt.get(e.get('d'))
        if v is not None and v['kind'] == 'rangevar':
            rng = v['node'].get('range')
            return ('in:' + unit.ty(strip(rng) or rng).replace('const ', ''),) + signature(unit, fn, rng, vt, depth + 1)
        if v is not None and v['kind'] == 'local' and is_node(v['decl'].get('init')):
            return signature(unit, fn, v['decl']['init'], vt, depth + 1)
        return ('var:' + unit.ty(e).replace('const ', ''),)
    if e['k'] in ('UnaryOperator', 'CXXOperatorCallExpr') and e.get('op') == '*':
        inner = e['ch'][0] if e['k'] == 'UnaryOperator' else e['args'][0]
        return ('*',) + signature(unit, fn, inner, vt, depth + 1)
    if e['k'] == 'CXXThisExpr':
        return ('this',)
    return (e['k'],)


def run(unit, em):
    for fn in unit.functions:
        if fn.body is None or 'explicit_tree_transl' not in fn.file:
            continue
        vt = var_table(fn)
        trs = {}
        for d, v in vt.items():
            if v['kind'] != 'local' or not is_node(v['decl'].get('init')) or 'Translator' not in unit.ty(v['decl']):
                continue
            init = strip(v['decl']['init'])
            if init is None or len(init.get('args', [])) < 2:
                continue
            c, byref = counter_of(fn, init['args'][1])
            if c is not None and byref:
                trs[d] = c
        if not trs:
            continue
        short = fn.q.replace('VATA::', '')
        for T, C in trs.items():
            apps = [n for n in fn.walk(lambdas=False) if n['k'] == 'CXXOperatorCallExpr' and n.get('op') == '()' and n.get('args') and (strip(n['args'][0]) or {}).get('d') == T]
            reads = []
            for n in fn.walk(lambdas=False):
                if n['k'] == 'DeclRefExpr' and n.get('d') == C:
                    p = n.get('_p')
                    if p is not None and p['k'] == 'UnaryOperator' and p.get('op') in ('++', '--'):
                        continue
                    if p is not None and p['k'] == 'BinaryOperator' and p.get('op') == '=' and strip(p['ch'][0]) is n:
                        continue
                    if enclosing(n, ('LambdaExpr',)) is not None:
                        continue
                    reads.append(n)
            for r in reads:
                L = outermost_loop(r)
                if L is None:
                    continue
                inl = [a for a in apps if any(x is a for x in walk(L))]
                if not inl:
                    continue
                if short in ANCHORS:
                    em.anchor(fn, short)
                tname, cname = vt[T]['decl'].get('n'), vt[C]['decl'].get('n')
                txt = 'raw read of %s (counter of %s) at line %d' % (cname, tname, unit.loc(r)[1])
                need = {signature(unit, fn, a['args'][1], vt) for a in inl if len(a['args']) > 1}
                # loops that execute completely before L: earlier siblings in L's compound statement
                par = L.get('_p')
                earlier = []
                if par is not None and par['k'] == 'CompoundStmt':
                    for s in par.get('ch', []):
                        if s is L:
                            break
                        if s['k'] in LOOPS:
                            earlier.append(s)
                have = set()
                for P in earlier:
                    for a in apps:
                        if any(x is a for x in walk(P)) and len(a['args']) > 1:
                            have.add(signature(unit, fn, a['args'][1], vt))
                if need and need <= have:
                    em.ok(r, txt, 'an earlier loop applies %s to every value of the same source, so the counter is final here' % tname, 'final')
                else:
                    em.violation(r, txt, '`%s` is used as a value in a loop that still applies `%s` (whose allocator increments it), and no earlier loop registers the same values: the value read here changes whenever a new key is met, so nodes created before and after get different labels (hash-order dependent result)' % (cname, tname), 'final')
