"""RELIDX — the index builders of a relation agree on which side is the image (C04, C05, C19, C01, C06).

`BinaryRelation::buildIndex(dst)` maps every element to its images (`dst[i]` = all j with (i, j) in the relation),
`buildInvIndex(dst)` to its co-images, `buildIndex(ind, inv)` to both.  The simulation engine loads its initial relation
through the one-argument form, the antichain algorithms take `ind` for `contains` and `inv` for `refine`.  Instance: every
`D[x].push_back(y)` in these builders that is controlled by a fact `get(a, b)`.  Obligation: for an image index (the parameter
of the one-argument `buildIndex`, the first parameter of the two-argument one) x is a and y is b; for a co-image index
(`buildInvIndex`, the second parameter) x is b and y is a.  A builder written the other way round hands out the transposed
relation (seed C04-11: the upward simulation started from "final <= non-final").  The pointer-walking form of the
one-argument builder has no subscripts and is not an instance."""
from vfacts import strip, walk, method_name, known_facts

RULE = 'RELIDX'
FLOOR = 3


def dref(e):
    e = strip(e)
    return e.get('d') if e is not None and e['k'] == 'DeclRefExpr' else None


def run(unit, em):
    for fn in unit.functions:
        name = fn.q.rsplit('::', 1)[-1]
        if fn.body is None or name not in ('buildIndex', 'buildInvIndex') or 'binary_relation' not in fn.file or 'Identity' in fn.q:
            continue
        pds = [p['d'] for p in fn.params]
        for c in fn.calls(lambdas=False):
            if c['k'] != 'CXXMemberCallExpr' or method_name(c) not in ('push_back', 'emplace_back') or not c.get('args'):
                continue
            o = strip(c.get('obj'))
            if o is None or o['k'] != 'CXXOperatorCallExpr' or o.get('op') != '[]' or len(o.get('args') or []) != 2:
                continue
            D, x, y = dref(o['args'][0]), dref(o['args'][1]), dref(c['args'][0])
            if D not in pds or x is None or y is None:
                continue
            facts, _ = known_facts(c)
            ab = None
            got = None
            for pol, a in facts:
                a = strip(a)
                if pol and a is not None and a['k'] == 'CXXMemberCallExpr' and method_name(a) == 'get' and len(a.get('args') or []) == 2:
                    ab = (dref(a['args'][0]), dref(a['args'][1]))
                    got = a
            if ab is None or None in ab:
                continue
            inverse = (name == 'buildInvIndex') or (len(pds) == 2 and pds.index(D) == 1)
            want = (ab[1], ab[0]) if inverse else ab
            txt = unit.text(c, 50)
            kind = 'co-image' if inverse else 'image'
            if (x, y) == want:
                em.ok(c, txt, '%s index: filled the right way round under %s' % (kind, unit.text(got, 30)))
            else:
                em.violation(c, txt, 'this is the %s index of the relation, but under `%s` it files the %s: the index describes the transposed relation' % (
                    kind, unit.text(got, 30), 'row element under the column element' if not inverse else 'column element under the row element'))
