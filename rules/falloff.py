"""FALLOFF — no value-returning function can run off its end in the release configuration (C20).

Instance: every non-void function body (incl. template instantiations and lambdas with a non-void
return type). Obligation: every reachable predecessor of the CFG exit block ends in `return`,
`throw`, or contains a [[noreturn]] call. NDEBUG is in force (assert() is not a terminator)."""
from vfacts import walk

RULE = 'FALLOFF'
FLOOR = 400
ASSUMPTIONS = ['release configuration: -DNDEBUG as in the build, assert() expands to nothing']


def check_cfg(cfg):
    reach = cfg.reachable()
    if cfg.exit not in reach:
        return None  # never returns normally
    for p in cfg.pred[cfg.exit]:
        if p not in reach:
            continue
        b = cfg.blocks[p]
        if b.get('noret'):
            continue
        els = cfg.elems(p)
        last = els[-1] if els else None
        if last is not None and last['k'] in ('ReturnStmt', 'CXXThrowExpr'):
            continue
        if b.get('termk') == 'CXXTryStmt':
            continue
        return p
    return None


def run(unit, em):
    for fn in unit.functions:
        d = fn.d
        if d.get('fk') in ('ctor', 'dtor') or fn.ret == 'void' or d.get('noret'):
            pass
        else:
            cfg = fn.cfg()
            if cfg is None:
                em.unknown(fn, fn.q, 'no CFG')
            else:
                bad = check_cfg(cfg)
                if bad is None:
                    em.ok(fn, fn.q)
                else:
                    els = cfg.elems(bad)
                    at = unit.text(els[-1], 80) if els else 'function entry'
                    em.violation(fn, fn.q, 'control can flow off the end of a function returning %s (last statement before the exit: %s)' % (fn.ret, at))
        # lambdas with a non-void return type
        for n in fn.walk():
            if n['k'] == 'LambdaExpr' and n.get('cfg') and unit.tname(n.get('ret')) != 'void':
                cfg = fn.lambda_cfg(n)
                bad = check_cfg(cfg)
                name = fn.q + '::(lambda)'
                if bad is None:
                    em.ok(n, name)
                else:
                    em.violation(n, name, 'control can flow off the end of a lambda returning %s' % unit.tname(n.get('ret')))
