"""PARAMPATH — a setter stores every argument on every path (C13, C10, C12).

Instance: every parameter of every Set*/Add*/Insert* member function of the automaton cores and
of AutDescription-filling code. Obligation (must-pass-through on the CFG, entry to exit): the
parameter is used on every path. A setter that drops an argument on one branch (e.g. the start
symbol when the start state is new) loses information that a later dump cannot show again."""
from vfacts import strip, walk, must_pass_through

RULE = 'PARAMPATH'
FLOOR = 25
PREFIXES = ('Set', 'Add', 'Insert', 'internalAdd')


def run(unit, em):
    for fn in unit.functions:
        if fn.body is None or not fn.cls:
            continue
        cls = fn.cls.split('::')[-1]
        if cls.startswith('BDD'):
            continue  # the BDD cores drop AddTransition on a shared table (assert(false) under NDEBUG): outside the 20 properties, see DESIGN.md section 7
        if not cls.endswith('Core') and cls not in ('ExplicitTreeAut', 'ExplicitFiniteAut', 'BDDBottomUpTreeAut', 'BDDTopDownTreeAut', 'InclParam', 'SimParam'):
            continue
        name = fn.q.split('::')[-1]
        if not name.startswith(PREFIXES) or not fn.params:
            continue
        cfg = fn.cfg()
        if cfg is None:
            continue
        for p in fn.params:
            if not p['n']:
                continue  # unnamed: deliberately unused
            d = p['d']
            ok, _ = must_pass_through(cfg, (cfg.entry, 0), None, lambda x, d=d: x['k'] == 'DeclRefExpr' and x.get('d') == d, start_after=False)
            cname = '%s::%s(%s)' % (cls, name, p['n'])
            if ok:
                em.ok(fn, cname, 'used on every path')
            else:
                em.violation(fn, cname, 'there is a path through the setter on which the argument `%s` is never used: what the caller passed is silently dropped' % p['n'])
        # ---- additive: Add*/Insert*/internalAdd* and the plural/singular final/start setters only ever grow a container
        # field of the automaton: a whole assignment, clear, erase or swap of a field in such a function throws away what
        # earlier calls stored (SetStatesFinal replacing the final set: seed C12-5).  `SetAlphabet`, `SetSimulation` and
        # other scalar/handle setters assign by design and are not instances (only container fields count).
        from vfacts import method_name
        if not (cls.endswith('Core') and not cls.startswith('BDD')):
            continue
        lname = name
        if not (lname.startswith(('Add', 'Insert', 'internalAdd')) or lname in ('SetStateFinal', 'SetStatesFinal', 'SetStateStart', 'SetExistingStateStart')):
            continue
        lose = None
        grew = False
        for n in fn.walk(lambdas=False):
            tgt = None
            kind = None
            if n['k'] in ('BinaryOperator', 'CXXOperatorCallExpr') and n.get('op') == '=':
                ops = n.get('ch') if n['k'] == 'BinaryOperator' else n.get('args')
                tgt, kind = strip(ops[0]) if ops else None, 'assigned as a whole'
            elif n['k'] == 'CXXMemberCallExpr' and method_name(n) in ('clear', 'erase', 'swap', 'assign', 'resize'):
                tgt, kind = strip(n.get('obj')), method_name(n)
            elif n['k'] == 'CXXMemberCallExpr' and method_name(n) in ('insert', 'emplace', 'push_back') :
                grew = True
            if tgt is not None and tgt['k'] == 'MemberExpr' and tgt.get('dk', 'field') in ('field', None) and is_container(unit.ty(tgt)):
                b = tgt.get('ch') or [tgt.get('obj')]
                bb = strip(b[0]) if b and b[0] else None
                if bb is None or bb['k'] == 'CXXThisExpr':
                    lose = (n, tgt.get('n'), kind)
        cname = '%s::%s is additive' % (cls, name)
        if lose:
            em.violation(lose[0], cname, 'the container field `%s` is %s in an adding setter: everything stored by earlier calls is lost' % (lose[1], lose[2]), 'additive')
        else:
            em.ok(fn, cname, 'container fields are only inserted into', 'additive')


def is_container(t):
    t = t.replace('const ', '')
    return t.startswith(('std::set<', 'std::unordered_set<', 'std::map<', 'std::unordered_map<', 'std::vector<', 'std::list<')) or 'StateSet' in t
