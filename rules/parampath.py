"""PARAMPATH — a setter stores every argument on every path (C13, C10, C12).

Instance: every parameter of every Set*/Add*/Insert* member function of the automaton cores and
of AutDescription-filling code. Obligation (must-pass-through on the CFG, entry to exit): the
parameter is used on every path. A setter that drops an argument on one branch (e.g. the start
symbol when the start state is new) loses information that a later dump cannot show again."""
from vfacts import strip, walk, must_pass_through

RULE = 'PARAMPATH'
FLOOR = 25
PREFIXES = ('Set', 'Add', 'Insert', 'internalAdd')


def run(unit, em):
    for fn in unit.functions:
        if fn.body is None or not fn.cls:
            continue
        cls = fn.cls.split('::')[-1]
        if cls.startswith('BDD'):
            continue  # the BDD cores drop AddTransition on a shared table (assert(false) under NDEBUG): outside the 20 properties, see DESIGN.md section 7
        if not cls.endswith('Core') and cls not in ('ExplicitTreeAut', 'ExplicitFiniteAut', 'BDDBottomUpTreeAut', 'BDDTopDownTreeAut', 'InclParam', 'SimParam'):
            continue
        name = fn.q.split('::')[-1]
        if not name.startswith(PREFIXES) or not fn.params:
            continue
        cfg = fn.cfg()
        if cfg is None:
            continue
        for p in fn.params:
            if not p['n']:
                continue  # unnamed: deliberately unused
            d = p['d']
            ok, _ = must_pass_through(cfg, (cfg.entry, 0), None, lambda x, d=d: x['k'] == 'DeclRefExpr' and x.get('d') == d, start_after=False)
            cname = '%s::%s(%s)' % (cls, name, p['n'])
            if ok:
                em.ok(fn, cname, 'used on every path')
            else:
                em.violation(fn, cname, 'there is a path through the setter on which the argument `%s` is never used: what the caller passed is silently dropped' % p['n'])
