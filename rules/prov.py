"""Shared intra-procedural analyses: variable tables, storage chains (which shared_ptr is dereferenced
on the way to a mutated object) and provenance of shared_ptr expressions (PROV, DESIGN.md section 1)."""
from vfacts import strip, walk, is_node, method_name, call_obj

UNIQUE_FNS = {'uniqueClusterMap', 'uniqueCluster', 'uniqueTuplePtrSet'}


def var_table(fn):
    """decl id -> dict(kind, decl, node) for params, locals, range-for variables, lambda params."""
    t = fn.__dict__.get('_vars')
    if t is not None:
        return t
    t = {}
    for p in fn.params:
        t[p['d']] = {'kind': 'param', 'decl': p, 'node': None}
    for n in fn.walk():
        k = n['k']
        if k == 'DeclStmt':
            for d in n.get('decls', []):
                t[d['d']] = {'kind': 'local', 'decl': d, 'node': n}
        elif k == 'CXXForRangeStmt':
            t[n['var']['d']] = {'kind': 'rangevar', 'decl': n['var'], 'node': n}
        elif k == 'LambdaExpr':
            for p in n.get('params', []):
                t[p['d']] = {'kind': 'lparam', 'decl': p, 'node': n}
        elif k == 'CXXCatchStmt' and n.get('var'):
            t[n['var']['d']] = {'kind': 'catch', 'decl': n['var'], 'node': n}
    fn._vars = t
    return t


def assignments(fn):
    """list of (lhs node, rhs node, assignment node) for `=` on builtin and class types."""
    a = fn.__dict__.get('_assigns')
    if a is not None:
        return a
    a = []
    for n in fn.walk():
        if n['k'] == 'BinaryOperator' and n.get('op') == '=':
            a.append((n['ch'][0], n['ch'][1], n))
        elif n['k'] == 'CXXOperatorCallExpr' and n.get('op') == '=' and len(n.get('args', [])) == 2:
            a.append((n['args'][0], n['args'][1], n))
    fn._assigns = a
    return a


def is_handle_type(t):
    """by-value copies of these still refer to the same pointee/element"""
    t = t.replace('const ', '')
    return (t.startswith('std::shared_ptr<') or t.startswith('std::pair<') or 'iterator' in t or
            t.endswith('*') or t.startswith('std::__detail::_Node_') or t.startswith('std::_Rb_tree_'))


def shared_pointee(t):
    t = t.strip()
    if t.startswith('const '):
        t = t[6:]
    if t.startswith('std::shared_ptr<') and t.endswith('>'):
        return t[len('std::shared_ptr<'):-1].strip()
    return None


def chain(unit, fn, e, depth=0):
    """shared_ptr expressions dereferenced between expression e and its storage root, nearest first."""
    e = strip(e)
    if e is None or depth > 25:
        return []
    k = e['k']
    if k == 'DeclRefExpr':
        v = var_table(fn).get(e.get('d'))
        if not v:
            return []
        d = v['decl']
        ty = unit.tname(d['t'])
        if v['kind'] == 'rangevar':
            if d.get('ref') or is_handle_type(ty):
                return chain(unit, fn, v['node'].get('range'), depth + 1)
            return []
        if v['kind'] == 'local' and is_node(d.get('init')):
            if d.get('ref') or is_handle_type(ty):
                return chain(unit, fn, d['init'], depth + 1)
        return []
    if k == 'MemberExpr':
        ch = e.get('ch') or []
        return chain(unit, fn, ch[0], depth + 1) if ch else []
    if k == 'UnaryOperator' and e.get('op') in ('*', '&'):
        return chain(unit, fn, e['ch'][0], depth + 1)
    if k == 'CXXOperatorCallExpr' and e.get('op') in ('->', '*') and e.get('args'):
        a0 = e['args'][0]
        if shared_pointee(unit.ty(strip(a0))) is not None or shared_pointee(unit.ty(a0)) is not None:
            return [a0] + chain(unit, fn, a0, depth + 1)
        return chain(unit, fn, a0, depth + 1)
    if k == 'CXXOperatorCallExpr' and e.get('op') == '[]' and e.get('args'):
        return chain(unit, fn, e['args'][0], depth + 1)
    if k == 'CXXMemberCallExpr':
        if method_name(e) == 'get' and shared_pointee(unit.ty(strip(e.get('obj')))) is not None:
            return [e['obj']] + chain(unit, fn, e.get('obj'), depth + 1)
        return chain(unit, fn, e.get('obj'), depth + 1)
    if k == 'ConditionalOperator':
        return chain(unit, fn, e['ch'][1], depth + 1) + chain(unit, fn, e['ch'][2], depth + 1)
    if k == 'CallExpr' and e.get('args'):
        return chain(unit, fn, e['args'][0], depth + 1)
    return []


def join(ps):
    ps = [p for p in ps if p]
    if not ps:
        return 'Unknown'
    flat = []
    for p in ps:
        flat.append(p)
    for p in flat:
        if p.startswith('Shared'):
            return p
    for p in flat:
        if p.startswith('Unknown'):
            return p
    non_null = [p for p in flat if p != 'Null']
    return non_null[0] if non_null else 'Null'


def prov(unit, fn, e, depth=0, seen=None):
    """Provenance of a shared_ptr-valued expression: Unique | Fresh | FreshLocal(x) | Null |
    Shared(...) | Unknown(...)."""
    e = strip(e)
    if e is None or depth > 12:
        return 'Unknown(depth)'
    seen = seen if seen is not None else set()
    k = e['k']
    if k in ('CXXNullPtrLiteralExpr', 'GNUNullExpr'):
        return 'Null'
    if k == 'CXXMemberCallExpr':
        m = method_name(e)
        if m in UNIQUE_FNS:
            return 'Unique'
        return 'Unknown(call %s)' % m
    if k in ('CXXConstructExpr', 'CXXTemporaryObjectExpr'):
        args = e.get('args', [])
        if not args:
            return 'Null'
        a = strip(args[0])
        if a is None:
            return 'Unknown(ctor)'
        if a['k'] == 'CXXNewExpr':
            return 'Fresh'
        if a['k'] in ('CXXNullPtrLiteralExpr', 'GNUNullExpr'):
            return 'Null'
        if e.get('ctor') in ('copy', 'move'):
            return prov(unit, fn, a, depth + 1, seen)
        return 'Unknown(ctor)'
    if k == 'CallExpr':
        q = e.get('q') or ''
        if q == 'std::make_shared':
            return 'Fresh'
        if q in ('std::move', 'std::forward') and e.get('args'):
            return prov(unit, fn, e['args'][0], depth + 1, seen)
        return 'Unknown(call %s)' % q
    if k == 'ConditionalOperator':
        return join([prov(unit, fn, e['ch'][1], depth + 1, seen), prov(unit, fn, e['ch'][2], depth + 1, seen)])
    if k == 'DeclRefExpr':
        d = e.get('d')
        if d in seen:
            return None
        seen.add(d)
        v = var_table(fn).get(d)
        if not v:
            return 'Unknown(var %s)' % e.get('n')
        if v['kind'] in ('param', 'lparam'):
            return 'Shared(param %s)' % e['n']
        if v['kind'] == 'rangevar':
            return 'Shared(element of %s)' % unit.text(v['node'].get('range'), 40)
        ps = []
        if is_node(v['decl'].get('init')):
            ps.append(prov(unit, fn, v['decl']['init'], depth + 1, seen))
        elif not v['decl'].get('hasinit'):
            ps.append('Null')
        for lhs, rhs, _ in assignments(fn):
            l = strip(lhs)
            if l is not None and l['k'] == 'DeclRefExpr' and l.get('d') == d:
                ps.append(prov(unit, fn, rhs, depth + 1, seen))
        return join(ps)
    if k == 'MemberExpr':
        base = strip((e.get('ch') or [None])[0])
        name = e['n']
        if base is None:
            return 'Unknown(member)'
        if base['k'] == 'CXXThisExpr':
            return 'Shared(this->%s)' % name
        if name in ('first', 'second'):
            return 'Shared(element %s)' % unit.text(e, 40)
        if base['k'] == 'DeclRefExpr':
            v = var_table(fn).get(base.get('d'))
            if v and v['kind'] == 'local' and not v['decl'].get('ref'):
                init = strip(v['decl'].get('init')) if is_node(v['decl'].get('init')) else None
                ps = []
                if init is not None and init['k'] in ('CXXConstructExpr', 'CXXTemporaryObjectExpr') and init.get('ctor') in ('default', 'other'):
                    ps.append('FreshLocal(%s.%s)' % (base['n'], name))
                elif init is not None:
                    ps.append('Shared(copy-initialised %s)' % base['n'])
                else:
                    ps.append('Unknown(local %s)' % base['n'])
                for lhs, rhs, _ in assignments(fn):
                    l = strip(lhs)
                    if l is None:
                        continue
                    if l['k'] == 'DeclRefExpr' and l.get('d') == base.get('d'):
                        ps.append('Shared(%s assigned from %s)' % (base['n'], unit.text(rhs, 30)))
                    if l['k'] == 'MemberExpr' and l['n'] == name:
                        lb = strip((l.get('ch') or [None])[0])
                        if lb is not None and lb['k'] == 'DeclRefExpr' and lb.get('d') == base.get('d'):
                            ps.append(prov(unit, fn, rhs, depth + 1, seen))
                return join(ps)
            return 'Shared(%s.%s)' % (base.get('n'), name)
        return 'Shared(%s)' % unit.text(e, 40)
    if k == 'CXXOperatorCallExpr' and e.get('op') in ('*', '->', '[]'):
        return 'Shared(element %s)' % unit.text(e, 40)
    return 'Unknown(%s)' % k


def outparam_flows(fn):
    """decl id -> [source expressions] for locals passed to a call by non-const reference: the other
    arguments and the receiver of that call may flow into them (std::swap(a,b), fill(src, dst), ...)"""
    t = fn.__dict__.get('_outflows')
    if t is not None:
        return t
    t = {}
    for c in fn.calls():
        pk = c.get('pk', '')
        args = c.get('args', [])
        if not (c.get('inrepo') or c.get('q') in ('std::swap', 'std::iter_swap')):
            continue  # std functions other than swap do not move data between their arguments' owners
        off = 1 if (c['k'] == 'CXXOperatorCallExpr' and c.get('memberop')) else 0
        for i, a in enumerate(args):
            j = i - off
            if j < 0 or j >= len(pk) or pk[j] != 'r':
                continue
            sa = strip(a)
            if sa is None or sa['k'] != 'DeclRefExpr' or sa.get('dk') != 'local':
                continue
            if c.get('q') in ('std::swap', 'std::iter_swap'):
                srcs = [x for k2, x in enumerate(args) if k2 != i]
            else:  # data flows from the by-value / const-reference arguments into the non-const ones
                srcs = [x for k2, x in enumerate(args) if k2 != i and 0 <= k2 - off < len(pk) and pk[k2 - off] in 'cvq']
            if c['k'] == 'CXXMemberCallExpr' and is_node(c.get('obj')):
                srcs.append(c['obj'])
            t.setdefault(sa['d'], []).extend(srcs)
    fn._outflows = t
    return t


def local_sources(fn, d, outparams=False):
    """expressions a local variable gets its value from: initialiser + every assignment to it
    (+ with outparams=True, arguments of calls it is passed to by non-const reference)"""
    v = var_table(fn).get(d)
    out = []
    if v and is_node(v['decl'].get('init')):
        out.append(v['decl']['init'])
    if v and v['kind'] == 'rangevar' and is_node(v['node'].get('range')):
        out.append(v['node']['range'])
    for lhs, rhs, _ in assignments(fn):
        l = strip(lhs)
        if l is not None and l['k'] == 'DeclRefExpr' and l.get('d') == d:
            out.append(rhs)
    if outparams:
        out.extend(outparam_flows(fn).get(d, []))
    return out


def origins(fn, e, stop=None, depth=0, seen=None):
    """Set of declaration ids (params / locals) an expression's value derives from, following local
    initialisers and assignments, receivers of member calls, call/constructor arguments and operators.
    Declarations in `stop` are returned without being expanded."""
    seen = seen if seen is not None else set()
    out = set()
    e = strip(e)
    if e is None or depth > 14:
        return out
    k = e['k']
    if k == 'DeclRefExpr':
        d = e.get('d')
        v = var_table(fn).get(d)
        if v is None:
            return out
        out.add(d)
        if stop is not None and d in stop:
            return out
        if v['kind'] == 'local' and d not in seen:
            seen.add(d)
            for s in local_sources(fn, d):
                out |= origins(fn, s, stop, depth + 1, seen)
        return out
    for _, c in __import__('vfacts').children(e):
        if c.get('k') == 'LambdaExpr':
            continue
        out |= origins(fn, c, stop, depth + 1, seen)
    return out


def bool_leaves(fn, cond, depth=0):
    """Leaf conditions a boolean expression is built from, looking through !, &&, ||, ?: and through bool locals that have
    exactly one source (`const bool saturated = a.size() == b.size(); ... if (saturated || x)`)."""
    c = strip(cond)
    if c is None or depth > 6:
        return []
    k = c['k']
    if k == 'UnaryOperator' and c.get('op') == '!':
        return bool_leaves(fn, c['ch'][0], depth + 1)
    if k == 'BinaryOperator' and c.get('op') in ('&&', '||'):
        return bool_leaves(fn, c['ch'][0], depth + 1) + bool_leaves(fn, c['ch'][1], depth + 1)
    if k == 'ConditionalOperator':
        return [x for ch in c['ch'] for x in bool_leaves(fn, ch, depth + 1)]
    if k == 'DeclRefExpr' and c.get('dk') == 'local':
        v = var_table(fn).get(c.get('d'))
        if v and v['kind'] == 'local' and v['decl'].get('scalar'):
            srcs = local_sources(fn, c['d'])
            if len(srcs) == 1:
                sub = bool_leaves(fn, srcs[0], depth + 1)
                if sub and not (len(sub) == 1 and sub[0] is strip(srcs[0]) and sub[0]['k'] not in ('BinaryOperator', 'CXXMemberCallExpr', 'CXXOperatorCallExpr', 'CallExpr')):
                    return sub
    return [c]


def callee_view(unit, fn, c):
    """(param decl ids, body node, cfg, actual args) of a call to a local lambda or to an in-repo function whose body was exported"""
    if c['k'] == 'CXXOperatorCallExpr' and c.get('op') == '()' and c.get('args'):
        d = (strip(c['args'][0]) or {}).get('d') if (strip(c['args'][0]) or {}).get('k') == 'DeclRefExpr' else None
        v = var_table(fn).get(d) if d is not None else None
        if v and v['kind'] == 'local' and is_node(v['decl'].get('init')):
            lam = strip(v['decl']['init'])
            if lam is not None and lam['k'] == 'LambdaExpr' and is_node(lam.get('body')):
                return [p['d'] for p in lam.get('params') or []], lam['body'], fn.lambda_cfg(lam), c['args'][1:]
        return None
    if c['k'] in ('CallExpr', 'CXXMemberCallExpr') and c.get('inrepo') and c.get('cd') is not None:
        g = unit.by_decl.get(c['cd'])
        if g is not None and g.body is not None and g is not fn:
            return [p['d'] for p in g.params], g.body, g.cfg(), c.get('args') or []
    return None
