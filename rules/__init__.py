"""Rule registry. Each rule module defines RULE, FLOOR, optional ANCHORS/ASSUMPTIONS and run(unit, em)."""
import importlib
import os

# property -> rules deciding its structural clauses (DESIGN.md section 4)
PROPS = {
    'C01': ['DISPATCH', 'ACDUAL', 'FINCHK', 'SYMIDX', 'ORDTOTAL', 'FRAMERESET', 'MERGE', 'CACHELIFE', 'SIBLING', 'ERASER', 'FORWARD', 'KEYFIELDS', 'QUEUEENDS', 'CLIOPT', 'FLAGRESET', 'DRAIN', 'INSETLABEL', 'TUPLEPOS', 'CHECKEDRET', 'STATICSTATE', 'RELIDX'],
    'C02': ['UNIONCONTRIB', 'PRODUCT', 'WORKLIST', 'COW', 'FORWARD', 'UNIONTRANSL', 'ACCRET', 'SCRATCHRESET', 'NULLPARAM', 'TENTATIVE', 'REINDEXALL', 'ALPHASRC', 'DRAIN', 'STATICSTATE', 'SHAREID', 'QUEUEENDS'],
    'C03': ['SIZEEQ', 'WORKLIST', 'DRAIN', 'COW', 'FORWARD', 'COUNTGUARD', 'USEMOVE', 'ACCRET', 'KEPTRULES', 'COLLECTALL', 'ALPHASRC', 'COPYALL', 'QUEUEENDS', 'STATICSTATE'],
    'C04': ['KIND', 'SIMMAP', 'COPYALL', 'LOOPBOUND', 'TUPLEPOS', 'FORWARD', 'KEYFIELDS', 'CLIOPT', 'INSETLABEL', 'PREPASS', 'USEDSTATES', 'REFSTABLE', 'STATICSTATE', 'TRANSLALL', 'SELFREF', 'DRAIN', 'RELIDX'],
    'C05': ['SIMMAP', 'KIND', 'LOOPBOUND', 'DRAIN', 'WORKLIST', 'SIZEEQ', 'COW', 'FORWARD', 'ACCRET', 'INSETLABEL', 'COPYALL', 'USEDSTATES', 'ALPHASRC', 'QUEUEENDS', 'STATICSTATE', 'TRANSLALL', 'SELFREF', 'RELIDX'],
    'C06': ['COMPL', 'ACDUAL', 'ALPHASRC', 'ACCRET', 'COLLECTALL', 'WORKLIST', 'SYMIDX', 'SIZEDINDEX', 'FALLOFF', 'COUNTGUARD', 'KEPTRULES', 'DRAIN', 'QUEUEENDS', 'STATICSTATE', 'RELIDX'],
    'C07': ['DISPATCH', 'ACDUAL', 'FINCHK', 'MERGE', 'PARALLEL', 'COLLECTALL', 'CACHELIFE', 'SIBLING', 'FORWARD', 'QUEUEENDS', 'CLIOPT', 'SCRATCHRESET', 'GENPRE', 'DRAIN', 'FLAGRESET', 'TUPLEPOS', 'CANON', 'UNIONCONTRIB', 'CHECKEDRET', 'STATICSTATE', 'SAMELEN', 'RELIDX'],
    'C08': ['UNIONCONTRIB', 'PRODUCT', 'WORKLIST', 'DRAIN', 'INIT', 'COLLECTALL', 'ARITY', 'TUPLEPOS', 'LOADROLE', 'FORWARD', 'USEMOVE', 'UNIONTRANSL', 'ACCRET', 'SCRATCHRESET', 'NULLPARAM', 'REINDEXALL', 'BACKTRACK', 'CANON', 'QUEUEENDS', 'STATICSTATE', 'SAMELEN'],
    'C09': ['DISPATCH', 'ACDUAL', 'FINCHK', 'MEMO', 'HASHEQ', 'ORDTOTAL', 'FORWARD', 'ADDRKEY', 'QUEUEENDS', 'CLIOPT', 'FLAGRESET', 'DRAIN', 'ITERINVAL', 'CONGRMATCH', 'REFSTABLE', 'OWNKEY', 'CHECKEDRET', 'STATICSTATE', 'TRANSLALL', 'RELIDX'],
    'C10': ['UNIONCONTRIB', 'PRODUCT', 'PAIRFIELD', 'FINCHK', 'WORKLIST', 'DRAIN', 'PARAMPATH', 'COW', 'FORWARD', 'NFAOPS', 'UNIONTRANSL', 'ACCRET', 'SCRATCHRESET', 'COLLECTALL', 'NULLPARAM', 'REINDEXALL', 'ALPHASRC', 'OWNKEY', 'SHAREID', 'MEMBERQ', 'CHECKEDRET', 'QUEUEENDS', 'STATICSTATE'],
    'C11': ['COW', 'CLEARALL', 'HASHCONS', 'CACHELIFE', 'ALPHASRC', 'DISPATCH', 'COPYALL', 'STATICSTATE', 'SHAREID'],
    'C13': ['TEXT', 'LOADROLE', 'PARAMPATH', 'PAIRFIELD', 'FORWARD', 'SCRATCHRESET', 'NOTHROW', 'COLLECTALL', 'DRAIN', 'BACKTRACK', 'COPYALL', 'REFCNT', 'STATICSTATE', 'NOREGEX'],
    'C12': ['COW', 'HASHCONS', 'ITER', 'NONEMPTY', 'CLEARALL', 'PARAMPATH', 'USEDSTATES', 'COPYALL', 'ORDTOTAL', 'CHECKEDRET', 'MEMBERQ', 'STATICSTATE'],
    'C14': ['KIND', 'COW', 'FORWARD', 'SCRATCHRESET', 'HASHCONS', 'REINDEXALL', 'ALPHASRC', 'SIZEEQ', 'STATICSTATE'],
    'C15': ['FINCHK', 'WORKLIST', 'DRAIN', 'KIND', 'HASHCONS', 'COW', 'FORWARD', 'COUNTGUARD', 'ACCRET', 'KEPTRULES', 'COLLECTALL', 'ALPHASRC', 'QUEUEENDS', 'STATICSTATE'],
    'C16': ['INSETLABEL', 'COPYALL', 'STALESIZE', 'QUEUEENDS', 'DRAIN', 'COLLECTALL', 'LOOPBOUND', 'INIT', 'ITERINVAL', 'STATICSTATE', 'SELFREF'],
    'C17': ['CANON', 'TEXT', 'BACKTRACK', 'COPYALL', 'REFCNT', 'STATICSTATE'],
    'C18': ['REFCNT', 'CANON', 'COPYALL', 'STATICSTATE'],
    'C19': ['KIND', 'SIMMAP', 'DISPATCH', 'SIBLING', 'ACDUAL', 'ORDTOTAL', 'FRAMERESET', 'HASHEQ', 'MEMO', 'KEYFIELDS', 'ADDRKEY', 'QUEUEENDS', 'CLIOPT', 'FLAGRESET', 'INSETLABEL', 'PREPASS', 'CONGRMATCH', 'USEDSTATES', 'REFSTABLE', 'TUPLEPOS', 'STATICSTATE', 'TRANSLALL', 'SELFREF', 'UNIONCONTRIB', 'DRAIN', 'RELIDX'],
    'C20': ['INIT', 'FALLOFF', 'PAIRFIELD', 'COPYALL', 'FRAMERESET', 'CACHELIFE', 'LOOPBOUND', 'ERASER', 'STALESIZE', 'ITER', 'NONEMPTY', 'USEMOVE', 'INSETLABEL', 'GENPRE', 'REFCNT', 'NULLPARAM', 'ITERINVAL', 'REFSTABLE', 'SIZEDINDEX', 'CANON', 'CHECKEDRET', 'STATICSTATE', 'SELFREF'],
}

# (property, rule) -> regex on the repo-relative file: only sites in matching files are attributed to that
# property (rule health — floors, anchors — is always judged on all sites)
FILTER = {
    ('C04', 'DRAIN'): r'explicit_lts|explicit_tree_transl|explicit_tree_sim', ('C19', 'DRAIN'): r'explicit_lts|explicit_tree_transl|explicit_tree_sim',
    ('C19', 'UNIONCONTRIB'): r'bdd_',
    ('C09', 'TRANSLALL'): r'explicit_finite', ('C04', 'TRANSLALL'): r'explicit_tree', ('C05', 'TRANSLALL'): r'explicit_tree', ('C19', 'TRANSLALL'): r'explicit_tree', ('C07', 'SAMELEN'): r'bdd_', ('C08', 'SAMELEN'): r'bdd_',
    ('C02', 'QUEUEENDS'): r'explicit_tree', ('C03', 'QUEUEENDS'): r'explicit_tree', ('C08', 'QUEUEENDS'): r'bdd_', ('C10', 'QUEUEENDS'): r'explicit_finite', ('C15', 'QUEUEENDS'): r'explicit_tree_candidate|explicit_tree_unreach', ('C05', 'QUEUEENDS'): r'explicit_tree_unreach', ('C06', 'QUEUEENDS'): r'comp_down|explicit_tree_(useless|unreach)',
    ('C12', 'CHECKEDRET'): r'explicit_tree', ('C12', 'MEMBERQ'): r'explicit_tree', ('C10', 'MEMBERQ'): r'explicit_finite', ('C10', 'CHECKEDRET'): r'explicit_finite', ('C09', 'CHECKEDRET'): r'explicit_finite|comparators|macrostate', ('C01', 'CHECKEDRET'): r'explicit_tree_incl|down_tree|tree_incl|antichain', ('C07', 'CHECKEDRET'): r'bdd_|tree_incl|down_tree|antichain',
    ('C02', 'SHAREID'): r'explicit_tree', ('C10', 'SHAREID'): r'explicit_finite', ('C11', 'SHAREID'): r'explicit_',
    ('C07', 'UNIONCONTRIB'): r'bdd_',   # the simulation handed to the BDD inclusion is computed on the union of the operands
    ('C01', 'DISPATCH'): r'explicit_tree_incl\.cc|aut_base\.hh',
    ('C01', 'ACDUAL'): r'explicit_tree_incl|down_tree_|tree_incl_down|antichain',
    ('C01', 'ORDTOTAL'): r'explicit_tree',
    ('C01', 'MERGE'): r'explicit_tree|antichain',
    ('C07', 'DISPATCH'): r'bdd_|aut_base\.hh',
    ('C07', 'ACDUAL'): r'up_tree_incl_fctor|down_tree_|tree_incl_|antichain',
    ('C07', 'COLLECTALL'): r'bdd_|tree_incl', ('C08', 'COLLECTALL'): r'bdd_', ('C03', 'COLLECTALL'): r'explicit_tree_(useless|unreach)', ('C15', 'COLLECTALL'): r'explicit_tree_candidate', ('C13', 'COLLECTALL'): r'aut_core\.hh|timbuk|loadable|aut_description', ('C10', 'COLLECTALL'): r'explicit_finite',
    ('C07', 'MERGE'): r'tree_incl_up\.hh|antichain',
    ('C09', 'DISPATCH'): r'explicit_finite|aut_base\.hh',
    ('C09', 'ACDUAL'): r'explicit_finite|antichain',
    ('C09', 'ORDTOTAL'): r'explicit_finite|ordered_antichain',
    ('C02', 'UNIONCONTRIB'): r'explicit_tree', ('C02', 'PRODUCT'): r'explicit_tree', ('C02', 'WORKLIST'): r'explicit_tree', ('C02', 'COW'): r'explicit_tree',
    ('C03', 'SIZEEQ'): r'explicit_tree', ('C03', 'WORKLIST'): r'explicit_tree', ('C03', 'COW'): r'explicit_tree',
    ('C05', 'COW'): r'explicit_tree', ('C05', 'KIND'): r'explicit_tree',
    ('C04', 'KIND'): r'explicit_tree',
    ('C08', 'UNIONCONTRIB'): r'bdd_', ('C08', 'PRODUCT'): r'bdd_', ('C08', 'WORKLIST'): r'bdd_', ('C08', 'INIT'): r'bdd_|mtbdd|symbolic',
    ('C10', 'UNIONCONTRIB'): r'explicit_finite', ('C10', 'PRODUCT'): r'explicit_finite', ('C10', 'WORKLIST'): r'explicit_finite',
    ('C10', 'COW'): r'explicit_finite', ('C10', 'FINCHK'): r'explicit_finite',
    ('C17', 'TEXT'): r'sym_var_asgn', ('C13', 'TEXT'): r'timbuk|loadable|convert|aut_core|sym_var',
    ('C15', 'FINCHK'): r'explicit_tree', ('C15', 'WORKLIST'): r'explicit_tree_candidate|explicit_tree_unreach', ('C15', 'DRAIN'): r'explicit_tree_candidate|explicit_tree_unreach',
    ('C15', 'KIND'): r'explicit_tree_candidate', ('C15', 'HASHCONS'): r'explicit_tree_candidate', ('C15', 'COW'): r'explicit_tree_candidate|explicit_tree_unreach',
    ('C03', 'DRAIN'): r'explicit_tree', ('C02', 'DRAIN'): r'explicit_tree_(isect|union)', ('C01', 'DRAIN'): r'explicit_tree_incl|down_tree_', ('C07', 'DRAIN'): r'up_tree_incl|down_tree_|tree_incl|bdd_.*incl', ('C09', 'DRAIN'): r'explicit_finite.*fctor|explicit_finite_incl|congr', ('C13', 'DRAIN'): r'aut_core\.hh|loadable|timbuk', ('C08', 'DRAIN'): r'bdd_', ('C10', 'DRAIN'): r'explicit_finite',
    ('C10', 'PARAMPATH'): r'explicit_finite', ('C12', 'PARAMPATH'): r'explicit_tree',
    ('C05', 'DRAIN'): r'explicit_tree', ('C05', 'WORKLIST'): r'explicit_tree_unreach', ('C05', 'SIZEEQ'): r'explicit_tree',
    ('C01', 'CACHELIFE'): r'explicit_tree|tree_incl_down|down_tree_|util/cache', ('C07', 'CACHELIFE'): r'tree_incl_down|util/cache', ('C11', 'CACHELIFE'): r'util/cache',
    ('C01', 'FINCHK'): r'explicit_tree_incl', ('C07', 'FINCHK'): r'up_tree_incl_fctor', ('C09', 'FINCHK'): r'explicit_finite_incl',
    ('C12', 'NONEMPTY'): r'explicit_tree',
    ('C01', 'FORWARD'): r'explicit_tree_aut', ('C02', 'FORWARD'): r'explicit_tree_aut', ('C03', 'FORWARD'): r'explicit_tree_aut', ('C04', 'FORWARD'): r'explicit_tree_aut', ('C05', 'FORWARD'): r'explicit_tree_aut', ('C14', 'FORWARD'): r'explicit_tree_aut', ('C15', 'FORWARD'): r'explicit_tree_aut', ('C09', 'FORWARD'): r'explicit_finite_aut', ('C10', 'FORWARD'): r'explicit_finite_aut', ('C07', 'FORWARD'): r'bdd_', ('C08', 'FORWARD'): r'bdd_',
    ('C08', 'LOADROLE'): r'bdd_',
    ('C08', 'USEMOVE'): r'bdd_|symbolic', ('C15', 'COUNTGUARD'): r'explicit_tree_candidate', ('C03', 'COUNTGUARD'): r'explicit_tree_useless',
    ('C01', 'QUEUEENDS'): r'explicit_tree|antichain', ('C07', 'QUEUEENDS'): r'antichain|tree_incl|bdd_', ('C09', 'QUEUEENDS'): r'explicit_finite|congr_product|antichain',
    ('C12', 'COW'): r'explicit_tree',
    ('C02', 'STATICSTATE'): r'explicit_tree_(union|isect)', ('C12', 'ORDTOTAL'): r'explicit_tree_aut',
    ('C09', 'REFSTABLE'): r'macrostate_cache|explicit_finite', ('C04', 'REFSTABLE'): r'transl_weak|explicit_tree_transl',
    ('C14', 'SIZEEQ'): r'explicit_tree',
    ('C03', 'COPYALL'): r'explicit_tree', ('C11', 'COPYALL'): r'explicit_', ('C12', 'COPYALL'): r'explicit_tree',
    ('C17', 'COPYALL'): r'mtbdd/', ('C18', 'COPYALL'): r'mtbdd/', ('C13', 'COPYALL'): r'include/vata/(explicit_|bdd_|symbolic|util/two_way_dict|util/aut_description)|aut_core\.hh',
    ('C02', 'ALPHASRC'): r'explicit_tree_(isect|union)', ('C03', 'ALPHASRC'): r'explicit_tree_(useless|unreach)', ('C05', 'ALPHASRC'): r'explicit_tree_(useless|unreach)|explicit_tree_aut_core', ('C10', 'ALPHASRC'): r'explicit_finite', ('C15', 'ALPHASRC'): r'explicit_tree_(candidate|unreach)', ('C14', 'ALPHASRC'): r'explicit_tree_aut_core',
    ('C16', 'COPYALL'): r'explicit_lts|splitting_relation|shared_counter|shared_list|caching_allocator|smart_set|binary_relation', ('C16', 'STALESIZE'): r'explicit_lts|splitting_relation|shared_counter|shared_list|caching_allocator|smart_set|binary_relation', ('C16', 'QUEUEENDS'): r'explicit_lts|splitting_relation|shared_counter|shared_list|caching_allocator|smart_set|binary_relation', ('C16', 'DRAIN'): r'explicit_lts|splitting_relation|shared_counter|shared_list|caching_allocator|smart_set|binary_relation', ('C16', 'COLLECTALL'): r'explicit_lts|splitting_relation|shared_counter|shared_list|caching_allocator|smart_set|binary_relation', ('C16', 'LOOPBOUND'): r'explicit_lts|splitting_relation|shared_counter|shared_list|caching_allocator|smart_set|binary_relation', ('C16', 'INIT'): r'explicit_lts|splitting_relation|shared_counter|shared_list|caching_allocator|smart_set|binary_relation', ('C16', 'ITERINVAL'): r'explicit_lts|splitting_relation|shared_counter|shared_list|caching_allocator|smart_set|binary_relation',
    ('C11', 'DISPATCH'): r'explicit_tree_incl|explicit_finite_incl',
    ('C02', 'REINDEXALL'): r'explicit_tree', ('C08', 'REINDEXALL'): r'bdd_', ('C10', 'REINDEXALL'): r'explicit_finite', ('C14', 'REINDEXALL'): r'explicit_tree',
    ('C09', 'ITERINVAL'): r'explicit_finite|normal_form|congr|antichain',
    ('C02', 'NULLPARAM'): r'explicit_tree', ('C08', 'NULLPARAM'): r'bdd_', ('C10', 'NULLPARAM'): r'explicit_finite',
    ('C03', 'KEPTRULES'): r'explicit_tree_useless', ('C15', 'KEPTRULES'): r'explicit_tree_candidate',
    ('C01', 'FLAGRESET'): r'explicit_tree|down_tree_', ('C07', 'FLAGRESET'): r'down_tree_|up_tree_|tree_incl|bdd_', ('C09', 'FLAGRESET'): r'explicit_finite|comparators',
    ('C02', 'SCRATCHRESET'): r'explicit_tree_(isect|union)', ('C07', 'SCRATCHRESET'): r'tree_incl|bdd_.*sim', ('C08', 'SCRATCHRESET'): r'bdd_', ('C10', 'SCRATCHRESET'): r'explicit_finite', ('C13', 'SCRATCHRESET'): r'aut_core\.hh|timbuk|util\.cc', ('C14', 'SCRATCHRESET'): r'explicit_tree_aut_core',
    ('C02', 'ACCRET'): r'explicit_tree_(isect|union)', ('C03', 'ACCRET'): r'explicit_tree_(useless|unreach)', ('C05', 'ACCRET'): r'explicit_tree_aut_core\.cc|explicit_tree_(useless|unreach)', ('C08', 'ACCRET'): r'bdd_', ('C10', 'ACCRET'): r'explicit_finite', ('C15', 'ACCRET'): r'explicit_tree_candidate',
    ('C02', 'UNIONTRANSL'): r'explicit_tree', ('C08', 'UNIONTRANSL'): r'bdd_', ('C10', 'UNIONTRANSL'): r'explicit_finite',
    ('C14', 'COW'): r'explicit_tree', ('C14', 'KIND'): r'explicit_tree|explicit_finite|bdd_',
    ('C19', 'KIND'): r'explicit_tree', ('C19', 'TUPLEPOS'): r'sim',
    ('C06', 'ACDUAL'): r'comp_down|explicit_tree_aut\.cc', ('C06', 'ALPHASRC'): r'comp_down|explicit_tree_aut\.cc', ('C06', 'ACCRET'): r'comp_down|explicit_tree_(useless|unreach)', ('C06', 'COLLECTALL'): r'comp_down|explicit_tree_(useless|unreach)', ('C06', 'WORKLIST'): r'comp_down|explicit_tree_(useless|unreach)', ('C06', 'SYMIDX'): r'comp_down|explicit_tree_aut\.cc', ('C06', 'SIZEDINDEX'): r'comp_down|explicit_tree_aut\.cc', ('C06', 'FORWARD'): r'comp_down|explicit_tree_aut\.cc', ('C06', 'FALLOFF'): r'comp_down|explicit_tree_(useless|unreach)', ('C06', 'COUNTGUARD'): r'comp_down|explicit_tree_(useless|unreach)', ('C06', 'KEPTRULES'): r'comp_down|explicit_tree_(useless|unreach)', ('C06', 'DRAIN'): r'comp_down|explicit_tree_(useless|unreach)',
}

# (property, rule) -> regex on the obligation id: only those clauses of the rule are attributed to the property
OBFILTER = {
    ('C07', 'CANON'): r'^(C3|C4|C5|C6)$', ('C08', 'CANON'): r'^(C3|C4|C5|C6)$',   # the BDD operations and the symbolic simulation are computed by the apply functors: operand classification, descent pairing and memo discipline decide their results
    ('C20', 'CANON'): r'^C3$',   # memo tables hold raw, uncounted node pointers: kept across applications they hand out freed nodes
    ('C13', 'REFCNT'): r'^R8$',   # the loaders build MTBDDs: a release function called outside the release discipline frees a node that is still referenced (memory corruption while loading)
    ('C13', 'COPYALL'): r'^complete$',
    ('C18', 'CANON'): r'^C3$',
    ('C02', 'ALPHASRC'): r'^result$', ('C03', 'ALPHASRC'): r'^result$', ('C05', 'ALPHASRC'): r'^result$', ('C10', 'ALPHASRC'): r'^result$', ('C15', 'ALPHASRC'): r'^result$', ('C14', 'ALPHASRC'): r'^result$',   # the result is over the operand's alphabet (its language is stated over symbol names)
    ('C11', 'DISPATCH'): r'^early-verdict$',   # a shortcut on physical sharing makes the verdict depend on how an operand was created      # memo tables hold raw, uncounted node pointers: they must not outlive one application
}


def attributed(prop, rec):
    """does this site of a rule count for the property (file and clause filters)?"""
    import re
    flt = FILTER.get((prop, rec['rule']))
    if flt and not re.search(flt, rec['file']):
        return False
    ob = OBFILTER.get((prop, rec['rule']))
    if ob and not re.search(ob, rec.get('obligation') or ''):
        return False
    return True


_mods = {}


def get(name):
    m = _mods.get(name)
    if m is None:
        m = importlib.import_module('rules.' + name.lower().replace('-', '_'))
        _mods[name] = m
    return m


class Emitter:
    def __init__(self, rule, unit):
        self.rule = rule
        self.unit = unit
        self.records = []

    def _rec(self, kind, where, construct, detail='', obligation=''):
        u = self.unit
        if isinstance(where, dict):
            fn = where['_f']
            f, line, col = u.loc(where)
        else:
            fn = where
            f, line, col = fn.file, fn.line, 0
        rel = u.rel(f)
        if rel.startswith(('unit_tests/', 'tests/', 'examples/')):
            return  # test code is parsed only for the template instantiations it provides; sites in it are not libvata
        self.records.append({
            'rule': self.rule, 'kind': kind, 'file': rel, 'line': line, 'col': col,
            'func': fn.q, 'sig': fn.sig, 'construct': construct, 'detail': detail,
            'obligation': obligation,
        })

    def ok(self, where, construct, detail='', obligation=''):
        self._rec('ok', where, construct, detail, obligation)

    def violation(self, where, construct, detail='', obligation=''):
        self._rec('violation', where, construct, detail, obligation)

    def unknown(self, where, construct, detail='', obligation=''):
        self._rec('unknown', where, construct, detail, obligation)

    def anchor(self, where, name):
        self._rec('anchor', where, name)

    def info(self, where, construct, detail=''):
        self._rec('info', where, construct, detail)
