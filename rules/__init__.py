"""Rule registry. Each rule module defines RULE, FLOOR, optional ANCHORS/ASSUMPTIONS and run(unit, em)."""
import importlib
import os

# property -> rules deciding its structural clauses (DESIGN.md section 4)
PROPS = {
    'C01': ['DISPATCH', 'ACDUAL', 'ORDTOTAL', 'FRAMERESET'],
    'C02': ['UNIONCONTRIB', 'PRODUCT', 'WORKLIST', 'COW'],
    'C03': ['SIZEEQ', 'WORKLIST', 'COW'],
    'C07': ['DISPATCH', 'ACDUAL'],
    'C09': ['DISPATCH', 'ACDUAL', 'MEMO', 'HASHEQ', 'ORDTOTAL'],
    'C10': ['UNIONCONTRIB', 'PRODUCT', 'PAIRFIELD', 'FINCHK', 'WORKLIST', 'COW'],
    'C11': ['COW'],
    'C20': ['INIT', 'FALLOFF', 'PAIRFIELD'],
}

_mods = {}


def get(name):
    m = _mods.get(name)
    if m is None:
        m = importlib.import_module('rules.' + name.lower().replace('-', '_'))
        _mods[name] = m
    return m


class Emitter:
    def __init__(self, rule, unit):
        self.rule = rule
        self.unit = unit
        self.records = []

    def _rec(self, kind, where, construct, detail='', obligation=''):
        u = self.unit
        if isinstance(where, dict):
            fn = where['_f']
            f, line, col = u.loc(where)
        else:
            fn = where
            f, line, col = fn.file, fn.line, 0
        self.records.append({
            'rule': self.rule, 'kind': kind, 'file': u.rel(f), 'line': line, 'col': col,
            'func': fn.q, 'sig': fn.sig, 'construct': construct, 'detail': detail,
            'obligation': obligation,
        })

    def ok(self, where, construct, detail='', obligation=''):
        self._rec('ok', where, construct, detail, obligation)

    def violation(self, where, construct, detail='', obligation=''):
        self._rec('violation', where, construct, detail, obligation)

    def unknown(self, where, construct, detail='', obligation=''):
        self._rec('unknown', where, construct, detail, obligation)

    def anchor(self, where, name):
        self._rec('anchor', where, name)

    def info(self, where, construct, detail=''):
        self._rec('info', where, construct, detail)
