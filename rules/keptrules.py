"""KEPTRULES — the container of rules kept for the result only grows (C03, C15).

RemoveUselessStates and GetCandidateTree collect the rules of the result in a local container K that a
final loop feeds to `result.internalAddTransition(..)`.  The witness / trimmed automaton is well-founded
because K keeps the rule that *first* made each state reachable (its children were reachable before).
Instance: every write to K.  Obligation: the write is non-overwriting (`push_back`, `insert`, `emplace*`),
or it is a keyed assignment `K[k] = v` made in the success branch of the first-visit insert of that very
key (then nothing is overwritten either).  `K[k] = v` elsewhere, `erase`, `clear`, `pop_*`, `resize`,
whole assignment lose a recorded rule: a later rule of a cycle replaces the rule that founded the state
and the kept rules have no leaf base."""
from vfacts import strip, walk, is_node, method_name, known_facts
from .prov import var_table
from .worklist import insert_call_of

RULE = 'KEPTRULES'
FLOOR = 4
ANCHORS = ['ExplicitTreeAutCore::GetCandidateTree', 'ExplicitTreeAutCore::RemoveUselessStates']
APPEND = ('push_back', 'insert', 'emplace', 'emplace_back', 'push_front')
LOSE = ('erase', 'clear', 'pop_back', 'pop_front', 'resize', 'assign', 'swap')


def run(unit, em):
    for fn in unit.functions:
        short = fn.q.replace('VATA::', '')
        if short not in ANCHORS or fn.body is None:
            continue
        em.anchor(fn, short)
        vt = var_table(fn)
        # K: local iterated by a loop whose body calls internalAddTransition with fields of the loop variable
        Ks = set()
        for lp in fn.walk(lambdas=False):
            if lp['k'] != 'CXXForRangeStmt':
                continue
            r = strip(lp.get('range'))
            if r is None or r['k'] != 'DeclRefExpr' or r.get('d') not in vt or vt[r['d']]['kind'] != 'local':
                continue
            if any(m['k'] == 'CXXMemberCallExpr' and method_name(m) in ('internalAddTransition', 'AddTransition') for m in walk(lp.get('body'))):
                Ks.add(r['d'])
        if not Ks:
            em.unknown(fn, short, 'no kept-rules container found', 'grow')
            continue
        for K in Ks:
            name = vt[K]['decl'].get('n') or '?'
            for n in fn.walk(lambdas=False):
                k = n['k']
                if k == 'CXXMemberCallExpr' and (strip(n.get('obj')) or {}).get('d') == K and not n.get('const'):
                    m = method_name(n)
                    txt = unit.text(n, 70)
                    if m in APPEND:
                        em.ok(n, txt, 'appending write', 'grow')
                    elif m in LOSE:
                        em.violation(n, txt, '`%s.%s` can drop a rule already recorded for the result: the founding rule of a state may be lost' % (name, m), 'grow')
                elif k in ('CXXOperatorCallExpr', 'BinaryOperator') and n.get('op') == '=':
                    ops = n.get('args') if k == 'CXXOperatorCallExpr' else n.get('ch')
                    l = strip(ops[0]) if ops else None
                    txt = unit.text(n, 70)
                    if l is not None and l['k'] == 'DeclRefExpr' and l.get('d') == K:
                        em.violation(n, txt, '`%s` is overwritten as a whole' % name, 'grow')
                    elif l is not None and l['k'] == 'CXXOperatorCallExpr' and l.get('op') == '[]' and (strip(l['args'][0]) or {}).get('d') == K:
                        key = unit.text(strip(l['args'][1]), 0)
                        # accepted only in the success branch of the first-visit insert of the same key
                        good = False
                        p = n.get('_p')
                        while p is not None:
                            if p['k'] == 'IfStmt':
                                c = strip(p.get('c'))
                                r = insert_call_of(fn, c) if c is not None and not (c['k'] == 'UnaryOperator' and c.get('op') == '!') else None
                                if r and r[0].get('args') and unit.text(strip(r[0]['args'][0]), 0) == key:
                                    th = p.get('th')
                                    if is_node(th) and any(x is n for x in walk(th)):
                                        good = True
                            p = p.get('_p')
                        if good:
                            em.ok(n, txt, 'keyed assignment under the first-visit insert of the same key: nothing is overwritten', 'grow')
                        else:
                            em.violation(n, txt, 'keyed assignment `%s[%s] = ..` outside the first-visit guard of that key: a rule enabled later (e.g. one of a cycle) replaces the rule that first reached the state, and the kept rules may have no leaf base — the result can be empty for a non-empty language' % (name, key), 'grow')
