"""COMPL — structural necessary conditions of the top-down complementation (C06).

The complement of A over an on-the-fly alphabet S is built by `ExplicitDownwardComplementation::Compute`: a macro-state P (a
set of A-states) stands for "accepted from none of P"; for every symbol of S and every choice function over the rules of P
one rule of the complement is emitted.  What makes that exact is visible in the shape of the function; each clause below is
a necessary condition (breaking it makes some tree over S accepted by both or by neither of A and Complement(A)):

  alphabet   the per-macro-state symbol loop ranges over a container filled, unconditionally and once per entry, from
             `<alphabet>->GetSymbolDict()` — the symbols of S, not the symbols A happens to use
  ranks      the rank of every symbol is recorded in the same pass, at the position stored with the symbol
  init       the first macro-state is built from `src.finalStates_` (every final state enters it unless the antichain
             already covers it) and the one accepting state of the result is the number given to that macro-state
  cases      a rule is emitted for (no rule of P for the symbol, rank 0), (no rule, rank > 0: all children = the empty
             macro-state) and (rules, rank > 0: one per choice function); never for (rules, rank 0)
  choice     the choice functions range over (number of collected tuples) x (rank of the symbol); the do-loop is driven by
             `next()`, which is an odometer (carry on `== arity`, stop only when the index reaches the size)
  pos        a child state taken from position c of a rule goes to post[c]; position i of the new rule comes from post[i]
  reset      the per-symbol scratch containers are empty at the start of every symbol iteration; a post[i] is cleared
             after it was harvested
  enqueue    every macro-state that enters the cache is put on the worklist (on the branch where the insert created it)
  symkind    `ranks[]` and the second level of the rule index are subscripted with the dense index of the symbol
             (`.second`), rules are emitted under the symbol itself (`.first`) and under the number of the dequeued
             macro-state
  index      `topDownIndex` files every rule under [its parent state][dense index of its symbol]
  wrap       `ComplementWithPreorder` complements `*this` over `this`'s alphabet into the automaton it returns

Decided: these clauses.  Not decided: exactness of the construction as such."""
import re
from vfacts import ancestors, strip, walk, is_node, method_name, must_pass_through, enclosing, known_facts, guards, conjuncts, root_path
from .prov import var_table, origins, local_sources, callee_view

RULE = 'COMPL'
FLOOR = 14
ANCHORS = ['ExplicitDownwardComplementation::Compute', 'ChoiceFunction::next', 'ExplicitDownwardComplementation::topDownIndex',
           'ExplicitTreeAutCore::ComplementWithPreorder']
LOOPS = ('ForStmt', 'WhileStmt', 'DoStmt', 'CXXForRangeStmt')
FILLS = ('push_back', 'insert', 'emplace_back', 'emplace')


def dref(e):
    e = strip(e)
    return e.get('d') if e is not None and e['k'] == 'DeclRefExpr' else None


def is_sub(e):
    """(base, index) when e is a subscript expression"""
    e = strip(e)
    if e is not None and e['k'] == 'CXXOperatorCallExpr' and e.get('op') == '[]' and len(e.get('args') or []) == 2:
        return e['args'][0], e['args'][1]
    if e is not None and e['k'] == 'ArraySubscriptExpr':
        return e['ch'][0], e['ch'][1]
    return None


def resolve(fn, e, depth=0):
    """follow a scalar local to its single initialiser"""
    e = strip(e)
    d = dref(e)
    if d is None or depth > 4:
        return e
    v = var_table(fn).get(d)
    if not v or v['kind'] != 'local':
        return e
    srcs = local_sources(fn, d)
    if len(srcs) != 1:
        return e
    return resolve(fn, srcs[0], depth + 1)


def member_of(fn, e, var, depth=0):
    """'first' / 'second' when e is (after resolving scalar locals) var.first / var.second, else None"""
    e = resolve(fn, e)
    if e is not None and e['k'] == 'MemberExpr' and e.get('n') in ('first', 'second') and dref((e.get('ch') or [None])[0]) == var:
        return e['n']
    return None


def inside(n, anc):
    p = n
    while p is not None:
        if p is anc:
            return True
        p = p.get('_p')
    return False


def guards_within(n, stop):
    """branch facts controlling n that lie inside statement `stop`"""
    out = []
    for pol, c, how in guards(n):
        if pol == 'loop':
            if c is stop:
                break
            continue
        if not inside(c, stop) or (is_node(stop.get('c')) and inside(c, stop['c'])):
            break       # outside `stop`, or the loop condition of `stop` itself
        out.extend(conjuncts(c, pol))
    return out



def cfg_for(fn, n):
    """the CFG a node belongs to: the enclosing lambda's, or the function's"""
    lam = enclosing(n, ('LambdaExpr',))
    return (fn.lambda_cfg(lam), lam) if lam is not None else (fn.cfg(), None)


def dict_fill(unit, em, fn, body, symmap, alphas, srcs, rank_vecs):
    """clauses alphabet + ranks for the function (Compute itself or a helper) that fills the symbol container; returns True when
    a fill of `symmap` was found there"""
    def dict_loop(L):
        if L['k'] != 'CXXForRangeStmt' or not is_node(L.get('range')):
            return False
        for c in walk(L['range']):
            if c['k'] == 'CXXMemberCallExpr' and method_name(c) == 'GetSymbolDict':
                o = origins(fn, c.get('obj'), stop=set(alphas) | set(srcs))
                return bool(o & set(alphas)) or (bool(o & set(srcs)) and any(x['k'] == 'CXXMemberCallExpr' and method_name(x) == 'GetAlphabet' for x in walk(c.get('obj'))))
        return False
    fills = [c for c in walk(body) if c['k'] == 'CXXMemberCallExpr' and method_name(c) in FILLS and dref(c.get('obj')) == symmap]
    fills += [c for c in walk(body) if c['k'] == 'CXXOperatorCallExpr' and c.get('op') == '[]' and c.get('args') and dref(c['args'][0]) == symmap and
              (c.get('_p') or {}).get('k') in ('BinaryOperator', 'CXXOperatorCallExpr') and (c['_p'].get('op') == '=')]
    if not fills:
        return False
    fill_loop = None
    for f in fills:
        L = enclosing(f, ('CXXForRangeStmt',))
        txt = unit.text(f, 60)
        if L is None or not dict_loop(L):
            em.violation(f, txt, 'the symbols the complement is taken over are collected here, but not in a loop over `<alphabet>->GetSymbolDict()`: a symbol that is registered in the '
                         'alphabet and not used by the automaton gets no rule, so trees containing it are rejected by both A and Complement(A) (or symbols outside the alphabet get rules)', 'alphabet')
            continue
        fill_loop = L
        g = guards_within(f, L)
        if g:
            em.violation(f, txt, 'the symbol is recorded only under the test `%s`: symbols of the alphabet for which it fails get no rule in the complement' % unit.text(g[0][1], 50), 'alphabet')
        else:
            em.ok(f, txt, 'every entry of the alphabet dictionary is recorded, unconditionally', 'alphabet')
    ranks = None
    if fill_loop is not None:
        for c in walk(fill_loop):
            if c['k'] == 'CXXMemberCallExpr' and method_name(c) in ('push_back', 'emplace_back') and dref(c.get('obj')) in rank_vecs:
                ranks = dref(c.get('obj'))
                txt = unit.text(c, 60)
                g = guards_within(c, fill_loop)
                arg = resolve(fn, (c.get('args') or [None])[0])
                is_rank = arg is not None and any(x['k'] == 'MemberExpr' and x.get('n') == 'rank' for x in walk(arg))
                if g:
                    em.violation(c, txt, 'the rank is recorded only under `%s` while the symbol is recorded unconditionally: the positions of later symbols no longer match their ranks' % unit.text(g[0][1], 40), 'ranks')
                elif not is_rank:
                    em.violation(c, txt, 'the value recorded per symbol is not the `rank` of the dictionary entry', 'ranks')
                else:
                    em.ok(c, txt, 'the rank of every dictionary entry is recorded in the pass that records the symbol', 'ranks')
                for f in [x for x in walk(fill_loop) if x['k'] == 'CXXMemberCallExpr' and method_name(x) in FILLS and dref(x.get('obj')) == symmap]:
                    szs = [x for x in walk(f) if x['k'] == 'CXXMemberCallExpr' and method_name(x) == 'size' and dref(x.get('obj')) == ranks]
                    if not szs:
                        continue
                    minus1 = any(b['k'] == 'BinaryOperator' and b.get('op') == '-' and any(y is szs[0] for y in walk(b['ch'][0])) and (strip(b['ch'][1]) or {}).get('v') == 1 for b in walk(f))
                    before = unit.loc(f)[1:] < unit.loc(c)[1:]
                    if (before and not minus1) or (not before and minus1):
                        em.ok(f, unit.text(f, 60), 'the position stored with the symbol is the position its rank is pushed to', 'ranks')
                    else:
                        em.violation(f, unit.text(f, 60), 'the position stored with the symbol (`%s`%s) is not the position its rank is pushed to (the push is %s this statement): every symbol is looked up with the rank of its neighbour' % (
                            unit.text(szs[0], 20), ' - 1' if minus1 else '', 'before' if not before else 'after'), 'ranks')
    if ranks is None and rank_vecs and fill_loop is not None:
        em.unknown(fill_loop, 'rank vector', 'the pass that records the ranks was not recognised')
    return True


def run(unit, em):
    for fn in unit.functions:
        if fn.body is None or 'explicit_tree' not in fn.file:
            continue
        short = fn.q.replace('VATA::', '').split('<')[0]
        if short.endswith('ExplicitDownwardComplementation::Compute'):
            em.anchor(fn, 'ExplicitDownwardComplementation::Compute')
            compute(unit, fn, em)
        elif short.endswith('ChoiceFunction::next') and 'Complementation' in short:
            em.anchor(fn, 'ChoiceFunction::next')
            odometer(unit, fn, em)
        elif short.endswith('ExplicitDownwardComplementation::topDownIndex'):
            em.anchor(fn, 'ExplicitDownwardComplementation::topDownIndex')
            topdown_index(unit, fn, em)
        elif short.endswith('ExplicitTreeAutCore::ComplementWithPreorder'):
            em.anchor(fn, 'ExplicitTreeAutCore::ComplementWithPreorder')
            wrapper(unit, fn, em)
        elif short.endswith('ExplicitTreeAutCore::Complement') and 'comp_down' in fn.file:
            # clause `wrap`, entry point: every complement is computed by the construction — no shortcut result (the complement
            # of an automaton without states is the universal automaton over the alphabet, not the empty one; seed C06-6)
            for r in fn.walk(lambdas=False):
                if r['k'] != 'ReturnStmt':
                    continue
                if any(x['k'] in ('CXXMemberCallExpr', 'CallExpr') and method_name(x) in ('ComplementWithPreorder', 'Compute') for x in walk(r)):
                    em.ok(r, unit.text(r, 60), 'the result comes from the construction', 'wrap')
                else:
                    em.violation(r, unit.text(r, 60), 'Complement() returns a result that the construction did not compute: every special case (no states, no final states, no rules) is handled '
                                 'by Compute itself, whose answer for an automaton with empty language is the universal automaton over the alphabet', 'wrap')


# ---------------------------------------------------------------------------------------------------- Compute

def compute(unit, fn, em):
    vt = var_table(fn)
    cfg = fn.cfg()
    params = {p['n']: p for p in fn.params}
    dst = next((p['d'] for p in fn.params if 'const' not in unit.tname(p['ts']) and 'AutCore' in unit.tname(p['ts'])), None)
    src = next((p['d'] for p in fn.params if 'const' in unit.tname(p['ts']) and 'AutCore' in unit.tname(p['ts']) and 'Alphabet' not in unit.tname(p['ts'])), None)
    alpha = next((p['d'] for p in fn.params if 'Alphabet' in unit.tname(p['ts'])), None)
    if dst is None or src is None or alpha is None:
        em.unknown(fn, 'Compute parameters', 'destination / source / alphabet parameters not recognised')
        return
    adds = [c for c in fn.calls() if c['k'] == 'CXXMemberCallExpr' and method_name(c) == 'AddTransition' and dref(c.get('obj')) == dst]
    if not adds:
        em.violation(fn, 'Compute emits rules', 'no AddTransition on the destination automaton', 'cases')
        return
    # the symbol loop: innermost range-for that contains every AddTransition
    sym_loop = None
    for L in fn.walk():
        if L['k'] == 'CXXForRangeStmt' and all(inside(a, L) for a in adds):
            sym_loop = L      # pre-order: the last match is the innermost
    if sym_loop is None:
        em.unknown(fn, 'symbol loop', 'no single range-for encloses all rule emissions')
        return
    work_loop = enclosing(sym_loop, ('WhileStmt', 'DoStmt', 'ForStmt'))
    sv = sym_loop['var']['d']

    # ---- alphabet / ranks: what the symbol loop ranges over, and the ranks recorded with it
    rng = strip(sym_loop.get('range'))
    symmap = dref(rng)
    rank_vecs = set()
    for n in walk(sym_loop):
        s = is_sub(n)
        if s and dref(s[0]) in vt and re.match(r'^std::vector<(unsigned long|unsigned int|size_t|int|long)>$', unit.ty(vt[dref(s[0])]['decl']).replace('const ', '').replace('&', '').strip()):
            if member_of(fn, s[1], sv):
                rank_vecs.add(dref(s[0]))
    if symmap is None:
        if any(c['k'] == 'CXXMemberCallExpr' and method_name(c) == 'GetSymbolDict' and alpha in origins(fn, c.get('obj'), stop={alpha, src}) for c in walk(sym_loop['range'])):
            em.ok(sym_loop, 'symbol loop over GetSymbolDict()', 'ranges over the dictionary of the alphabet itself', 'alphabet')
        else:
            em.violation(sym_loop, 'symbol loop over ' + unit.text(rng, 50), 'the complement must emit rules for every ranked symbol of the alphabet; this loop does not range over the alphabet dictionary '
                         '(symbols registered in the alphabet but unused by the automaton get no rule: trees using them are rejected by both A and its complement)', 'alphabet')
    else:
        done = dict_fill(unit, em, fn, fn.body, symmap, {alpha}, {src}, rank_vecs)
        if not done:
            # filled by a helper that receives the container by reference
            for c in fn.calls():
                cv = callee_view(unit, fn, c)
                if not cv:
                    continue
                pds, body, _, actual = cv
                idx = [i for i, a in enumerate(actual) if dref(a) == symmap]
                if not idx or idx[0] >= len(pds):
                    continue
                g = unit.by_decl.get(c.get('cd'))
                if g is None:
                    continue
                al = {pds[i] for i, a in enumerate(actual) if i < len(pds) and alpha in origins(fn, a, stop={alpha, src})}
                rv = {pds[i] for i, a in enumerate(actual) if i < len(pds) and dref(a) in rank_vecs}
                done = dict_fill(unit, em, g, g.body, pds[idx[0]], al, set(), rv) or done
        if not done:
            em.violation(sym_loop, 'symbol loop over ' + unit.text(rng, 40), 'the container the symbol loop ranges over is never filled from the alphabet dictionary', 'alphabet')

    # ---- init: first macro-state from the final states of src; the accepting state is its number
    fin_loops = [L for L in fn.walk() if L['k'] == 'CXXForRangeStmt' and is_node(L.get('range')) and
                 any(x['k'] == 'MemberExpr' and x.get('n') == 'finalStates_' and dref((x.get('ch') or [None])[0]) == src for x in walk(L['range'])) and
                 (work_loop is None or not inside(L, work_loop))]
    if not fin_loops:
        em.violation(fn, 'first macro-state', 'no loop over the final states of the complemented automaton before the worklist loop: the root macro-state must be exactly its set of final states', 'init')
    for L in fin_loops:
        lv = L['var']['d']
        ins = [c for c in walk(L['body']) if c['k'] == 'CXXMemberCallExpr' and method_name(c) == 'insert' and 'Antichain1C' in (c.get('q') or '') and dref((c.get('args') or [None])[0]) == lv]
        scope = L
        pre = []
        if not ins:
            # through a local lambda / helper that receives the state and inserts it
            for hc in walk(L['body']):
                cv = callee_view(unit, fn, hc) if hc['k'] in ('CXXOperatorCallExpr', 'CallExpr', 'CXXMemberCallExpr') else None
                if not cv:
                    continue
                pds, hbody, _, actual = cv
                pj = [pds[i] for i, a in enumerate(actual) if i < len(pds) and dref(a) == lv]
                hins = [c for c in walk(hbody) if c['k'] == 'CXXMemberCallExpr' and method_name(c) == 'insert' and 'Antichain1C' in (c.get('q') or '') and dref((c.get('args') or [None])[0]) in pj]
                if hins:
                    ins, scope, pre = hins, hbody, guards_within(hc, L)
                    break
        if not ins:
            em.violation(L, 'loop over src.finalStates_', 'the final state is not inserted into the first macro-state', 'init')
            continue
        g = pre + guards_within(ins[0], scope)
        bad = [a for pol, a in g if not (a['k'] == 'CXXMemberCallExpr' and method_name(a) == 'contains' and 'Antichain1C' in (a.get('q') or ''))]
        if bad:
            em.violation(ins[0], unit.text(ins[0], 50), 'a final state is left out of the first macro-state under `%s` (only the antichain\'s own `contains` may skip one)' % unit.text(bad[0], 40), 'init')
        else:
            em.ok(ins[0], unit.text(ins[0], 50), 'every final state enters the first macro-state unless the antichain already covers it', 'init')
    finals = [c for c in fn.calls() if c['k'] == 'CXXMemberCallExpr' and method_name(c) in ('SetStateFinal', 'SetStatesFinal') and dref(c.get('obj')) == dst]
    cache_ins = [c for c in fn.calls() if c['k'] == 'CXXMemberCallExpr' and method_name(c) == 'insert' and (c.get('q') or '').startswith('std::unordered_map') and
                 dref(c.get('obj')) != symmap and any(x['k'] == 'CallExpr' and (x.get('q') or '') == 'std::make_pair' for x in walk(c))]
    first_ins = [c for c in cache_ins if work_loop is None or not inside(c, work_loop)]
    if not finals:
        em.violation(fn, 'accepting state of the complement', 'no SetStateFinal on the destination: the complement accepts nothing', 'init')
    for c in finals:
        txt = unit.text(c, 50)
        if work_loop is not None and inside(c, work_loop):
            em.violation(c, txt, 'a state of the complement is made accepting inside the worklist loop: only the root macro-state (the set of final states of A) is accepting', 'init')
            continue
        a = strip((c.get('args') or [None])[0])
        if a is not None and a['k'] == 'IntegerLiteral' and first_ins:
            mp = next(x for x in walk(first_ins[0]) if x['k'] == 'CallExpr' and (x.get('q') or '') == 'std::make_pair')
            num = strip(mp['args'][1]) if len(mp.get('args') or []) > 1 else None
            if num is not None and num['k'] == 'IntegerLiteral':
                if num.get('v') == a.get('v'):
                    em.ok(c, txt, 'the accepting state is the number given to the first macro-state (%s)' % a.get('v'), 'init')
                else:
                    em.violation(c, txt, 'the accepting state is %s but the first macro-state (the set of final states of A) is numbered %s' % (a.get('v'), num.get('v')), 'init')
                continue
        if a is not None and first_ins and any(dref(x) is not None and any(y is first_ins[0] for s_ in local_sources(fn, dref(x)) for y in walk(s_)) for x in walk(a) if x['k'] == 'DeclRefExpr'):
            em.ok(c, txt, 'the accepting state is read from the entry of the first macro-state', 'init')
        else:
            em.unknown(c, txt, 'relation between the accepting state and the first macro-state not resolved')

    # ---- cases
    tuple_list = None       # W: the vector whose size drives the choice functions
    inits = [c for c in walk(sym_loop) if c['k'] == 'CXXMemberCallExpr' and method_name(c) == 'init' and 'ChoiceFunction' in (c.get('q') or '')]
    for c in inits:
        a0 = strip((c.get('args') or [None])[0])
        if a0 is not None and a0['k'] == 'CXXMemberCallExpr' and method_name(a0) == 'size':
            tuple_list = dref(a0.get('obj'))
    if tuple_list is None:
        # fall back: the vector of tuple pointers filled in the loop
        for c in walk(sym_loop):
            if c['k'] == 'CXXMemberCallExpr' and method_name(c) == 'push_back' and dref(c.get('obj')) in vt and 'StateTuple' in unit.ty(vt[dref(c.get('obj'))]['decl']):
                tuple_list = dref(c.get('obj'))

    def is_rank_expr(e):
        e = resolve(fn, e)
        s = is_sub(e)
        return bool(s and dref(s[0]) in rank_vecs and member_of(fn, s[1], sv))

    def zero_fact(pol, a):
        """polarity of 'the rank of the current symbol is 0' stated by atom a evaluating to pol; None = says nothing"""
        a = strip(a)
        if a is None:
            return None
        if is_rank_expr(a):
            return not pol
        if a['k'] == 'BinaryOperator' and a.get('op') in ('==', '!=', '>', '<', '>=', '<='):
            l, r = strip(a['ch'][0]), strip(a['ch'][1])
            op = a['op']
            if is_rank_expr(r) and not is_rank_expr(l):
                l, r = r, l
                op = {'>': '<', '<': '>', '>=': '<=', '<=': '>='}.get(op, op)
            if not is_rank_expr(l) or r is None or r['k'] != 'IntegerLiteral':
                return None
            v = r.get('v')
            if op == '==' and v == 0:
                return pol
            if op == '!=' and v == 0:
                return not pol
            if (op == '>' and v == 0) or (op == '>=' and v == 1):
                return not pol
            if (op == '<' and v == 1) or (op == '<=' and v == 0):
                return pol
        return None

    def empty_fact(pol, a):
        a = strip(a)
        if a is None or tuple_list is None:
            return None
        if a['k'] == 'CXXMemberCallExpr' and dref(a.get('obj')) == tuple_list:
            if method_name(a) == 'empty':
                return pol
            if method_name(a) == 'size':
                return not pol
        if a['k'] == 'BinaryOperator' and a.get('op') in ('==', '!=', '>'):
            l, r = strip(a['ch'][0]), strip(a['ch'][1])
            if l is not None and l['k'] == 'CXXMemberCallExpr' and method_name(l) == 'size' and dref(l.get('obj')) == tuple_list and r is not None and r['k'] == 'IntegerLiteral' and r.get('v') == 0:
                return pol if a['op'] == '==' else (not pol)
        return None

    seen_cases = {}
    for c in adds:
        facts = guards_within(c, sym_loop)
        Z = next((z for z in (zero_fact(p, a) for p, a in facts) if z is not None), None)
        E = next((z for z in (empty_fact(p, a) for p, a in facts) if z is not None), None)
        txt = unit.text(c, 70)
        ch = strip((c.get('args') or [None])[0])
        in_do = None
        for anc in ancestors(c):
            if anc is sym_loop:
                break
            if anc['k'] in ('DoStmt', 'WhileStmt', 'ForStmt') and any(x['k'] == 'CXXMemberCallExpr' and method_name(x) == 'next' and 'ChoiceFunction' in (x.get('q') or '') for x in walk(anc)):
                in_do = anc
        if E is True and Z is True:
            empty_tuple = ch is not None and ch['k'] in ('CXXTemporaryObjectExpr', 'CXXConstructExpr') and not [a for a in ch.get('args') or [] if a['k'] != 'CXXDefaultArgExpr']
            if empty_tuple:
                em.ok(c, txt, 'constant without a rule in the macro-state: accepted by the complement (leaf rule)', 'cases')
            else:
                em.violation(c, txt, 'the rule for a constant must have no children', 'cases')
            seen_cases['EZ'] = c
        elif E is True and Z is False:
            # children: rank copies of the empty macro-state
            okc = False
            if ch is not None and ch['k'] in ('CXXTemporaryObjectExpr', 'CXXConstructExpr'):
                args = [a for a in ch.get('args') or [] if a['k'] != 'CXXDefaultArgExpr']
                if len(args) == 2 and is_rank_expr(args[0]):
                    o = origins(fn, args[1])
                    for d in o:
                        for s_ in local_sources(fn, d):
                            for x in walk(s_):
                                if x['k'] == 'CXXMemberCallExpr' and method_name(x) == 'insert' and (x.get('q') or '').startswith('std::unordered_map'):
                                    mp = next((y for y in walk(x) if y['k'] == 'CallExpr' and (y.get('q') or '') == 'std::make_pair'), None)
                                    k0 = strip(mp['args'][0]) if mp and mp.get('args') else None
                                    if k0 is not None and k0['k'] in ('CXXTemporaryObjectExpr', 'CXXConstructExpr') and not [a for a in k0.get('args') or [] if a['k'] != 'CXXDefaultArgExpr']:
                                        okc = True
            if okc:
                em.ok(c, txt, 'no rule of the macro-state for this symbol: every child is the empty macro-state (accepts everything), one per position', 'cases')
            else:
                em.violation(c, txt, 'when no state of the macro-state has a rule for the symbol the complement must accept f(t1..tn) for all subtrees: the children must be `rank` copies of the state '
                             'of the empty macro-state; this rule is built differently', 'cases')
            seen_cases['Ez'] = c
        elif E is False and Z is False:
            if in_do is None:
                em.violation(c, txt, 'rules for a symbol that has rules in the macro-state must be emitted once per choice function (inside the loop driven by ChoiceFunction::next())', 'cases')
            else:
                g = guards_within(c, in_do)
                if g:
                    em.violation(c, txt, 'the rule of a choice function is emitted only under `%s`: every choice function must yield a rule, otherwise the trees only that rule accepts are rejected by A and by its complement' % unit.text(g[0][1], 40), 'cases')
                else:
                    em.ok(c, txt, 'one rule per choice function', 'cases')
            seen_cases['ez'] = c
        elif E is False and Z is None:
            em.violation(c, txt, 'this rule is emitted for a symbol with rules in the macro-state without any test of its rank: for a constant that some state of the macro-state accepts the complement must emit nothing '
                         '(and a choice function over arity 0 does not exist)', 'cases')
        elif E is False and Z is True:
            em.violation(c, txt, 'a rule is emitted for a constant that a state of the macro-state has a rule for: the constant is then accepted by A and by its complement', 'cases')
        elif E is None and tuple_list is not None:
            em.violation(c, txt, 'this rule is emitted without a test whether the macro-state has rules for the symbol (`%s` empty or not): the two situations need different rules' % vt[tuple_list]['decl'].get('n'), 'cases')
        else:
            em.unknown(c, txt, 'case split not resolved')
    for key, what in (('EZ', 'a constant no state of the macro-state has a rule for (must be accepted: leaf rule)'),
                      ('Ez', 'a symbol of rank > 0 no state of the macro-state has a rule for (must be accepted with arbitrary subtrees)'),
                      ('ez', 'a symbol of rank > 0 with rules in the macro-state (one rule per choice function)')):
        if key not in seen_cases:
            em.violation(sym_loop, 'case: ' + what.split(' (')[0], 'no rule is emitted for %s' % what, 'cases')

    # ---- choice
    for c in inits:
        txt = unit.text(c, 70)
        args = c.get('args') or []
        a0 = strip(args[0]) if args else None
        ok0 = a0 is not None and a0['k'] == 'CXXMemberCallExpr' and method_name(a0) == 'size' and dref(a0.get('obj')) == tuple_list
        ok1 = len(args) > 1 and is_rank_expr(args[1])
        if ok0 and ok1:
            em.ok(c, txt, 'choice functions over (collected rules) x (rank of the current symbol)', 'choice')
        else:
            em.violation(c, txt, 'the choice functions must map each collected rule (`%s.size()` of them) to one of its `rank` positions; %s' % (
                vt[tuple_list]['decl'].get('n') if tuple_list in vt else 'W', 'the first argument is not that size' if not ok0 else 'the second argument is not the rank of the current symbol'), 'choice')
        do = next((d for d in walk(sym_loop) if d['k'] == 'DoStmt' or d['k'] == 'WhileStmt'), None)
    for d in walk(sym_loop):
        if d['k'] in ('DoStmt', 'WhileStmt', 'ForStmt') and any(inside(a, d) for a in adds) and d is not work_loop:
            nx_all = [x for x in walk(d) if x['k'] == 'CXXMemberCallExpr' and method_name(x) == 'next' and 'ChoiceFunction' in (x.get('q') or '')]
            if not nx_all:
                continue
            cond = d.get('c')
            nx = [x for x in walk(cond) if any(x is y for y in nx_all)] if is_node(cond) else []
            sc = strip(cond) if is_node(cond) else None
            plain = sc is not None and sc['k'] == 'CXXMemberCallExpr'
            if nx and plain and d['k'] == 'DoStmt':
                em.ok(d, 'do { ... } while (%s)' % unit.text(cond, 30), 'the loop body runs for the initial choice function and for every one next() produces', 'choice')
            elif nx and d['k'] in ('WhileStmt', 'ForStmt'):
                em.violation(d, 'while (%s)' % unit.text(cond, 30), 'a loop that calls next() in its condition advances before the first choice function (all zeros) was used: its rule is never emitted', 'choice')
            elif nx:
                em.violation(d, 'loop on ' + unit.text(cond, 40), 'the enumeration of choice functions stops on a condition besides next(): the remaining choice functions yield no rule', 'choice')
            elif sc is not None and sc['k'] == 'DeclRefExpr' and unit.ty(sc).strip() == 'bool':
                # flag-controlled form: `bool more = true; while (more) { ...; more = cf.next(); }`
                fl = dref(sc)
                srcs_ = local_sources(fn, fl)
                init_true = bool(srcs_) and (strip(srcs_[0]) or {}).get('k') == 'CXXBoolLiteralExpr' and (strip(srcs_[0]) or {}).get('v') in (True, 1, 'true')
                only_next = all((strip(x) or {}).get('k') == 'CXXBoolLiteralExpr' or any(any(y is z for z in nx_all) for y in walk(x)) for x in srcs_)
                plain_next = all((strip(x) or {}).get('k') in ('CXXBoolLiteralExpr', 'CXXMemberCallExpr') for x in srcs_)
                if init_true and only_next and plain_next:
                    em.ok(d, 'while (%s) { ...; %s = next(); }' % (sc.get('n'), sc.get('n')), 'the flag starts true and is only ever set from next(): same iterations as do-while(next())', 'choice')
                else:
                    em.violation(d, 'loop on flag ' + (sc.get('n') or ''), 'the flag that drives the enumeration of choice functions does not start true or is not set from next() alone: choice functions are skipped', 'choice')
            else:
                em.unknown(d, 'loop on ' + unit.text(cond, 40), 'form of the choice-function loop not recognised')

    # ---- pos
    ac_calls = [c for c in walk(sym_loop) if c['k'] == 'CXXMemberCallExpr' and 'Antichain1C' in (c.get('q') or '') and method_name(c) in ('insert', 'contains', 'refine', 'data', 'clear')]
    pos_sites = []      # (report node, slot expression, value expression)
    for c in ac_calls:
        if method_name(c) == 'insert' and is_sub(c.get('obj')):
            pos_sites.append((c, c.get('obj'), (c.get('args') or [None])[0]))
    for hc in walk(sym_loop):
        cv = callee_view(unit, fn, hc) if hc['k'] in ('CXXOperatorCallExpr', 'CallExpr', 'CXXMemberCallExpr') else None
        if not cv:
            continue
        pds, hbody, _, actual = cv
        for c in walk(hbody):
            if c['k'] == 'CXXMemberCallExpr' and method_name(c) == 'insert' and 'Antichain1C' in (c.get('q') or ''):
                ia, ib = dref(c.get('obj')), dref((c.get('args') or [None])[0])
                if ia in pds and ib in pds and pds.index(ia) < len(actual) and pds.index(ib) < len(actual) and is_sub(actual[pds.index(ia)]):
                    pos_sites.append((hc, actual[pds.index(ia)], actual[pds.index(ib)]))
    for c, slot_e, val_e in pos_sites:
        s = is_sub(slot_e)
        if not s:
            continue
        slot = strip(s[1])
        val = resolve(fn, val_e)
        vs = is_sub(val)
        txt = unit.text(c, 50)
        if vs and dref(slot) is not None and dref(vs[1]) is not None:
            if dref(slot) == dref(vs[1]):
                em.ok(c, txt, 'the state taken from position `%s` of the rule goes to the macro-state of that position' % strip(vs[1]).get('n'), 'pos')
            else:
                em.violation(c, txt, 'the state is taken from position `%s` of the rule but added to the macro-state of position `%s`' % (strip(vs[1]).get('n'), slot.get('n')), 'pos')
        elif vs and slot is not None and slot['k'] == 'IntegerLiteral':
            em.violation(c, txt, 'the state is taken from position `%s` of the rule but always added to the macro-state of position %s' % (unit.text(vs[1], 20), slot.get('v')), 'pos')
        else:
            em.unknown(c, txt, 'positions not resolved')
    for a in fn.walk():
        if not (a['k'] == 'BinaryOperator' and a.get('op') == '=' and inside(a, sym_loop)):
            continue
        s = is_sub(a['ch'][0])
        if not s or dref(s[0]) not in vt or 'StateTuple' not in unit.ty(vt[dref(s[0])]['decl']):
            continue
        F = enclosing(a, ('ForStmt',))
        if F is None:
            continue
        harv = [c.get('obj') for c in ac_calls if method_name(c) == 'data' and inside(c, F)]
        for hc in walk(F):
            if hc['k'] in ('CXXOperatorCallExpr', 'CallExpr', 'CXXMemberCallExpr') and 'Antichain1C' not in (hc.get('q') or '') and not (hc['k'] == 'CXXOperatorCallExpr' and hc.get('op') == '[]'):
                for ar in (hc.get('args') or []):
                    sa = is_sub(ar)
                    if sa and dref(sa[0]) in vt and 'Antichain1C' in unit.ty(vt[dref(sa[0])]['decl']):
                        harv.append(ar)
        txt = unit.text(a, 50)
        if not harv:
            em.unknown(a, txt, 'no harvest of a position macro-state in the loop that fills the rule')
            continue
        hs = is_sub(harv[0])
        if hs and dref(hs[1]) is not None and dref(s[1]) is not None:
            if dref(hs[1]) == dref(s[1]):
                em.ok(a, txt, 'position `%s` of the new rule is the macro-state collected for position `%s`' % (strip(s[1]).get('n'), strip(hs[1]).get('n')), 'pos')
            else:
                em.violation(a, txt, 'position `%s` of the new rule receives the macro-state collected for position `%s`' % (strip(s[1]).get('n'), strip(hs[1]).get('n')), 'pos')
        else:
            em.unknown(a, txt, 'positions not resolved')

    # ---- reset
    body = sym_loop.get('body')
    first = None
    for m_ in walk(body):
        if m_ is not body and cfg is not None and cfg.locate(m_) is not None:
            first = m_
            break
    scratch = set()
    if tuple_list is not None:
        scratch.add(tuple_list)
    for c in walk(sym_loop):
        # the de-duplication set guarding pushes to the tuple list
        if c['k'] == 'CXXMemberCallExpr' and method_name(c) == 'push_back' and dref(c.get('obj')) == tuple_list:
            for pol, a in guards_within(c, sym_loop):
                for x in walk(a):
                    if x['k'] == 'CXXMemberCallExpr' and method_name(x) == 'insert' and dref(x.get('obj')) in vt:
                        scratch.add(dref(x.get('obj')))
    for d in sorted(scratch):
        v = vt[d]
        if v['kind'] != 'local' or inside(v['node'], sym_loop):
            continue   # declared per iteration
        fills = [c for c in walk(sym_loop) if c['k'] == 'CXXMemberCallExpr' and method_name(c) in FILLS and dref(c.get('obj')) == d]
        if not fills or first is None:
            continue

        def marker(n, d=d):
            if n['k'] == 'CXXMemberCallExpr' and method_name(n) in ('clear', 'swap', 'assign') and dref(n.get('obj')) == d:
                return True
            if n['k'] == 'CXXOperatorCallExpr' and n.get('op') == '=' and n.get('args') and dref(n['args'][0]) == d:
                return True
            return False
        reads = [c for c in walk(sym_loop) if c['k'] in ('CXXMemberCallExpr', 'CXXOperatorCallExpr') and dref(c.get('obj') if c['k'] == 'CXXMemberCallExpr' else (c.get('args') or [None])[0]) == d and not marker(c)]
        ok, w = must_pass_through(cfg, cfg.locate(first), lambda n: any(n is r for r in reads), marker, start_after=False)
        name = v['decl'].get('n')
        if ok:
            em.ok(fills[0], 'scratch %s' % name, 'emptied at the start of every symbol iteration before it is filled or read', 'reset')
        else:
            em.violation(w or fills[0], 'scratch %s' % name, '`%s` is declared outside the symbol loop and is used here without having been emptied in this iteration: the rules collected for the '
                         'previous symbol (of another rank) are still in it' % name, 'reset')
    ac_all = [c for c in fn.walk(lambdas=False) if c['k'] == 'CXXMemberCallExpr' and 'Antichain1C' in (c.get('q') or '') and method_name(c) in ('insert', 'contains', 'refine', 'data', 'clear')]
    harvests = [(c, c.get('obj')) for c in ac_all if method_name(c) == 'data']
    # a position antichain handed to a helper / local lambda (by reference) is harvested there
    for c in fn.walk(lambdas=False):
        if c['k'] not in ('CallExpr', 'CXXOperatorCallExpr', 'CXXMemberCallExpr') or 'Antichain1C' in (c.get('q') or ''):
            continue
        for a in (c.get('args') or []):
            sa = is_sub(a)
            if sa and dref(sa[0]) in vt and 'Antichain1C' in unit.ty(vt[dref(sa[0])]['decl']) and not (c['k'] == 'CXXOperatorCallExpr' and c.get('op') == '[]'):
                harvests.append((c, a))
    for c, slot_expr in harvests:
        if cfg is None:
            continue
        hs = is_sub(slot_expr)
        if not hs:
            continue
        cv = callee_view(unit, fn, c) if c['k'] != 'CXXMemberCallExpr' or 'Antichain1C' not in (c.get('q') or '') else None
        if cv:
            pds, hbody, hcfg, actual = cv
            pi = [pds[i] for i, a_ in enumerate(actual) if a_ is slot_expr and i < len(pds)]
            hdata = [x for x in walk(hbody) if x['k'] == 'CXXMemberCallExpr' and 'Antichain1C' in (x.get('q') or '') and method_name(x) == 'data' and dref(x.get('obj')) in pi]
            if not hdata:
                continue        # the helper does not harvest this antichain (it fills or queries it)
            if hcfg is not None:
                last = max(hdata, key=lambda x: x['i'])
                okh, _ = must_pass_through(hcfg, hcfg.locate(last), None, lambda n: n['k'] == 'CXXMemberCallExpr' and method_name(n) == 'clear' and dref(n.get('obj')) in pi) if hcfg.locate(last) is not None else (False, None)
                if okh:
                    em.ok(c, unit.text(c, 40), 'the helper empties the position macro-state after harvesting it, on every path', 'reset')
                    continue
        key = (dref(hs[0]), dref(hs[1]) if dref(hs[1]) is not None else ('lit', (strip(hs[1]) or {}).get('v')))

        def same_slot(n, key=key):
            s = is_sub(n.get('obj')) if n['k'] == 'CXXMemberCallExpr' else None
            return bool(s) and (dref(s[0]), dref(s[1]) if dref(s[1]) is not None else ('lit', (strip(s[1]) or {}).get('v'))) == key
        pos = cfg.locate(c)
        if pos is None:
            continue
        # several data() calls in one statement (begin/end): take the last located one only
        later = [x for x in ac_all if method_name(x) == 'data' and x is not c and same_slot(x) and enclosing(x, ('DeclStmt', 'BinaryOperator', 'CXXOperatorCallExpr', 'ExprWithCleanups')) is enclosing(c, ('DeclStmt', 'BinaryOperator', 'CXXOperatorCallExpr', 'ExprWithCleanups')) and x['i'] > c['i']]
        if later:
            continue
        ok, w = must_pass_through(cfg, pos, lambda n: n['k'] == 'CXXMemberCallExpr' and 'Antichain1C' in (n.get('q') or '') and method_name(n) in ('insert', 'contains') and is_sub(n.get('obj')) and dref(is_sub(n.get('obj'))[0]) == key[0],
                                  lambda n: n['k'] == 'CXXMemberCallExpr' and method_name(n) == 'clear' and same_slot(n))
        txt = unit.text(c, 40)
        if ok:
            em.ok(c, txt, 'the position macro-state is cleared after it was harvested, before it is filled again', 'reset')
        else:
            em.violation(c, txt, 'after this harvest the position macro-state can be filled again (line %d) without having been cleared: the states of the previous choice function stay in it and the next '
                         'macro-state is too big (the complement rejects trees it must accept)' % (unit.loc(w)[1] if w else 0), 'reset')

    # ---- enqueue: every macro-state that enters the cache is put on the worklist
    todo = None
    if work_loop is not None and is_node(work_loop.get('c')):
        for x in walk(work_loop['c']):
            if x['k'] == 'CXXMemberCallExpr' and method_name(x) in ('size', 'empty') and dref(x.get('obj')) in vt:
                todo = dref(x.get('obj'))
    if todo is not None and cfg is not None:
        enq = [c for c in fn.calls() if c['k'] == 'CXXMemberCallExpr' and method_name(c) in ('insert', 'push_back', 'push', 'emplace', 'push_front') and dref(c.get('obj')) == todo]
        deq = [c for c in fn.calls() if c['k'] == 'CXXMemberCallExpr' and method_name(c) in ('erase', 'pop_back', 'pop', 'pop_front') and dref(c.get('obj')) == todo]
        for ci in cache_ins:
            ccfg, lam = cfg_for(fn, ci)
            pos = ccfg.locate(ci) if ccfg is not None else None
            if pos is None:
                continue
            # variables holding the result of this insert
            holders = {d for d, v in vt.items() if v['kind'] == 'local' and any(any(y is ci for y in walk(s_)) for s_ in local_sources(fn, d))}

            def pick(cond, holders=holders):
                # on `if (p.second)` only the branch in which this insert created the entry matters
                c0 = strip(cond)
                neg = False
                while c0 is not None and c0['k'] == 'UnaryOperator' and c0.get('op') == '!':
                    neg = not neg
                    c0 = strip(c0['ch'][0])
                if c0 is not None and c0['k'] == 'MemberExpr' and c0.get('n') == 'second' and dref((c0.get('ch') or [None])[0]) in holders:
                    return not neg
                return None
            if lam is not None:
                # inside a helper lambda: it must enqueue what it created before it returns
                ok, w = must_pass_through(ccfg, pos, None, lambda n: any(n is x for x in enq), edge_filter=pick)
            else:
                ok, w = must_pass_through(ccfg, pos, lambda n: any(n is x for x in cache_ins if x is not ci) or any(n is x for x in deq), lambda n: any(n is x for x in enq), edge_filter=pick)
            txt = unit.text(ci, 60)
            if ok:
                em.ok(ci, txt, 'a macro-state created here is put on the worklist before the next one is created or dequeued', 'enqueue')
            else:
                em.violation(ci, txt, 'a macro-state that this insert creates can reach line %d without having been put on the worklist `%s`: it is never expanded, gets no rules, and every rule pointing to it is '
                             'trimmed away (the complement rejects trees it must accept)' % (unit.loc(w)[1] if w else unit.loc(ci)[1], vt[todo]['decl'].get('n')), 'enqueue')

    # ---- symkind
    for n in walk(sym_loop):
        s = is_sub(n)
        if s and dref(s[0]) in rank_vecs:
            m = member_of(fn, s[1], sv)
            if m == 'second':
                em.ok(n, unit.text(n, 40), 'rank looked up with the dense index of the symbol', 'symkind')
            elif m == 'first':
                em.violation(n, unit.text(n, 40), 'the rank vector is indexed by the dense position of a symbol (`.second` of the symbol map entry); `.first` is the symbol itself', 'symkind')
    for c in adds:
        args = c.get('args') or []
        if len(args) < 3:
            continue
        m = member_of(fn, args[1], sv)
        txt = unit.text(c, 70)
        if m == 'first':
            em.ok(c, txt + ' [symbol]', 'the rule is emitted under the symbol itself', 'symkind')
        elif m == 'second':
            em.violation(c, txt + ' [symbol]', 'the rule is emitted under the dense index of the symbol (`.second`), not the symbol (`.first`): the complement is over other symbols than the alphabet\'s', 'symkind')
        else:
            em.unknown(c, txt + ' [symbol]', 'symbol argument not resolved')
        par = resolve(fn, args[2])
        pv = None
        if par is not None and par['k'] == 'MemberExpr' and par.get('n') == 'second':
            pv = dref((par.get('ch') or [None])[0])
        deq = False
        if pv is not None and pv in vt:
            todo_src, seen_d = [pv], set()
            while todo_src and len(seen_d) < 8:
                dd = todo_src.pop()
                if dd in seen_d:
                    continue
                seen_d.add(dd)
                for s_ in local_sources(fn, dd):
                    if any(x['k'] == 'CXXMemberCallExpr' and method_name(x) in ('begin', 'front', 'back', 'top') for x in walk(s_)):
                        deq = True
                    todo_src.extend(x.get('d') for x in walk(s_) if x['k'] == 'DeclRefExpr' and x.get('dk') == 'local')
            if vt[pv]['kind'] == 'local' and work_loop is not None and inside(vt[pv]['node'], work_loop) and not inside(vt[pv]['node'], sym_loop) and deq:
                em.ok(c, txt + ' [parent]', 'the parent of the rule is the number of the dequeued macro-state', 'symkind')
            elif inside(vt[pv]['node'] or sym_loop, sym_loop):
                em.violation(c, txt + ' [parent]', 'the parent of the rule is the number of `%s`, an entry created inside the symbol loop — it must be the number of the macro-state that was dequeued' % vt[pv]['decl'].get('n'), 'symkind')
            else:
                em.unknown(c, txt + ' [parent]', 'parent argument not resolved')
        else:
            em.unknown(c, txt + ' [parent]', 'parent argument not resolved')


# ---------------------------------------------------------------------------------------------------- ChoiceFunction::next

def odometer(unit, fn, em):
    loops = [n for n in fn.walk() if n['k'] in ('WhileStmt', 'DoStmt', 'ForStmt')]
    rets = [n for n in fn.walk() if n['k'] == 'ReturnStmt']
    if not loops or len(rets) < 2:
        em.unknown(fn, 'ChoiceFunction::next', 'odometer shape not recognised')
        return
    L = loops[0]
    c = strip(L.get('c'))
    txt = 'carry condition ' + unit.text(c, 40)
    ok = False
    if c is not None and c['k'] == 'BinaryOperator' and c.get('op') in ('==', '>='):
        l, r = strip(c['ch'][0]), strip(c['ch'][1])
        inc = l is not None and l['k'] == 'UnaryOperator' and l.get('op') == '++' and l.get('prefix', True) is not False and is_sub(l['ch'][0]) is not None
        ar = r is not None and r['k'] == 'MemberExpr' and 'arity' in (r.get('n') or '')
        ok = inc and ar
        if inc and l.get('postfix'):
            ok = False
    if ok:
        em.ok(L, txt, 'a counter is advanced and carries exactly when it reaches the arity', 'choice')
    else:
        em.violation(L, txt, 'the odometer must pre-increment the current counter and carry exactly when it reaches `arity_`; otherwise choice functions are skipped (their rules are missing from the complement) '
                     'or a position >= the rank is chosen', 'choice')
    # the false return: only when the index reached the number of counters
    for r in rets:
        v = strip((r.get('ch') or [None])[0])
        if v is None or v['k'] != 'CXXBoolLiteralExpr':
            continue
        if v.get('v') in (False, 0, 'false'):
            facts, _ = known_facts(r)
            good = False
            for pol, a in facts:
                a = strip(a)
                if a is not None and a['k'] == 'BinaryOperator' and a.get('op') in ('==', '>=') and pol:
                    l, rr = strip(a['ch'][0]), strip(a['ch'][1])
                    if rr is not None and rr['k'] == 'CXXMemberCallExpr' and method_name(rr) == 'size' and l is not None and l['k'] == 'DeclRefExpr':
                        good = True
            if good:
                em.ok(r, 'return false', 'the enumeration ends only when the carry runs past the last counter', 'choice')
            else:
                em.violation(r, 'return false', 'the enumeration must end only when the carry index equals the number of counters (`index == data_.size()`); any other bound drops the choice functions '
                             'that differ in the last counter(s)', 'choice')
    resets = [a for a in walk(L) if a['k'] == 'BinaryOperator' and a.get('op') == '=' and is_sub(a['ch'][0]) and (strip(a['ch'][1]) or {}).get('v') == 0]
    if resets:
        em.ok(resets[0], unit.text(resets[0], 30), 'a counter that carried restarts at 0', 'choice')
    else:
        em.violation(L, 'carry without reset', 'a counter that reached the arity is not set back to 0', 'choice')


# ---------------------------------------------------------------------------------------------------- topDownIndex

def topdown_index(unit, fn, em):
    loops = [n for n in fn.walk() if n['k'] == 'CXXForRangeStmt']
    if len(loops) < 2 or len(fn.params) < 3:
        em.unknown(fn, 'topDownIndex', 'loop nest not recognised')
        return
    outer, inner = loops[0], loops[1]
    idx_param = fn.params[0]['d']
    sym_param = fn.params[1]['d']
    ov, iv = outer['var']['d'], inner['var']['d']
    found = 0
    for n in fn.walk():
        s = is_sub(n)
        if not s:
            continue
        if dref(s[0]) == idx_param:
            m = member_of(fn, s[1], ov)
            if m == 'first':
                em.ok(n, unit.text(n, 50), 'rules are filed under their parent state', 'index')
                found += 1
            elif m is not None or member_of(fn, s[1], iv):
                em.violation(n, unit.text(n, 50), 'the first level of the index must be the parent state of the rules (`.first` of the state/cluster entry)', 'index')
        elif dref(s[0]) is not None and dref(s[0]) != sym_param and inside(n, inner) and not inside(n, loops[2] if len(loops) > 2 else {'_p': None}):
            base = resolve(fn, s[0])
            bs = is_sub(base) if base is not None else None
            v = var_table(fn).get(dref(s[0]))
            if v is None or not any(dref(is_sub(x)[0]) == idx_param for src_ in local_sources(fn, dref(s[0])) for x in walk(src_) if is_sub(x)):
                continue
            k = resolve(fn, s[1])
            via = k is not None and k['k'] in ('CXXOperatorCallExpr', 'CXXMemberCallExpr', 'CallExpr') and any(dref(x) == sym_param for x in walk(k)) and any(
                x['k'] == 'MemberExpr' and x.get('n') == 'first' and dref((x.get('ch') or [None])[0]) == iv for x in walk(k))
            if via:
                em.ok(n, unit.text(n, 50), 'second level: the dense index the symbol translator gives the rule\'s symbol', 'index')
                found += 1
            elif member_of(fn, s[1], iv) == 'first':
                em.violation(n, unit.text(n, 50), 'the second level of the index is subscripted with the symbol itself; the complementation looks rules up by the dense index of the symbol map', 'index')
    if not found:
        em.unknown(fn, 'topDownIndex', 'index subscripts not recognised')


# ---------------------------------------------------------------------------------------------------- wrapper

def wrapper(unit, fn, em):
    calls = [c for c in fn.calls() if (c.get('q') or '').endswith('ExplicitDownwardComplementation::Compute')]
    if not calls:
        em.violation(fn, 'ComplementWithPreorder', 'does not call ExplicitDownwardComplementation::Compute', 'wrap')
        return
    c = calls[0]
    args = c.get('args') or []
    txt = unit.text(c, 80)
    if len(args) < 4:
        em.unknown(c, txt, 'arguments not recognised')
        return
    a1 = strip(args[1])
    is_this = a1 is not None and a1['k'] == 'UnaryOperator' and a1.get('op') == '*' and (strip(a1['ch'][0]) or {}).get('k') == 'CXXThisExpr'
    if is_this:
        em.ok(c, txt + ' [src]', 'the automaton complemented is *this', 'wrap')
    else:
        em.violation(c, txt + ' [src]', 'the second argument (the automaton to complement) is not *this', 'wrap')
    a2 = args[2]
    from_this = any(x['k'] == 'CXXThisExpr' for x in walk(a2)) or any(x['k'] == 'MemberExpr' and x.get('n') == 'alphabet_' for x in walk(a2))
    d0 = dref(args[0])
    if from_this and not (d0 is not None and d0 in origins(fn, a2)):
        em.ok(c, txt + ' [alphabet]', 'the alphabet is this automaton\'s', 'wrap')
    else:
        em.violation(c, txt + ' [alphabet]', 'the alphabet the complement is taken over must be the one of the complemented automaton', 'wrap')
    rets = [r for r in fn.walk() if r['k'] == 'ReturnStmt']
    for r in rets:
        if d0 is not None and any(dref(x) == d0 for x in walk(r) if x['k'] == 'DeclRefExpr'):
            em.ok(r, unit.text(r, 50), 'returns the automaton Compute filled', 'wrap')
        else:
            em.violation(r, unit.text(r, 50), 'does not return the automaton Compute filled', 'wrap')
