"""SIBLING — the two recursive downward inclusion functors keep the same per-level state (C01, C07, C19).

DownwardInclusionFunctor and OptDownwardInclusionFunctor are sibling implementations of one
interface (registered pair). A functor object is one recursion level; the constructor taking another
functor creates the next level. Instance: every data member both classes declare under the same name.
Obligation: the member is held the same way in both (by value vs. by reference), and the level-creating
constructor initialises it the same way in both (fresh `()` vs. taken over from the parent level).
A cache of facts proven under the current level's assumptions that becomes shared across levels in one
sibling only keeps facts alive after the assumption they rest on was refuted."""
from vfacts import strip, walk, is_node

RULE = 'SIBLING'
FLOOR = 6
PAIRS = [('VATA::DownwardInclusionFunctor', 'VATA::OptDownwardInclusionFunctor')]
ANCHORS = ['DownwardInclusionFunctor', 'OptDownwardInclusionFunctor']


def level_ctor(unit, cls):
    for fn in unit.functions:
        if fn.d.get('fk') == 'ctor' and fn.cls == cls and len(fn.params) == 1 and cls.split('::')[-1] in unit.tname(fn.params[0]['t']):
            return fn
    return None


def init_form(unit, ctor, field):
    for i in ctor.d.get('inits', []):
        if i.get('n') == field and is_node(i.get('init')):
            s = strip(i['init'])
            src = ctor.params[0]['d']
            if any(x['k'] == 'DeclRefExpr' and x.get('d') == src for x in walk(i['init'])):
                return 'from-parent'
            if s is not None and s['k'] == 'CXXConstructExpr' and not s.get('args'):
                return 'fresh'
            return 'other'
    return 'implicit'


def run(unit, em):
    recs = {}
    for r in unit.records:
        recs.setdefault(r['q'], []).append(r)
    for a, b in PAIRS:
        if a not in recs or b not in recs:
            continue
        # pair instantiations with the same template arguments (same suffix after the class name)
        for ra in recs[a]:
            targs = ra['rct'][len(a):]
            rb = next((x for x in recs[b] if x['rct'][len(b):] == targs), None)
            if rb is None:
                continue
            ca, cb = level_ctor(unit, a), level_ctor(unit, b)
            fa = {f['n']: f for f in ra['fields']}
            fb = {f['n']: f for f in rb['fields']}
            fn_any = ca or cb
            if fn_any is None:
                continue
            em.anchor(fn_any, a.split('::')[-1])
            em.anchor(fn_any, b.split('::')[-1])
            for name in sorted(set(fa) & set(fb)):
                ta, tb = unit.tname(fa[name]['t']), unit.tname(fb[name]['t'])
                refa, refb = ta.rstrip().endswith('&'), tb.rstrip().endswith('&')
                where = ca if ca is not None else fn_any
                cname = 'member %s' % name
                if refa != refb:
                    em.violation(where, cname, '%s holds %s %s but %s holds it %s: per-level state in one sibling is shared across recursion levels in the other' % (
                        a.split('::')[-1], name, 'by reference' if refa else 'by value', b.split('::')[-1], 'by reference' if refb else 'by value'), 'held')
                    continue
                if ca is not None and cb is not None:
                    ia, ib = init_form(unit, ca, name), init_form(unit, cb, name)
                    if ia != ib:
                        em.violation(where, cname, 'the level-creating constructor initialises %s `%s` in %s but `%s` in %s' % (name, ia, a.split('::')[-1], ib, b.split('::')[-1]), 'init')
                        continue
                    em.ok(where, cname, 'held %s, next level: %s, in both siblings' % ('by reference' if refa else 'by value', ia), 'agree')
                else:
                    em.ok(where, cname, 'held %s in both siblings' % ('by reference' if refa else 'by value'), 'agree')
            break
