"""SIBLING — the two recursive downward inclusion functors keep the same per-level state (C01, C07, C19).

DownwardInclusionFunctor and OptDownwardInclusionFunctor are sibling implementations of one
interface (registered pair). A functor object is one recursion level; the constructor taking another
functor creates the next level. Instance: every data member both classes declare under the same name.
Obligation: the member is held the same way in both (by value vs. by reference), and the level-creating
constructor initialises it the same way in both (fresh `()` vs. taken over from the parent level).
A cache of facts proven under the current level's assumptions that becomes shared across levels in one
sibling only keeps facts alive after the assumption they rest on was refuted."""
import re
from vfacts import strip, walk, is_node, method_name

RULE = 'SIBLING'
FLOOR = 6
PAIRS = [('VATA::DownwardInclusionFunctor', 'VATA::OptDownwardInclusionFunctor')]
ANCHORS = ['DownwardInclusionFunctor', 'OptDownwardInclusionFunctor']


def level_ctor(unit, cls):
    for fn in unit.functions:
        if fn.d.get('fk') == 'ctor' and fn.cls == cls and len(fn.params) == 1 and cls.split('::')[-1] in unit.tname(fn.params[0]['t']):
            return fn
    return None


def init_form(unit, ctor, field):
    for i in ctor.d.get('inits', []):
        if i.get('n') == field and is_node(i.get('init')):
            s = strip(i['init'])
            src = ctor.params[0]['d']
            if any(x['k'] == 'DeclRefExpr' and x.get('d') == src for x in walk(i['init'])):
                return 'from-parent'
            if s is not None and s['k'] == 'CXXConstructExpr' and not s.get('args'):
                return 'fresh'
            return 'other'
    return 'implicit'


# methods confirmed (by reading) to be the same query in both siblings: their calls must agree argument by argument
AGREE = ('expand', 'isInWorkset', 'isImpliedByChildren', 'isNoninclusionImplied', 'IsImpliedByPreorder', 'processFoundNoninclusion',
         'processFoundInclusion')


def call_shapes(unit, fn):
    """order-insensitive list of (callee, receiver member, argument shapes) — shapes name parameters by position,
    loop variables as 'elem', and keep member paths (first/second, field names)"""
    from vfacts import root_path
    from .prov import var_table
    pidx = {p_['d']: i for i, p_ in enumerate(fn.params)}
    vt = var_table(fn)

    def shape(e, depth=0):
        e = strip(e)
        if e is None or depth > 6:
            return '?'
        k = e['k']
        if k == 'DeclRefExpr':
            if e.get('d') in pidx:
                return 'p%d' % pidx[e['d']]
            v = vt.get(e.get('d'))
            if v and v['kind'] == 'rangevar':
                return 'elem'
            return 'v'
        if k == 'MemberExpr':
            ch = e.get('ch') or []
            b = strip(ch[0]) if ch else None
            if b is not None and b['k'] == 'CXXThisExpr':
                return 'this.' + e['n']
            return shape(ch[0], depth + 1) + '.' + e['n'] if ch else e['n']
        if k in ('CXXMemberCallExpr',):
            return shape(e.get('obj'), depth + 1) + '.' + (method_name(e) or '?') + '()'
        if k == 'CXXOperatorCallExpr':
            return 'op' + e.get('op', '') + '(' + ','.join(shape(a, depth + 1) for a in e.get('args', [])) + ')'
        if k == 'UnaryOperator':
            return e.get('op', '') + shape(e['ch'][0], depth + 1)
        return k
    _shape = shape

    def shape(e, depth=0):
        # how an element of a container is reached (range variable, iterator, copy in a local) is not part of the
        # comparison: anything not rooted in a parameter or in this object is 'elem' plus the member finally read
        r = _shape(e, depth)
        if re.match(r'(p\d+|this|[A-Z]\w*$|\?)', r):
            return r
        m = re.search(r'\.(\w+)$', r)
        return 'elem.' + m.group(1) if m else 'elem'
    out = []
    for c in fn.calls():
        if c['k'] == 'CXXMemberCallExpr':
            out.append((method_name(c), shape(c.get('obj')), tuple(shape(a) for a in c.get('args', []))))
        elif c['k'] == 'CXXOperatorCallExpr' and c.get('op') == '()':
            args = c.get('args', [])
            out.append(('()', shape(args[0]) if args else '?', tuple(shape(a) for a in args[1:])))
    return sorted(out)


def run(unit, em):
    recs = {}
    for r in unit.records:
        recs.setdefault(r['q'], []).append(r)
    for a, b in PAIRS:
        if a not in recs or b not in recs:
            continue
        # pair instantiations with the same template arguments (same suffix after the class name)
        for ra in recs[a]:
            targs = ra['rct'][len(a):]
            rb = next((x for x in recs[b] if x['rct'][len(b):] == targs), None)
            if rb is None:
                continue
            ca, cb = level_ctor(unit, a), level_ctor(unit, b)
            fa = {f['n']: f for f in ra['fields']}
            fb = {f['n']: f for f in rb['fields']}
            fn_any = ca or cb
            if fn_any is None:
                continue
            em.anchor(fn_any, a.split('::')[-1])
            em.anchor(fn_any, b.split('::')[-1])
            # same-named query methods agree call by call
            for mname in AGREE:
                ma = [f for f in unit.functions if f.cls == a and f.q.rsplit('::', 1)[-1] == mname and f.d.get('rc') == ra['rc'] and f.body is not None]
                mb = [f for f in unit.functions if f.cls == b and f.q.rsplit('::', 1)[-1] == mname and f.d.get('rc') == rb['rc'] and f.body is not None]
                if not ma or not mb:
                    continue
                sa, sb = call_shapes(unit, ma[0]), call_shapes(unit, mb[0])
                # the optimised sibling may make extra calls (it also returns the matching element); every call both make must agree
                ka = {(c_[0], c_[1]): c_[2] for c_ in sa}
                kb = {(c_[0], c_[1]): c_[2] for c_ in sb}
                diff = [(k_, ka[k_], kb[k_]) for k_ in ka if k_ in kb and ka[k_] != kb[k_]]
                # own-object calls of methods that BOTH classes have: made by one sibling, they are made by the other too
                both_have = {m['n'] for m in ra.get('methods', [])} & {m['n'] for m in rb.get('methods', [])}
                oa = {c_[0] for c_ in sa if c_[1] in ('CXXThisExpr', 'this') or c_[1].startswith('this') or c_[1] == '?'} & both_have
                ob = {c_[0] for c_ in sb if c_[1] in ('CXXThisExpr', 'this') or c_[1].startswith('this') or c_[1] == '?'} & both_have
                only = [(m_, a.split('::')[-1], b.split('::')[-1]) for m_ in sorted(oa - ob)] + [(m_, b.split('::')[-1], a.split('::')[-1]) for m_ in sorted(ob - oa)]
                only = [o_ for o_ in only if o_[0].startswith(('processFound', 'isImplied', 'isIn', 'isNon', 'IsImplied'))]
                if only and not diff:
                    m_, has, lacks = only[0]
                    em.violation(mb[0] if lacks == b.split('::')[-1] else ma[0], 'method %s' % mname, '%s::%s calls its own %s(), %s::%s does not although it has that method too: the two implementations of one step record/consult different things (e.g. a result proved under a work-set hypothesis goes to the global cache instead of the per-level one)' % (
                        has, mname, m_, lacks, mname), 'calls')
                    continue
                if diff:
                    k_, x, y = diff[0]
                    em.violation(ma[0], 'method %s' % mname, 'the sibling functors disagree on the arguments of %s on %s: %s passes (%s), %s passes (%s)' % (
                        k_[0], k_[1], a.split('::')[-1], ', '.join(x), b.split('::')[-1], ', '.join(y)), 'calls')
                else:
                    em.ok(ma[0], 'method %s' % mname, '%d common calls agree argument by argument' % len([k_ for k_ in ka if k_ in kb]), 'calls')
            for name in sorted(set(fa) & set(fb)):
                ta, tb = unit.tname(fa[name]['t']), unit.tname(fb[name]['t'])
                refa, refb = ta.rstrip().endswith('&'), tb.rstrip().endswith('&')
                where = ca if ca is not None else fn_any
                cname = 'member %s' % name
                if refa != refb:
                    em.violation(where, cname, '%s holds %s %s but %s holds it %s: per-level state in one sibling is shared across recursion levels in the other' % (
                        a.split('::')[-1], name, 'by reference' if refa else 'by value', b.split('::')[-1], 'by reference' if refb else 'by value'), 'held')
                    continue
                if ca is not None and cb is not None:
                    ia, ib = init_form(unit, ca, name), init_form(unit, cb, name)
                    if ia != ib:
                        em.violation(where, cname, 'the level-creating constructor initialises %s `%s` in %s but `%s` in %s' % (name, ia, a.split('::')[-1], ib, b.split('::')[-1]), 'init')
                        continue
                    em.ok(where, cname, 'held %s, next level: %s, in both siblings' % ('by reference' if refa else 'by value', ia), 'agree')
                else:
                    em.ok(where, cname, 'held %s in both siblings' % ('by reference' if refa else 'by value'), 'agree')
            break
