"""ALPHASRC — the alphabet an operation enumerates or hands on is an operand's, never the process-wide default (C11).

C11: "The outcome of an operation depends only on its operands and parameters, not on which other
automata were created, modified or destroyed earlier in the same process."  A default-constructed
automaton is bound to the static `globalAlphabet_`, which grows with every automaton ever loaded.
Reading `x.GetAlphabet()` of such a fresh local therefore reads process history.

Two clauses.
  result  every local automaton that an operation of an automaton core returns (directly or through a
          further operation on it) is constructed carrying an operand's alphabet: copy-constructed from an
          operand, given the alphabet as constructor argument, or `SetAlphabet(..)` is called on it.  A
          constructor call whose alphabet parameter is *defaulted* binds the result to the process-wide
          alphabet: dumping it then prints whatever symbols other automata registered (finding F14).
  src     (below)
Instance (src): every `GetAlphabet()` call in the library sources.  Obligation: its object is `this`, a
parameter (or reached from one), a field, or a local on which `SetAlphabet(..)` was called or which was
constructed as a copy of / from an operand (constructor with at least one automaton-typed or alphabet
argument)."""
import re
from vfacts import strip, walk, is_node, method_name, root_path
from .prov import var_table

RULE = 'ALPHASRC'
FLOOR = 14
ANCHORS = ['ExplicitTreeAutCore::ComplementWithPreorder']
AUT = re.compile(r'(Explicit(Tree|Finite)Aut(Core)?|BDD(BU|TD)TreeAutCore|BDD(BottomUp|TopDown)TreeAut)\b')


def base_type(t):
    return t.replace('const ', '').replace('&', '').replace('VATA::', '').strip()


def check_results(unit, fn, em, short):
    rt = base_type(unit.tname(fn.d.get('ret')))
    if not AUT.match(rt) or not fn.d.get('cls'):
        return
    vt = var_table(fn)
    rets = [n for n in fn.walk(lambdas=False) if n['k'] == 'ReturnStmt']
    returned = set()
    for r in rets:
        for n in walk(r):
            if n['k'] == 'DeclRefExpr' and n.get('d') in vt and vt[n['d']]['kind'] == 'local':
                returned.add(n['d'])
    for d in sorted(returned):
        v = vt[d]
        t = unit.ty(v['decl'])
        if base_type(t) != rt or t.rstrip().endswith('&'):
            continue
        init = strip(v['decl'].get('init')) if is_node(v['decl'].get('init')) else None
        if init is None or init['k'] not in ('CXXConstructExpr', 'CXXTemporaryObjectExpr'):
            continue
        args = init.get('args') or []
        defaulted = [a for a in args if is_node(a) and a['k'] == 'CXXDefaultArgExpr' and 'Alphabet' in unit.ty(a)]
        if not defaulted:
            if any(is_node(a) and a['k'] != 'CXXDefaultArgExpr' and (AUT.search(unit.ty(strip(a) or a)) or 'Alphabet' in unit.ty(strip(a) or a)) for a in args):
                em.ok(v['node'], unit.text(v['node'], 60), 'result constructed from an operand / with an explicit alphabet', 'result')
            continue
        setalpha = any(m['k'] == 'CXXMemberCallExpr' and method_name(m) == 'SetAlphabet' and (strip(m.get('obj')) or {}).get('d') == d
                       and not any(x['k'] == 'DeclRefExpr' and x.get('d') == d for a in m.get('args') or [] for x in walk(a))
                       for m in fn.walk())
        if setalpha:
            em.ok(v['node'], unit.text(v['node'], 60), 'result is given an alphabet with SetAlphabet', 'result')
        else:
            em.violation(v['node'], unit.text(v['node'], 60), 'the returned automaton `%s` is constructed with the defaulted (process-wide) alphabet and never given the operand\'s: '
                         'for an operand over its own alphabet the result prints symbols registered by unrelated automata' % (v['decl'].get('n') or '?'), 'result')


def run(unit, em):
    for fn in unit.functions:
        if fn.body is None:
            continue
        short = fn.q.replace('VATA::', '')
        anchored = False
        vt = None
        if '/src/explicit_' in fn.file or fn.file.startswith('src/explicit_'):
            check_results(unit, fn, em, short)
        for c in fn.walk():
            if c['k'] != 'CXXMemberCallExpr' or method_name(c) != 'GetAlphabet' or c.get('args'):
                continue
            if not (c.get('q') or '').startswith('VATA::'):
                continue
            if any(short.startswith(a) for a in ANCHORS) and not anchored:
                em.anchor(fn, ANCHORS[0])
                anchored = True
            o = strip(c.get('obj'))
            txt = unit.text(c, 60)
            if o is None or o['k'] == 'CXXThisExpr':
                em.ok(c, txt, "the operand's own alphabet", 'src')
                continue
            if o['k'] != 'DeclRefExpr':
                em.ok(c, txt, 'alphabet of an object reached through an expression (field / dereference)', 'src')
                continue
            vt = vt or var_table(fn)
            v = vt.get(o.get('d'))
            if v is None or v['kind'] != 'local':
                em.ok(c, txt, 'alphabet of a parameter / loop element', 'src')
                continue
            t = unit.ty(v['decl'])
            if t.rstrip().endswith('&') or t.rstrip().endswith('*'):
                em.ok(c, txt, 'alphabet through a reference', 'src')
                continue
            init = strip(v['decl'].get('init')) if is_node(v['decl'].get('init')) else None
            from_operand = False
            if init is not None:
                args = init.get('args') if init['k'] in ('CXXConstructExpr', 'CXXTemporaryObjectExpr') else [init]
                for a in args or []:
                    if is_node(a) and a['k'] == 'CXXDefaultArgExpr':
                        continue        # defaulted: the process-wide tuple cache / alphabet
                    ta = unit.ty(strip(a) or a)
                    if AUT.search(ta) or 'Alphabet' in ta or 'shared_ptr' in ta:
                        from_operand = True
            setalpha = any(m['k'] == 'CXXMemberCallExpr' and method_name(m) == 'SetAlphabet' and (strip(m.get('obj')) or {}).get('d') == o['d']
                           and not any(x['k'] == 'DeclRefExpr' and x.get('d') == o['d'] for a in m.get('args') or [] for x in walk(a))
                           for m in fn.walk())
            if from_operand or setalpha:
                em.ok(c, txt, 'local built from an operand / given an alphabet', 'src')
            else:
                em.violation(c, txt, '`%s` is a freshly default-constructed local: its alphabet is the process-wide default that grows with every automaton loaded, so the operation depends on process history instead of its operand' % (v['decl'].get('n') or '?'), 'src')
