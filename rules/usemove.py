"""USEMOVE — a local is not read after it was moved from (C03, C08, C20).

Instance: every `std::move(x)` of a local/parameter object x whose result is consumed by a move
constructor / move assignment. Obligation: no CFG path from the move reaches a later read of x (member
call, iteration, pass as argument) without x having been re-assigned or cleared first. A moved-from
standard container is empty, so e.g. a loop over it that was meant to mark final states does nothing.
Moves of `*this` bases / of members in move constructors (one member per initialiser) are not
instances.  Clause `swapout`: a local that is swapped into an output parameter (`out->swap(local)`,
`std::swap(*out, local)`) has been handed to the caller; reading it afterwards reads what the caller passed in
(seed C08-6)."""
from vfacts import strip, walk, method_name, must_pass_through, is_node
from .prov import var_table

RULE = 'USEMOVE'
FLOOR = 4
WITNESS = 'src/usemove.cc'
RESETS = {'clear', 'assign', 'reset', 'operator=', 'swap'}


def run(unit, em):
    for fn in unit.functions:
        f = fn.file
        if fn.body is None or not ('/src/' in f or '/include/' in f or '/cli/' in f):
            continue
        cfg = fn.cfg()
        if cfg is None:
            continue
        for c in fn.calls():
            if c['k'] != 'CallExpr' or c.get('q') != 'std::move' or len(c.get('args', [])) != 1:
                continue
            a = strip(c['args'][0])
            if a is None or a['k'] != 'DeclRefExpr' or a.get('dk') not in ('local', 'param'):
                continue
            v = var_table(fn).get(a['d'])
            if v is None or v['decl'].get('scalar') or v['decl'].get('ref') == 'c':
                continue
            d = a['d']
            # a move that only feeds a base-class constructor / assignment moves the base sub-object
            par = c.get('_p')
            while par is not None and par['k'] in ('ImplicitCastExpr', 'MaterializeTemporaryExpr', 'ParenExpr'):
                par = par.get('_p')
            vt = unit.tname(v['decl']['t']).replace('const ', '').replace('&', '').strip()
            if par is not None and par['k'] in ('CXXMemberCallExpr', 'CXXOperatorCallExpr', 'CXXConstructExpr'):
                tgt = par.get('q') or ''
                tcls = tgt.rsplit('::', 1)[0] if par['k'] != 'CXXConstructExpr' else tgt
                if tcls and tcls.split('::')[-1] not in vt:
                    em.ok(c, unit.text(c, 50), 'base sub-object move (%s)' % tcls.split('::')[-1])
                    continue
            pos = cfg.locate(c)
            if pos is None:
                continue

            def is_reset(x):
                if x['k'] == 'DeclStmt' and any(dd['d'] == d for dd in x.get('decls', [])):
                    return True  # the variable is declared anew (next loop iteration)
                if x['k'] == 'CXXMemberCallExpr' and method_name(x) in RESETS and (strip(x.get('obj')) or {}).get('d') == d:
                    return True
                if x['k'] == 'CXXOperatorCallExpr' and x.get('op') == '=' and x.get('args') and (strip(x['args'][0]) or {}).get('d') == d:
                    return True
                if x['k'] == 'BinaryOperator' and x.get('op') == '=' and (strip(x['ch'][0]) or {}).get('d') == d:
                    return True
                return False

            def is_use(x):
                if x['k'] != 'DeclRefExpr' or x.get('d') != d or x is a:
                    return False
                # the use must not itself be (inside) a reset or the same move
                p = x.get('_p')
                while p is not None and p['k'] in ('ImplicitCastExpr', 'ParenExpr', 'MemberExpr'):
                    p = p.get('_p')
                if p is not None and is_reset(p):
                    return False
                if p is c:
                    return False
                return True
            ok, wit = must_pass_through(cfg, pos, is_use, is_reset)
            txt = unit.text(c, 50)
            if ok:
                em.ok(c, txt, 'not read again before being re-assigned')
            else:
                _, line, _ = unit.loc(wit)
                em.violation(c, txt, '%s is read again at line %d (%s) after it was moved from: a moved-from container is empty' % (a['n'], line, unit.text(wit.get('_p') or wit, 50)))
        # ---- swap-out: a local handed to the caller by swapping it into an output parameter is not read afterwards
        params = {p['d'] for p in fn.params}
        for c in fn.calls():
            L = P = None
            if c['k'] == 'CXXMemberCallExpr' and method_name(c) == 'swap' and len(c.get('args', [])) == 1:
                o, a0 = strip(c.get('obj')), strip(c['args'][0])
                cand = [(o, a0), (a0, o)]
            elif c['k'] == 'CallExpr' and (c.get('q') or '').endswith('swap') and len(c.get('args', [])) == 2:
                a0, a1 = strip(c['args'][0]), strip(c['args'][1])
                cand = [(a0, a1), (a1, a0)]
            else:
                continue
            for outp, loc in cand:
                if outp is None or loc is None:
                    continue
                base = outp
                while base is not None and base['k'] == 'UnaryOperator' and base.get('op') == '*':
                    base = strip(base['ch'][0])
                if base is not None and base['k'] == 'DeclRefExpr' and base.get('d') in params and loc['k'] == 'DeclRefExpr' and loc.get('dk') == 'local':
                    v = var_table(fn).get(loc['d'])
                    if v is not None and v['kind'] == 'local' and not unit.ty(v['decl']).rstrip().endswith(('&', '*')):
                        L, P = loc, base
            if L is None:
                continue
            d = L['d']
            pos = cfg.locate(c)
            if pos is None:
                continue

            def is_reset2(x, d=d):
                if x['k'] == 'DeclStmt' and any(dd['d'] == d for dd in x.get('decls', [])):
                    return True
                if x['k'] == 'CXXMemberCallExpr' and method_name(x) in ('clear', 'assign') and (strip(x.get('obj')) or {}).get('d') == d:
                    return True
                if x['k'] in ('CXXOperatorCallExpr', 'BinaryOperator') and x.get('op') == '=':
                    ops = x.get('args') or x.get('ch')
                    if ops and (strip(ops[0]) or {}).get('d') == d:
                        return True
                return False
            inside = {id(x) for x in walk(c)}

            def is_use2(x, d=d):
                return x['k'] == 'DeclRefExpr' and x.get('d') == d and id(x) not in inside
            ok, wit = must_pass_through(cfg, pos, is_use2, is_reset2)
            txt = unit.text(c, 60)
            if ok:
                em.ok(c, txt, 'the local is not read after it was swapped out to the caller', 'swapout')
            else:
                em.violation(c, txt, '`%s` is swapped into the output parameter `%s` here and read again at line %d: from here on it holds whatever the caller passed in (normally nothing), not what was collected' % (
                    L.get('n'), P.get('n'), unit.loc(wit)[1]), 'swapout')
