"""REINDEXALL — ReindexStates registers every final / start state of the source in the destination (C10, C14, C02).

Union builds its result with `X.ReindexStates(res, t)` and UNIONCONTRIB trusts that call to carry everything.
Instance: every range-for over the final states or the start states of the source (`finalStates_`, `startStates_`,
`GetFinalStates()`, `GetStartStates()`) in a ReindexStates / CopyTransitionsFrom-style function with a destination
parameter.  Obligation: on every path through the loop body — inner range-for loops are *not* assumed to run
(a start state may have no start symbols) — a non-const call on the destination receives a value derived from the
loop variable.  Registering the state only inside a loop over something that can be empty silently drops the
states for which it is (seed C10-5: Union(Reverse(A), B) lost the start states of Reverse(A))."""
from vfacts import strip, walk, is_node, method_name, root_path, must_pass_through
from .prov import var_table, origins

RULE = 'REINDEXALL'
FLOOR = 3
ANCHORS = ['ExplicitFiniteAutCore::ReindexStates', 'ExplicitTreeAutCore::ReindexStates']
SETS = ('finalStates_', 'startStates_', 'GetFinalStates()', 'GetStartStates()')


def run(unit, em):
    for fn in unit.functions:
        if fn.body is None or fn.q.split('::')[-1] not in ('ReindexStates', 'CopyTransitionsFrom'):
            continue
        if not fn.d.get('cls'):
            continue
        dst = None
        for p in fn.params:
            if p.get('ref') == 'r' and unit.tname(p['t']).replace(' &', '').replace('&', '').strip() == unit.tname(fn.d.get('rc', -1)):
                dst = p['d']
                break
        if dst is None:
            continue
        short = fn.q.replace('VATA::', '')
        cfg = fn.cfg()
        vt = var_table(fn)
        anchored = False
        for lp in fn.walk(lambdas=False):
            if lp['k'] != 'CXXForRangeStmt':
                continue
            rp = root_path(lp.get('range'))
            if not rp or rp[-1] not in SETS or rp[0] == 'param':
                continue
            if short in ANCHORS and not anchored:
                em.anchor(fn, short)
                anchored = True
            var = lp['var']['d']
            regs = []
            for c in walk(lp['body'], lambdas=False):
                if c['k'] == 'CXXMemberCallExpr' and not c.get('const') and dst in origins(fn, c.get('obj'), stop={dst}):
                    if any(var in origins(fn, a, stop={var}) for a in c.get('args') or []):
                        regs.append(c)
            what = rp[-1].replace('()', '').replace('Get', '').replace('_', '')
            name = '%s: every element of %s reaches the destination' % (fn.q.split('::')[-1], rp[-1])
            if not regs:
                em.violation(lp, name, 'no call on the destination receives the loop variable', 'all')
                continue
            if cfg is None:
                em.unknown(lp, name, 'no CFG', 'all')
                continue
            body = lp['body']
            first = None
            for m in walk(body):
                if m is not body and cfg.locate(m) is not None:
                    first = m
                    break
            inc = lp.get('inc')
            if first is None or not is_node(inc):
                em.unknown(lp, name, 'loop shape not resolved', 'all')
                continue
            inc_ids = {id(x) for x in walk(inc)}
            reg_ids = {id(x) for c in regs for x in walk(c)}
            ok, _ = must_pass_through(cfg, cfg.locate(first), lambda n: id(n) in inc_ids, lambda n: id(n) in reg_ids, start_after=False)
            if ok:
                em.ok(lp, name, 'registered by %s on every path through the body' % unit.text(regs[0], 50), 'all')
            else:
                em.violation(lp, name, 'the registering call %s can be skipped (it sits under a condition or inside an inner loop that may not run): the states for which that happens are missing from the result' % unit.text(regs[0], 50), 'all')
