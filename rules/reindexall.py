"""REINDEXALL — ReindexStates registers every final / start state of the source in the destination (C10, C14, C02).

Union builds its result with `X.ReindexStates(res, t)` and UNIONCONTRIB trusts that call to carry everything.
Instance: every range-for over the final states or the start states of the source (`finalStates_`, `startStates_`,
`GetFinalStates()`, `GetStartStates()`) in a ReindexStates / CopyTransitionsFrom-style function with a destination
parameter.  Obligation: on every path through the loop body — inner range-for loops are *not* assumed to run
(a start state may have no start symbols) — a non-const call on the destination receives a value derived from the
loop variable.  Registering the state only inside a loop over something that can be empty silently drops the
states for which it is (seed C10-5: Union(Reverse(A), B) lost the start states of Reverse(A))."""
from vfacts import strip, walk, is_node, method_name, root_path, must_pass_through
from .prov import var_table, origins

RULE = 'REINDEXALL'
FLOOR = 3
ANCHORS = ['ExplicitFiniteAutCore::ReindexStates', 'ExplicitTreeAutCore::ReindexStates']
SETS = ('finalStates_', 'startStates_', 'GetFinalStates()', 'GetStartStates()')


def run(unit, em):
    for fn in unit.functions:
        if fn.body is None or fn.q.split('::')[-1] not in ('ReindexStates', 'CopyTransitionsFrom'):
            continue
        if not fn.d.get('cls'):
            continue
        dst = None
        for p in fn.params:
            if p.get('ref') == 'r' and unit.tname(p['t']).replace(' &', '').replace('&', '').strip() == unit.tname(fn.d.get('rc', -1)):
                dst = p['d']
                break
        if dst is None:
            continue
        short = fn.q.replace('VATA::', '')
        cfg = fn.cfg()
        vt = var_table(fn)
        anchored = False
        for lp in fn.walk(lambdas=False):
            if lp['k'] != 'CXXForRangeStmt':
                continue
            rp = root_path(lp.get('range'))
            if not rp or rp[-1] not in SETS or rp[0] == 'param':
                continue
            if short in ANCHORS and not anchored:
                em.anchor(fn, short)
                anchored = True
            var = lp['var']['d']
            regs = []
            for c in walk(lp['body'], lambdas=False):
                if c['k'] == 'CXXMemberCallExpr' and not c.get('const') and dst in origins(fn, c.get('obj'), stop={dst}):
                    if any(var in origins(fn, a, stop={var}) for a in c.get('args') or []):
                        regs.append(c)
            what = rp[-1].replace('()', '').replace('Get', '').replace('_', '')
            name = '%s: every element of %s reaches the destination' % (fn.q.split('::')[-1], rp[-1])
            if not regs:
                em.violation(lp, name, 'no call on the destination receives the loop variable', 'all')
                continue
            if cfg is None:
                em.unknown(lp, name, 'no CFG', 'all')
                continue
            body = lp['body']
            first = None
            for m in walk(body):
                if m is not body and cfg.locate(m) is not None:
                    first = m
                    break
            inc = lp.get('inc')
            if first is None or not is_node(inc):
                em.unknown(lp, name, 'loop shape not resolved', 'all')
                continue
            inc_ids = {id(x) for x in walk(inc)}
            reg_ids = {id(x) for c in regs for x in walk(c)}
            ok, _ = must_pass_through(cfg, cfg.locate(first), lambda n: id(n) in inc_ids, lambda n: id(n) in reg_ids, start_after=False)
            if ok:
                em.ok(lp, name, 'registered by %s on every path through the body' % unit.text(regs[0], 50), 'all')
            else:
                em.violation(lp, name, 'the registering call %s can be skipped (it sits under a condition or inside an inner loop that may not run): the states for which that happens are missing from the result' % unit.text(regs[0], 50), 'all')


# ---- clause `freshdst`: the destination a renaming fills must not already hold the source's own (un-renamed) content
def run_freshdst(unit, em):
    for fn in unit.functions:
        if fn.body is None:
            continue
        vt = None
        for c in fn.calls():
            if c['k'] != 'CXXMemberCallExpr' or method_name(c) != 'ReindexStates' or not c.get('inrepo', True) or not c.get('args'):
                continue
            a0 = strip(c['args'][0])
            if a0 is None or a0['k'] != 'DeclRefExpr' or a0.get('dk') != 'local':
                continue
            if vt is None:
                vt = var_table(fn)
            v = vt.get(a0['d'])
            if v is None or v['kind'] != 'local':
                continue
            decl = v['decl']
            if unit.ty(decl).rstrip().endswith('&') or 'Aut' not in unit.ty(decl).split('<')[0]:
                continue
            init = strip(decl.get('init')) if is_node(decl.get('init')) else None
            txt = '%s filled by %s' % (decl.get('n'), unit.text(c, 50))
            if init is None or init['k'] not in ('CXXConstructExpr', 'CXXTemporaryObjectExpr'):
                continue
            args = [a for a in init.get('args') or [] if is_node(a)]
            rty = unit.ty(decl).replace('const ', '').strip()
            src = strip(args[0]) if args else None
            is_copy = src is not None and unit.ty(src).replace('const ', '').replace('&', '').strip() == rty
            if not is_copy:
                em.ok(c, txt, 'the destination is created empty in this function', 'freshdst')
                continue
            # copy of which automaton?  Only a copy of the renaming's own source is an obligation
            recv = root_path(c.get('obj')) or ('this',)
            srcp = root_path(src) or ('this',)
            same = recv[:2] == srcp[:2] or (src['k'] in ('UnaryOperator',) and any(x['k'] == 'CXXThisExpr' for x in walk(src)) and recv[0] == 'this')
            if not same:
                em.ok(c, txt, 'the destination starts as a copy of another automaton than the one renamed into it', 'freshdst')
                continue
            flags = []
            for a in args[1:]:
                if 'bool' not in unit.ty(a):
                    continue
                if a['k'] == 'CXXDefaultArgExpr':
                    flags.append(a.get('dv'))
                else:
                    sa = strip(a)
                    flags.append(sa.get('v') if sa is not None and sa['k'] == 'CXXBoolLiteralExpr' else None)
            if not flags:
                em.violation(c, txt, 'the destination is a full copy of the automaton that is renamed into it: its rules and accepting states stay in the result under their old numbers next to their images', 'freshdst')
            elif any(f is None for f in flags):
                em.unknown(c, txt, 'the destination is a partial copy of the source controlled by a flag that is not a literal', 'freshdst')
            elif any(f for f in flags):
                em.violation(c, txt, 'the destination is created as a copy of the automaton that is renamed into it with a copy flag that is true (%s; a flag left out defaults to true): '
                             'the copied rules / accepting states keep their old numbers, so the result is the image plus un-renamed leftovers of the input' % ', '.join('true' if f else 'false' for f in flags), 'freshdst')
            else:
                em.ok(c, txt, 'the destination copies neither rules nor accepting states of the source', 'freshdst')


_run_all = run


def run(unit, em):
    _run_all(unit, em)
    run_freshdst(unit, em)
