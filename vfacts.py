"""Fact base over vlint's export: resolved AST + CFG of every in-repo function body.

Pure static inspection helpers; nothing here runs libvata code.
"""
import json
import os
import re

TRANSPARENT = {
    'ParenExpr', 'ImplicitCastExpr', 'ExprWithCleanups', 'MaterializeTemporaryExpr',
    'CXXBindTemporaryExpr', 'CXXFunctionalCastExpr', 'CXXStaticCastExpr', 'CStyleCastExpr',
    'ConstantExpr', 'SubstNonTypeTemplateParmExpr', 'CXXConstCastExpr',
}
# keys of a range-for node that only hold clang's desugaring (kept for CFG lookups)
RANGE_DESUGAR = ('rangestmt', 'beginstmt', 'endstmt', 'c', 'inc', 'loopvarstmt')
CALL_KINDS = ('CallExpr', 'CXXMemberCallExpr', 'CXXOperatorCallExpr')

_src_cache = {}


def read_src(path):
    b = _src_cache.get(path)
    if b is None:
        try:
            with open(path, 'rb') as f:
                b = f.read()
        except OSError:
            b = b''
        _src_cache[path] = b
    return b


def is_node(x):
    return isinstance(x, dict) and 'k' in x


def raw_children(n):
    """All child nodes in export order (including desugared range-for pieces)."""
    for key, val in n.items():
        if key.startswith('_') or key == 'cfg':
            continue
        if is_node(val):
            yield key, val
        elif isinstance(val, list):
            for it in val:
                if is_node(it):
                    yield key, it
                elif isinstance(it, dict) and is_node(it.get('init')):
                    yield key + '.init', it['init']
        elif isinstance(val, dict) and is_node(val.get('init')):
            yield key + '.init', val['init']


def children(n):
    """Semantic children: range-for shows only its range expression and body."""
    if n['k'] == 'CXXForRangeStmt':
        r = n.get('range')
        if r is not None:
            yield 'range', r
        if is_node(n.get('body')):
            yield 'body', n['body']
        return
    for kv in raw_children(n):
        yield kv


def walk(n, lambdas=True):
    """Pre-order over semantic children. lambdas=False does not enter lambda bodies."""
    if n is None:
        return
    stack = [n]
    while stack:
        x = stack.pop()
        yield x
        if x['k'] == 'LambdaExpr' and not lambdas:
            # still visit capture initialisers
            ch = [c for r, c in children(x) if r.startswith('captures')]
        else:
            ch = [c for r, c in children(x)]
        stack.extend(reversed(ch))


def strip(n):
    """Look through parens, implicit casts, temporaries and elidable copy/move constructions."""
    while n is not None:
        k = n['k']
        if k in TRANSPARENT:
            ch = n.get('ch') or []
            if not ch:
                return n
            n = ch[0]
            continue
        if k == 'CXXConstructExpr' and n.get('ctor') in ('copy', 'move') and len(n.get('args', [])) == 1:
            n = n['args'][0]
            continue
        return n
    return n


class Function:
    def __init__(self, unit, d):
        self.unit = unit
        self.d = d
        self.q = d['q']
        self.sig = unit.types[d['sig']]
        self.file = unit.files[d['file']]
        self.line = d['line']
        self.body = d.get('body')
        self.params = d.get('params', [])
        self.cls = d.get('cls')
        self.nodes = {}
        self._index()
        self._cfg = None

    def _index(self):
        roots = []
        if self.body is not None:
            roots.append(self.body)
        for i in self.d.get('inits', []):
            if is_node(i.get('init')):
                roots.append(i['init'])
        for p in self.params:
            if is_node(p.get('init')):
                roots.append(p['init'])
        for r in roots:
            r['_p'] = None
            r['_role'] = 'root'
            stack = [r]
            while stack:
                n = stack.pop()
                n['_f'] = self
                self.nodes[n['i']] = n
                if n['k'] == 'CXXForRangeStmt':
                    rs = n.get('rangestmt')
                    rng = None
                    if rs and rs.get('decls'):
                        rng = rs['decls'][0].get('init')
                    n['range'] = rng
                for role, c in raw_children(n):
                    if role == 'range':
                        continue
                    c['_p'] = n
                    c['_role'] = role
                    stack.append(c)

    @property
    def ret(self):
        return self.unit.types[self.d['ret']]

    def walk(self, lambdas=True):
        if self.body is None:
            return
        for i in self.d.get('inits', []):
            if is_node(i.get('init')):
                yield from walk(i['init'], lambdas)
        yield from walk(self.body, lambdas)

    def calls(self, lambdas=True):
        for n in self.walk(lambdas):
            if n['k'] in CALL_KINDS:
                yield n

    def cfg(self):
        if self._cfg is None and self.d.get('cfg'):
            self._cfg = CFG(self, self.d['cfg'], self.nodes)
        return self._cfg

    def lambda_cfg(self, lam):
        c = lam.get('_cfgobj')
        if c is None and lam.get('cfg'):
            c = CFG(self, lam['cfg'], self.nodes)
            lam['_cfgobj'] = c
        return c

    def __repr__(self):
        return '<Function %s %s:%d>' % (self.q, os.path.basename(self.file), self.line)


class CFG:
    def __init__(self, fn, d, nodes):
        self.fn = fn
        self.entry = d['entry']
        self.exit = d['exit']
        self.blocks = {b['id']: b for b in d['blocks']}
        self.succ = {}
        self.pred = {b: [] for b in self.blocks}
        for bid, b in self.blocks.items():
            s = [x for x in b['succ'] if x is not None]
            self.succ[bid] = s
        for bid, ss in self.succ.items():
            for s in ss:
                self.pred[s].append(bid)
        self.where = {}
        for bid, b in self.blocks.items():
            for pos, e in enumerate(b['el']):
                if e >= 0 and e not in self.where:
                    self.where[e] = (bid, pos)
        self.nodes = nodes
        self._reach = None

    def reachable(self):
        if self._reach is None:
            seen = set()
            st = [self.entry]
            while st:
                b = st.pop()
                if b in seen:
                    continue
                seen.add(b)
                st.extend(self.succ[b])
            self._reach = seen
        return self._reach

    def elems(self, bid):
        return [self.nodes.get(e) for e in self.blocks[bid]['el'] if e >= 0 and e in self.nodes]

    def locate(self, node):
        """(block, position) of the CFG element for node or its nearest element ancestor/descendant."""
        n = node
        while n is not None:
            w = self.where.get(n['i'])
            if w:
                return w
            n = n.get('_p')
        return None

    def true_false_succ(self, bid):
        s = self.blocks[bid]['succ']
        if len(s) == 2:
            return s[0], s[1]
        return None

    def can_reach_avoiding(self, src, src_pos, targets, avoid):
        """Is some target (block,pos) reachable from (src, src_pos) [exclusive] without passing an
        element for which avoid(node) is true? targets: set of block ids meaning 'block entry',
        or callable on (bid,pos,node). Used for must-pass-through: MPT(A,B,M) == not can_reach."""
        raise NotImplementedError


def must_pass_through(cfg, start, is_target, is_marker, start_after=True, track=None, nonempty=None, edge_filter=None):
    """True iff every CFG path from element `start` (block,pos) to any element satisfying
    is_target(node) (or to the exit block when is_target is None) contains an element satisfying
    is_marker(node) strictly before the target. Returns (ok, witness_target_node).
    track: optional declaration id of a scalar local whose constant value is followed along each path
    (`v = <integer literal>` sets it, any other write forgets it); at a `switch (v)` with a known value
    only the matching case successor is taken. This removes the infeasible paths of emulated returns
    (`retAddr = k; goto call; ... switch (retAddr) { case k: goto ret_k; }`).
    nonempty: optional predicate on a range-for node; such a loop is assumed to execute at least once
    (on first arrival at its condition only the body edge is taken).
    edge_filter: optional callback (condition node) -> True / False / None: for a two-way branch on that
    condition follow only the true (resp. false) edge; None = both."""
    sb, sp = start
    seen = set()
    work = [(sb, sp + 1 if start_after else sp, None, frozenset())]
    while work:
        b, p, val, entered = work.pop()
        blk = cfg.blocks[b]
        els = blk['el']
        blocked = False
        for i in range(p, len(els)):
            e = els[i]
            n = cfg.nodes.get(e) if e >= 0 else None
            if n is None:
                continue
            if is_marker(n):
                blocked = True
                break
            if is_target is not None and is_target(n):
                return False, n
            if track is not None and n['k'] in ('BinaryOperator', 'CompoundAssignOperator') and n.get('op', '').endswith('=') and n.get('op') not in ('==', '!=', '<=', '>='):
                l = strip(n['ch'][0])
                if l is not None and l['k'] == 'DeclRefExpr' and l.get('d') == track:
                    r = strip(n['ch'][1])
                    # an integer literal or an enumerator / constant whose value the exporter evaluated (`retAddr = RET_STD;`)
                    val = r.get('v') if (n['op'] == '=' and r is not None and (r['k'] == 'IntegerLiteral' or (r['k'] == 'DeclRefExpr' and 'v' in r))) else None
            if track is not None and n['k'] == 'UnaryOperator' and n.get('op') in ('++', '--'):
                l = strip(n['ch'][0])
                if l is not None and l.get('d') == track:
                    val = None
        if blocked:
            continue
        if is_target is None and b == cfg.exit:
            return False, None
        succs = list(cfg.succ[b])
        if track is not None and val is not None and blk.get('termk') == 'SwitchStmt':
            t = cfg.nodes.get(blk.get('term'))
            c = strip(t.get('c')) if t else None
            if c is not None and c['k'] == 'DeclRefExpr' and c.get('d') == track:
                chosen = []
                default = []
                for s_ in succs:
                    lab = cfg.nodes.get(cfg.blocks[s_].get('label', -1))
                    if lab is not None and lab['k'] == 'CaseStmt':
                        if lab.get('v') == val:
                            chosen.append(s_)
                    else:
                        default.append(s_)
                succs = chosen or default
        if edge_filter is not None and len(blk['succ']) == 2 and blk.get('cond', -1) >= 0:
            cn = cfg.nodes.get(blk['cond'])
            if cn is not None:
                pick = edge_filter(cn)
                if pick is True and blk['succ'][0] is not None:
                    succs = [blk['succ'][0]]
                elif pick is False and blk['succ'][1] is not None:
                    succs = [blk['succ'][1]]
        if nonempty is not None and blk.get('termk') == 'CXXForRangeStmt' and len(blk['succ']) == 2 and b not in entered:
            t = cfg.nodes.get(blk.get('term'))
            if t is not None and nonempty(t) and blk['succ'][0] is not None:
                succs = [blk['succ'][0]]
                entered = entered | {b}
        for s in succs:
            if s == cfg.exit and is_target is None:
                return False, None
            key = (s, val, entered)
            if key not in seen:
                seen.add(key)
                work.append((s, 0, val, entered))
    return True, None


class Unit:
    def __init__(self, path):
        with open(path) as f:
            d = json.load(f)
        self.path = path
        self.unit = os.path.normpath(d['unit'])
        self.root = d['root']
        self.types = d['types']
        self.files = [os.path.normpath(x) for x in d['files']]
        self.stats = d['stats']
        self.records = d['records']
        for r in self.records:
            r['file'] = self.files[r['file']]
            r['rct'] = self.types[r['rc']]
        self.functions = [Function(self, f) for f in d['functions']]
        self.by_decl = {f.d['d']: f for f in self.functions}

    def ty(self, n):
        t = n.get('t', -1)
        return self.types[t] if t is not None and t >= 0 else ''

    def tys(self, n):
        t = n.get('ts', n.get('t', -1))
        return self.types[t] if t is not None and t >= 0 else ''

    def tname(self, idx):
        return self.types[idx] if idx is not None and idx >= 0 else ''

    def node_file(self, n):
        if 'fi' in n:
            return self.files[n['fi']]
        return n['_f'].file

    def text(self, n, limit=200):
        o = n.get('o')
        if not o:
            return '<%s>' % n['k']
        src = read_src(self.node_file(n))
        t = src[o[0]:o[1]].decode('utf-8', 'replace')
        t = re.sub(r'\s+', ' ', t).strip()
        if limit and len(t) > limit:
            t = t[:limit] + '…'
        return t

    def loc(self, n):
        b = n.get('b') or [0, 0]
        return self.node_file(n), b[0], b[1]

    def rel(self, path):
        if path.startswith(self.root):
            return path[len(self.root):]
        return path

    def funcs(self, pred=None, name=None, file_suffix=None):
        for f in self.functions:
            if name is not None and not (f.q == name or f.q.endswith('::' + name)):
                continue
            if file_suffix is not None and not f.file.endswith(file_suffix):
                continue
            if pred is not None and not pred(f):
                continue
            yield f


# ---------------------------------------------------------------- expression helpers

def callee(n):
    return n.get('q') if n and n['k'] in CALL_KINDS else None


def method_name(n):
    q = callee(n)
    return q.rsplit('::', 1)[-1] if q else None


def call_obj(n):
    """Receiver expression of a member call / member operator call (unstripped)."""
    if n['k'] == 'CXXMemberCallExpr':
        return n.get('obj')
    if n['k'] == 'CXXOperatorCallExpr' and n.get('memberop') and n.get('args'):
        return n['args'][0]
    return None


def call_args(n):
    """Explicit arguments (receiver excluded)."""
    if n['k'] == 'CXXOperatorCallExpr' and n.get('memberop'):
        return n.get('args', [])[1:]
    return n.get('args', [])


def root_path(n, depth=0):
    """Access path of an expression as a tuple: ('local'|'param'|'this'|'global', name, member...)
    looking through smart-pointer/iterator dereference, subscripts and call results on a receiver.
    Returns None when the expression has no variable root."""
    n = strip(n)
    if n is None or depth > 12:
        return None
    k = n['k']
    if k == 'DeclRefExpr':
        return (n.get('dk', 'decl'), n['n'])
    if k == 'CXXThisExpr':
        return ('this',)
    if k == 'MemberExpr':
        ch = n.get('ch') or []
        base = root_path(ch[0], depth + 1) if ch else None
        if base is None:
            return None
        return base + (n['n'],)
    if k == 'UnaryOperator' and n.get('op') in ('*', '&'):
        return root_path(n['ch'][0], depth + 1)
    if k == 'CXXOperatorCallExpr' and n.get('op') in ('*', '->') and n.get('args'):
        return root_path(n['args'][0], depth + 1)
    if k == 'CXXOperatorCallExpr' and n.get('op') == '[]' and n.get('args'):
        b = root_path(n['args'][0], depth + 1)
        return b + ('[]',) if b else None
    if k == 'ArraySubscriptExpr':
        b = root_path(n['ch'][0], depth + 1)
        return b + ('[]',) if b else None
    if k == 'CXXMemberCallExpr':
        b = root_path(n.get('obj'), depth + 1)
        return b + (method_name(n) + '()',) if b else None
    return None


def decl_of(n):
    """Declaration id of the variable an expression names directly (after stripping)."""
    n = strip(n)
    if n is not None and n['k'] == 'DeclRefExpr':
        return n.get('d')
    return None


def refs(n, lambdas=True):
    """All DeclRefExpr nodes below n."""
    for x in walk(n, lambdas):
        if x['k'] == 'DeclRefExpr':
            yield x


def ancestors(n):
    p = n.get('_p')
    while p is not None:
        yield p
        p = p.get('_p')


def enclosing(n, kinds):
    for a in ancestors(n):
        if a['k'] in kinds:
            return a
    return None


def stmt_exits(s):
    """Does a statement unconditionally leave the enclosing block (return/throw/continue/break/goto)?"""
    if s is None:
        return False
    k = s['k']
    if k in ('ReturnStmt', 'ContinueStmt', 'BreakStmt', 'CXXThrowExpr', 'GotoStmt'):
        return True
    if k == 'ExprWithCleanups':
        return stmt_exits((s.get('ch') or [None])[0])
    if k == 'CompoundStmt':
        ch = s.get('ch') or []
        return bool(ch) and stmt_exits(ch[-1])
    if k == 'IfStmt':
        return s.get('el') is not None and stmt_exits(s.get('th')) and stmt_exits(s.get('el'))
    if k in CALL_KINDS and s.get('noret'):
        return True
    return False


def guards(n):
    """Branch conditions controlling node n, read off the AST:
    list of (polarity, condition-node, how) with polarity True/False, or ('loop', range-for node).
    Includes earlier sibling `if (c) <exit>;` statements as (False, c, 'early-exit')."""
    out = []
    cur = n
    while True:
        p = cur.get('_p')
        if p is None:
            break
        role = cur.get('_role')
        k = p['k']
        if k == 'IfStmt':
            if role == 'th':
                out.append((True, p['c'], 'if'))
            elif role == 'el':
                out.append((False, p['c'], 'else'))
        elif k == 'BinaryOperator' and p.get('op') in ('&&', '||'):
            ch = p['ch']
            if len(ch) == 2 and ch[1] is cur:
                out.append((p['op'] == '&&', ch[0], p['op']))
        elif k == 'ConditionalOperator':
            ch = p['ch']
            if len(ch) == 3:
                if ch[1] is cur:
                    out.append((True, ch[0], '?:'))
                elif ch[2] is cur:
                    out.append((False, ch[0], '?:'))
        elif k == 'CXXForRangeStmt':
            if role == 'body':
                out.append(('loop', p, 'range-for'))
        elif k in ('WhileStmt', 'ForStmt'):
            if role == 'body' and p.get('c') is not None:
                out.append((True, p['c'], 'loop-cond'))
        elif k == 'CompoundStmt':
            for sib in p.get('ch', []):
                if sib is cur:
                    break
                if sib['k'] == 'IfStmt' and sib.get('el') is None and stmt_exits(sib.get('th')):
                    out.append((False, sib['c'], 'early-exit'))
        elif k == 'LambdaExpr':
            pass
        cur = p
    return out


def conjuncts(cond, polarity=True):
    """Flatten a condition into atomic facts [(polarity, atom)] that are all known to hold when
    `cond` evaluates to `polarity`. (a && b) true -> a, b ; (a || b) false -> !a, !b ; !x flips."""
    c = strip(cond)
    if c is None:
        return []
    if c['k'] == 'UnaryOperator' and c.get('op') == '!':
        return conjuncts(c['ch'][0], not polarity)
    if c['k'] == 'BinaryOperator' and c.get('op') == '&&' and polarity:
        return conjuncts(c['ch'][0], True) + conjuncts(c['ch'][1], True)
    if c['k'] == 'BinaryOperator' and c.get('op') == '||' and not polarity:
        return conjuncts(c['ch'][0], False) + conjuncts(c['ch'][1], False)
    return [(polarity, c)]


def known_facts(n):
    """All atomic facts (polarity, atom) holding at node n, plus enclosing range-for loops."""
    facts = []
    loops = []
    for pol, c, how in guards(n):
        if pol == 'loop':
            loops.append(c)
        else:
            facts.extend(conjuncts(c, pol))
    return facts, loops
