#!/usr/bin/env python3
"""vcheck — driver of the libvata static rule engine.

  vcheck.py --property C20 [--tier quick|thorough]
  vcheck.py --replay reports/C20/INIT-xxxx.json
  vcheck.py --rules INIT,FALLOFF [--root DIR]        (development / self-test use)

Every run: regenerate the compilation database from /repo's current CMake files, export the
resolved AST+CFG of every unit with tool/vlint, run the property's rules over the export, compare
with floors and known findings, write evidence/<id>.json.
exit 0 = every resolved instance satisfies its rule; exit 1 = VIOLATION; exit 2 = analysis broken.
"""
import argparse
import concurrent.futures as cf
import hashlib
import json
import os
import shutil
import subprocess
import sys
import tempfile
import time

HERE = os.path.dirname(os.path.abspath(__file__))
sys.path.insert(0, HERE)
import vfacts  # noqa: E402
import rules  # noqa: E402

VLINT = os.path.join(HERE, 'tool', 'vlint')
NPROC = min(16, os.cpu_count() or 4)


class Broken(Exception):
    pass


def log(*a):
    print(*a, flush=True)


# ------------------------------------------------------------------ compilation database

def make_compdb(repo, scratch):
    """cmake -G Ninja into a scratch dir; returns list of entries (file, command, directory)."""
    bdir = os.path.join(scratch, 'cdb')
    os.makedirs(bdir)
    r = subprocess.run(['cmake', '-G', 'Ninja', '-DCMAKE_BUILD_TYPE=Release',
                        '-DCMAKE_EXPORT_COMPILE_COMMANDS=ON', '-Wno-dev', repo],
                       cwd=bdir, stdout=subprocess.PIPE, stderr=subprocess.STDOUT, text=True)
    path = os.path.join(bdir, 'compile_commands.json')
    if r.returncode != 0 or not os.path.exists(path):
        raise Broken('cmake could not configure %s:\n%s' % (repo, r.stdout[-2000:]))
    with open(path) as f:
        db = json.load(f)
    out = []
    seen = set()
    for e in db:
        f = os.path.normpath(e['file'])
        if f in seen or not f.startswith(repo.rstrip('/') + '/'):
            continue  # generated version.cc lives in the scratch dir: not repo source
        seen.add(f)
        cmd = e['command'] if 'command' in e else ' '.join(e['arguments'])
        if '-std=' not in cmd:
            cmd += ' -std=gnu++17'
        out.append({'file': f, 'command': cmd, 'directory': e['directory']})
    with open(path, 'w') as f:
        json.dump(out, f)
    return bdir, out


def select_units(db, repo, tier):
    repo = repo.rstrip('/')
    units = []
    for e in db:
        rel = e['file'][len(repo) + 1:]
        if rel.startswith('src/') or rel in ('cli/vata.cc', 'unit_tests/ondriks_mtbdd_c_test.cc'):
            units.append(e['file'])
        elif tier == 'thorough':
            units.append(e['file'])
    return units


def export_unit(args):
    unit, bdir, outdir, root = args
    out = os.path.join(outdir, hashlib.sha1(unit.encode()).hexdigest()[:12] + '.json')
    r = subprocess.run([VLINT, '-p', bdir, '--root=' + root, '--out=' + out, unit],
                       stdout=subprocess.PIPE, stderr=subprocess.PIPE, text=True)
    ok = r.returncode == 0 and os.path.exists(out) and os.path.getsize(out) > 0
    err = ''
    if not ok:
        err = (r.stderr or '')[-1500:]
    elif ' error: ' in r.stderr:
        ok = False
        err = r.stderr[-1500:]
    return unit, out, ok, err


def analyse_unit(args):
    path, rule_names = args
    u = vfacts.Unit(path)
    recs = []
    for rn in rule_names:
        mod = rules.get(rn)
        em = rules.Emitter(rn, u)
        mod.run(u, em)
        recs.extend(em.records)
    stats = {'unit': u.unit, 'functions': len(u.functions), 'nodes': u.stats['nodes'],
             'instantiations': sum(1 for f in u.functions if f.d.get('inst'))}
    return recs, stats


DEV_FACTS = None  # development only: reuse/keep an export directory (never used by registered commands)


def run_rules(repo, rule_names, tier, scratch):
    """Export and analyse; returns (records, unit stats)."""
    root = repo.rstrip('/') + '/'
    if DEV_FACTS and os.path.isdir(DEV_FACTS) and os.listdir(DEV_FACTS):
        paths = sorted(os.path.join(DEV_FACTS, x) for x in os.listdir(DEV_FACTS) if x.endswith('.json'))
        return analyse_paths(paths, rule_names)
    bdir, db = make_compdb(repo.rstrip('/'), scratch)
    units = select_units(db, repo, tier)
    if len(units) < 40:
        raise Broken('compilation database lists only %d units' % len(units))
    outdir = DEV_FACTS or os.path.join(scratch, 'facts')
    os.makedirs(outdir, exist_ok=True)
    paths = []
    with cf.ThreadPoolExecutor(NPROC) as ex:
        for unit, out, ok, err in ex.map(export_unit, [(u, bdir, outdir, root) for u in units]):
            if not ok:
                raise Broken('vlint failed on %s:\n%s' % (unit, err))
            paths.append(out)
    return analyse_paths(paths, rule_names)


def run_witnesses(rule_names, scratch):
    """Rules with a WITNESS file must fire on its positive_* functions and stay silent on negative_*.
    Returns (summary, broken list)."""
    summary, broken = {}, []
    wroot = os.path.join(HERE, 'witness') + '/'
    for rn in rule_names:
        mod = rules.get(rn)
        w = getattr(mod, 'WITNESS', None)
        if not w:
            continue
        src = os.path.join(wroot, w)
        out = os.path.join(scratch, 'witness-%s.json' % rn)
        r = subprocess.run([VLINT, '--root=' + wroot, '--out=' + out, src, '--', '-std=c++11', '-DNDEBUG', '-I/repo/include', '-I/repo/src'],
                           stdout=subprocess.PIPE, stderr=subprocess.PIPE, text=True)
        if r.returncode != 0 or not os.path.exists(out):
            broken.append('%s: witness %s does not parse: %s' % (rn, w, r.stderr[-300:]))
            continue
        u = vfacts.Unit(out)
        em = rules.Emitter(rn, u)
        mod.run(u, em)
        pos = [x for x in em.records if x['kind'] == 'violation' and 'positive' in x['func']]
        neg = [x for x in em.records if x['kind'] == 'violation' and 'negative' in x['func']]
        summary[rn] = {'witness': w, 'positive_reports': len(pos), 'negative_reports': len(neg)}
        need = getattr(mod, 'WITNESS_MIN', 1)
        if len({x['func'] for x in pos}) < need:
            broken.append('%s: fires on %d positive witness functions of %s, expected at least %d' % (rn, len({x['func'] for x in pos}), w, need))
        if neg:
            broken.append('%s: fires on its negative witness %s (%s)' % (rn, w, neg[0]['construct']))
    return summary, broken


def analyse_paths(paths, rule_names):
    records, stats = [], []
    with cf.ProcessPoolExecutor(NPROC) as ex:
        for recs, st in ex.map(analyse_unit, [(p, rule_names) for p in paths]):
            records.extend(recs)
            stats.append(st)
    for rn in rule_names:
        fin = getattr(rules.get(rn), 'finalize', None)
        if fin:
            records.extend(fin(records, None))
    return records, stats


# ------------------------------------------------------------------ merging and verdicts

def merge(records):
    """De-duplicate across units/instantiations. Key = (rule, file, line, col, obligation, construct).
    If any instantiation violates, the site violates; else unknown beats ok."""
    rank = {'violation': 3, 'broken': 3, 'unknown': 2, 'ok': 1, 'info': 0, 'anchor': 0}
    sites = {}
    for r in records:
        key = (r['rule'], r['file'], r['line'], r.get('col', 0), r.get('obligation', ''), r['construct'], r['kind'] == 'anchor')   # an anchor is never absorbed by a verdict at the same place
        cur = sites.get(key)
        if cur is None:
            r = dict(r)
            r['instantiations'] = {r.get('sig', '')}
            sites[key] = r
        else:
            cur['instantiations'].add(r.get('sig', ''))
            if rank[r['kind']] > rank[cur['kind']]:
                insts = cur['instantiations']
                cur = dict(r)
                cur['instantiations'] = insts
                sites[key] = cur
    out = []
    for r in sites.values():
        r['n_instantiations'] = len(r['instantiations'])
        r['instantiations'] = sorted(r['instantiations'])[:3]
        out.append(r)
    out.sort(key=lambda r: (r['rule'], r['file'], r['line'], r.get('col', 0)))
    return out


def site_id(r):
    h = hashlib.sha1(('%s|%s|%s|%s' % (r['rule'], r['func'], r.get('obligation', ''), r['construct'])).encode()).hexdigest()[:10]
    return h


import re as _re


def load_known():
    p = os.path.join(HERE, 'known_findings.json')
    if not os.path.exists(p):
        return []
    with open(p) as f:
        return json.load(f).get('findings', [])


def match_known(r, prop, known):
    for k in known:
        if k.get('status') != 'known':
            continue  # fixed entries suppress nothing
        if k['property'] != prop or k['rule'] != r['rule']:
            continue
        if k.get('func') and not r['func'].endswith(k['func']):
            continue
        if k.get('construct') and k['construct'] not in r['construct']:
            continue
        if k.get('construct_re') and not _re.search(k['construct_re'], r['construct']):
            continue
        return k
    return None


def decide(prop, rule_names, sites, stats, tier, t0, selftest=None, extra_broken=None):
    known = load_known()
    broken = list(extra_broken or [])
    viol, knownhits, unknown, ok = [], [], [], []
    per_rule = {}
    import re as _re
    for r in sites:
        pr = per_rule.setdefault(r['rule'], {'ok': 0, 'violation': 0, 'unknown': 0, 'anchors': set(), 'resolved_all_files': 0, 'elsewhere': 0})
        if r['kind'] == 'anchor':
            pr['anchors'].add(r['construct'])
            continue
        if r['kind'] == 'info':
            continue
        if r['kind'] == 'broken':
            broken.append('%s: %s' % (r['rule'], r['detail']))
            continue
        if r['kind'] in ('ok', 'violation'):
            pr['resolved_all_files'] += 1
        if not rules.attributed(prop, r):
            pr['elsewhere'] += 1  # a site of this rule that belongs to another property's code
            continue
        pr[r['kind']] += 1
        if r['kind'] == 'violation':
            k = match_known(r, prop, known)
            (knownhits if k else viol).append((r, k))
        elif r['kind'] == 'unknown':
            unknown.append(r)
        else:
            ok.append(r)
    # floors and anchors
    for rn in rule_names:
        mod = rules.get(rn)
        pr = per_rule.get(rn, {'ok': 0, 'violation': 0, 'unknown': 0, 'anchors': set(), 'resolved_all_files': 0})
        resolved = pr.get('resolved_all_files', 0)
        floor = getattr(mod, 'FLOOR', 1)
        if resolved < floor:
            broken.append('%s: resolved %d instances, floor is %d (unknown=%d)' % (rn, resolved, floor, pr['unknown']))
        for a in getattr(mod, 'ANCHORS', []):
            if a not in pr['anchors']:
                broken.append('%s: anchor %s not found in the analysed program' % (rn, a))
    wall = time.time() - t0
    ev = {
        'property_id': prop, 'tier': tier, 'seed': int(os.environ.get('VERIF_SEED', '0') or 0),
        'level': 'other', 'wall_s': round(wall, 2), 'violations': len(viol),
        'coverage': {
            'explanation': 'static rules %s evaluated over the resolved AST/CFG of every function body '
                           '(including template instantiations) of %d translation units; an instance is one '
                           'site at which a rule obligation must hold' % (', '.join(rule_names), len(stats)),
            'evaluations': len(ok) + len(viol) + len(knownhits) + len(unknown),
            'distinct_nontrivial': len(ok) + len(viol) + len(knownhits),
            'rule': 'instances are enumerated structurally by each rule (DESIGN.md section 3); one counts as '
                    'distinct and non-trivial when all its slots were resolved on repository code, de-duplicated '
                    'by (rule, file, line, column, obligation, construct) across units and instantiations',
            'obligations': len(ok) + len(viol) + len(knownhits),
            'discharged': len(ok),
            'unknown': len(unknown),
            'units': len(stats),
            'functions': sum(s['functions'] for s in stats),
            'instantiated_functions': sum(s['instantiations'] for s in stats),
            'ast_nodes': sum(s['nodes'] for s in stats),
            'per_rule': {rn: {k: (sorted(v) if isinstance(v, set) else v) for k, v in per_rule.get(rn, {}).items()} for rn in rule_names},
            'floors': {rn: getattr(rules.get(rn), 'FLOOR', 1) for rn in rule_names},
            'samples': [slim(r) for r in pick_samples(ok, viol, knownhits, unknown)],
            'known_findings': [slim(r) for r, k in knownhits],
            'violations': [slim(r) for r, k in viol],
            'unknown_samples': [slim(r) for r in unknown[:10]],
            'analysis_broken': broken,
            'checker_cmd': 'python3 vcheck.py --property %s --tier %s' % (prop, tier),
            'trusted_base': ['clang 14 front end (AST, template instantiation, CFG construction)',
                             'tool/vlint.cc exporter', 'rule slot tables in rules/*.py'],
        },
        'assumptions': sorted({a for rn in rule_names for a in getattr(rules.get(rn), 'ASSUMPTIONS', [])}),
    }
    if selftest is not None:
        ev['coverage']['selftest'] = selftest
    os.makedirs(os.path.join(HERE, 'evidence'), exist_ok=True)
    with open(os.path.join(HERE, 'evidence', prop + '.json'), 'w') as f:
        json.dump(ev, f, indent=1, default=str)
        f.write('\n')
    for rn in rule_names:
        pr = per_rule.get(rn, {'ok': 0, 'violation': 0, 'unknown': 0})
        log('rule %-13s ok=%-4d violation=%-3d unknown=%-3d floor=%d' % (rn, pr['ok'], pr['violation'], pr['unknown'], getattr(rules.get(rn), 'FLOOR', 1)))
    for r, k in knownhits:
        log('KNOWN-FINDING: property=%s %s %s:%d %s — %s' % (prop, r['rule'], r['file'], r['line'], r['func'], k.get('what', r['detail'])))
    if broken:
        for b in broken:
            log('ANALYSIS-BROKEN property=%s %s' % (prop, b))
        return 2
    if viol:
        rdir = os.path.join(HERE, 'reports', prop)
        os.makedirs(rdir, exist_ok=True)
        for r, _ in viol:
            p = os.path.join(rdir, '%s-%s.json' % (r['rule'], site_id(r)))
            rep = slim(r)
            rep['property'] = prop
            with open(p, 'w') as f:
                json.dump(rep, f, indent=1)
            log('%s:%d: [%s] %s: %s — %s' % (r['file'], r['line'], r['rule'], r['func'], r['construct'], r['detail']))
            log('VIOLATION property=%s replay=%s' % (prop, p))
        return 1
    log('property %s: %d instances hold, %d unknown, %d known findings, %.1fs' % (prop, len(ok), len(unknown), len(knownhits), wall))
    return 0


def slim(r):
    return {k: r[k] for k in ('rule', 'kind', 'file', 'line', 'func', 'obligation', 'construct', 'detail', 'n_instantiations', 'instantiations') if k in r}


def pick_samples(ok, viol, knownhits, unknown):
    out = [r for r, _ in viol][:5] + [r for r, _ in knownhits][:5]
    seen = set()
    for r in ok:
        if r['rule'] not in seen or len(out) < 12:
            if sum(1 for x in out if x['rule'] == r['rule']) < 4:
                out.append(r)
                seen.add(r['rule'])
    return out[:40]


# ------------------------------------------------------------------ main

def main():
    ap = argparse.ArgumentParser()
    ap.add_argument('--property')
    ap.add_argument('--tier', default=None)
    ap.add_argument('--rules')
    ap.add_argument('--root', default='/repo')
    ap.add_argument('--replay')
    ap.add_argument('--dump', action='store_true', help='print every record')
    ap.add_argument('--facts', help='development only: keep/reuse the export in this directory')
    a = ap.parse_args()
    tier = a.tier or os.environ.get('VERIF_TIER') or 'quick'
    if tier not in ('quick', 'thorough'):
        tier = 'quick'
    t0 = time.time()
    global DEV_FACTS
    DEV_FACTS = a.facts
    if not os.path.exists(VLINT):
        log('ANALYSIS-BROKEN tool/vlint is not built (run: make -C tool)')
        return 2
    scratch = tempfile.mkdtemp(prefix='vcheck-')
    try:
        if a.replay:
            with open(a.replay) as f:
                rep = json.load(f)
            prop, rule_names = rep['property'], [rep['rule']]
            records, stats = run_rules(a.root, rule_names, 'quick', scratch)
            sites = [r for r in merge(records) if r['kind'] == 'violation' and site_id(r) == site_id(rep)]
            for r in sites:
                log('%s:%d: [%s] %s: %s — %s' % (r['file'], r['line'], r['rule'], r['func'], r['construct'], r['detail']))
                log('VIOLATION property=%s replay=%s' % (prop, a.replay))
            if not sites:
                log('replay: the reported site no longer violates %s' % rep['rule'])
            return 1 if sites else 0
        if a.rules:
            rule_names = a.rules.split(',')
            records, stats = run_rules(a.root, rule_names, tier, scratch)
            sites = merge(records)
            for r in sites:
                if a.dump or r['kind'] in ('violation', 'broken', 'unknown'):
                    log('%-9s %-10s %s:%d %s | %s | %s' % (r['kind'], r['rule'], r['file'], r['line'], r['func'][-60:], r['construct'][:100], r['detail'][:160]))
            cnt = {}
            for r in sites:
                cnt[(r['rule'], r['kind'])] = cnt.get((r['rule'], r['kind']), 0) + 1
            log(sorted(cnt.items()), '%.1fs' % (time.time() - t0))
            return 1 if any(r['kind'] == 'violation' for r in sites) else 0
        prop = a.property
        if prop not in rules.PROPS:
            log('ANALYSIS-BROKEN unknown or unclaimed property %s' % prop)
            return 2
        rule_names = rules.PROPS[prop]
        records, stats = run_rules(a.root, rule_names, tier, scratch)
        sites = merge(records)
        selftest, extra_broken = None, []
        wsum, wbroken = run_witnesses(rule_names, scratch)
        extra_broken += wbroken
        if tier == 'thorough':
            import selftest as st
            selftest, sbroken = st.run(rule_names, scratch, repo=a.root)
            extra_broken += sbroken
            seeded, s2broken = st.run_seeded(prop, rule_names, scratch, repo=a.root)
            extra_broken += s2broken
            selftest = dict(selftest or {}, seeded_changes=seeded)
            refac, s3broken = st.run_refactors(prop, rule_names, scratch, repo=a.root, site_files={r['file'] for r in sites})
            extra_broken += s3broken
            selftest = dict(selftest, refactorings=refac)
        if wsum:
            selftest = dict(selftest or {}, witnesses=wsum)
        return decide(prop, rule_names, sites, stats, tier, t0, selftest, extra_broken)
    except Broken as e:
        log('ANALYSIS-BROKEN %s' % e)
        return 2
    except Exception as e:  # a crash of the machinery is never a verdict
        import traceback
        log('ANALYSIS-BROKEN internal error: %s' % ''.join(traceback.format_exception_only(type(e), e)).strip()[:300])
        traceback.print_exc(file=sys.stderr)
        return 2
    finally:
        shutil.rmtree(scratch, ignore_errors=True)


if __name__ == '__main__':
    sys.exit(main())
