// vlint — resolved-program exporter for the libvata rule engine.
//
// One libTooling pass over a translation unit. For every non-dependent function
// body whose definition lies under --root (including template instantiations and
// lambda bodies) it writes the type-checked AST (resolved callees, canonical and
// sugared types, evaluated case constants) and clang's CFG (all sub-expressions
// as elements, no EH edges) as one JSON document. It contains no rule logic; the
// rules live in /verif/rules and consume this fact base. Nothing is executed.
#include "clang/AST/ASTConsumer.h"
#include "clang/AST/RecursiveASTVisitor.h"
#include "clang/AST/ASTLambda.h"
#include "clang/Analysis/CFG.h"
#include "clang/Frontend/CompilerInstance.h"
#include "clang/Frontend/FrontendAction.h"
#include "clang/Lex/Lexer.h"
#include "clang/Tooling/CommonOptionsParser.h"
#include "clang/Tooling/Tooling.h"
#include "llvm/Support/CommandLine.h"
#include "llvm/Support/JSON.h"
#include "llvm/Support/raw_ostream.h"
#include <map>
#include <set>
#include <string>
#include <vector>

using namespace clang;
using namespace clang::tooling;
namespace json = llvm::json;

static llvm::cl::OptionCategory Cat("vlint");
static llvm::cl::opt<std::string> OptRoot("root", llvm::cl::desc("source root; only bodies defined below it are exported"), llvm::cl::init("/repo/"), llvm::cl::cat(Cat));
static llvm::cl::opt<std::string> OptOut("out", llvm::cl::desc("output file (JSON)"), llvm::cl::init("-"), llvm::cl::cat(Cat));

namespace {

struct Exporter {
  ASTContext &C;
  SourceManager &SM;
  json::OStream &J;
  PrintingPolicy PP;
  std::map<const Decl *, int> declIds;
  std::map<std::string, int> typeIds;
  std::vector<std::string> types;
  std::map<std::string, int> fileIds;
  std::vector<std::string> files;
  std::map<const Stmt *, int> stmtIds;
  int nextNode = 0;
  unsigned nFuncs = 0, nNodes = 0, nCfgFail = 0;

  Exporter(ASTContext &C, json::OStream &J) : C(C), SM(C.getSourceManager()), J(J), PP(C.getLangOpts()) {
    PP.SuppressTagKeyword = true;
    PP.SuppressUnwrittenScope = true;
    PP.Bool = true;
    PP.TerseOutput = true;
    PP.AnonymousTagLocations = false;
  }

  int declId(const Decl *D) {
    if (!D) return -1;
    D = D->getCanonicalDecl();
    auto it = declIds.find(D);
    if (it != declIds.end()) return it->second;
    int id = (int)declIds.size();
    declIds[D] = id;
    return id;
  }
  int typeId(const std::string &s) {
    auto it = typeIds.find(s);
    if (it != typeIds.end()) return it->second;
    int id = (int)types.size();
    types.push_back(s);
    typeIds[s] = id;
    return id;
  }
  int fileId(const std::string &s) {
    auto it = fileIds.find(s);
    if (it != fileIds.end()) return it->second;
    int id = (int)files.size();
    files.push_back(s);
    fileIds[s] = id;
    return id;
  }
  int canonT(QualType T) { return T.isNull() ? -1 : typeId(T.getCanonicalType().getAsString(PP)); }
  int sugarT(QualType T) { return T.isNull() ? -1 : typeId(T.getAsString(PP)); }

  bool inRoot(SourceLocation L) {
    if (L.isInvalid()) return false;
    auto F = SM.getFilename(SM.getFileLoc(L));
    return F.startswith(OptRoot);
  }

  // plain qualified name: identifiers only, no template arguments
  std::string plainName(const NamedDecl *D) {
    std::vector<std::string> parts;
    parts.push_back(D->getNameAsString());
    for (const DeclContext *DC = D->getDeclContext(); DC; DC = DC->getParent()) {
      if (auto *ND = dyn_cast<NamespaceDecl>(DC)) {
        if (!ND->isAnonymousNamespace() && !ND->isInline()) parts.push_back(ND->getNameAsString());
      } else if (auto *RD = dyn_cast<RecordDecl>(DC)) {
        if (RD->isLambda()) parts.push_back("(lambda)");
        else parts.push_back(RD->getNameAsString());
      } else if (auto *FD = dyn_cast<FunctionDecl>(DC)) {
        parts.push_back(FD->getNameAsString() + "()");
      } else if (auto *ED = dyn_cast<EnumDecl>(DC)) {
        if (ED->isScoped()) parts.push_back(ED->getNameAsString());
      }
    }
    std::string r;
    for (auto it = parts.rbegin(); it != parts.rend(); ++it) {
      if (!r.empty()) r += "::";
      r += *it;
    }
    return r;
  }
  std::string diagName(const NamedDecl *D) {
    std::string s;
    llvm::raw_string_ostream OS(s);
    D->getNameForDiagnostic(OS, PP, true);
    return OS.str();
  }

  void locAttrs(SourceLocation B, SourceLocation E, int curFile) {
    SourceLocation FB = SM.getFileLoc(B), FE = SM.getFileLoc(E);
    if (FB.isInvalid()) return;
    auto DB = SM.getDecomposedLoc(FB);
    unsigned line = SM.getLineNumber(DB.first, DB.second);
    unsigned col = SM.getColumnNumber(DB.first, DB.second);
    J.attributeArray("b", [&] { J.value((int64_t)line); J.value((int64_t)col); });
    unsigned endOff = DB.second;
    if (FE.isValid()) {
      SourceLocation EE = Lexer::getLocForEndOfToken(FE, 0, SM, C.getLangOpts());
      if (EE.isValid()) {
        auto DE = SM.getDecomposedLoc(EE);
        if (DE.first == DB.first && DE.second >= DB.second) endOff = DE.second;
      }
    }
    J.attributeArray("o", [&] { J.value((int64_t)DB.second); J.value((int64_t)endOff); });
    int f = fileId(SM.getFilename(FB).str());
    if (f != curFile) J.attribute("fi", f);
  }

  std::string paramKinds(const FunctionDecl *FD) {
    std::string r;
    for (auto *P : FD->parameters()) {
      QualType T = P->getType();
      if (T->isLValueReferenceType()) r += T->getPointeeType().isConstQualified() ? 'c' : 'r';
      else if (T->isRValueReferenceType()) r += 'm';
      else if (T->isPointerType()) r += T->getPointeeType().isConstQualified() ? 'q' : 'p';
      else r += 'v';
    }
    if (FD->isVariadic()) r += '*';
    return r;
  }

  void calleeAttrs(const FunctionDecl *FD) {
    if (!FD) return;
    J.attribute("q", plainName(FD));
    J.attribute("cd", declId(FD));
    J.attribute("pk", paramKinds(FD));
    if (FD->isNoReturn()) J.attribute("noret", true);
    if (auto *MD = dyn_cast<CXXMethodDecl>(FD)) {
      if (MD->isConst()) J.attribute("const", true);
      if (MD->isStatic()) J.attribute("static", true);
      if (MD->isVirtual()) J.attribute("virt", true);
      J.attribute("rc", canonT(C.getRecordType(MD->getParent())));
    }
    if (FD->isTemplateInstantiation() || FD->getTemplateSpecializationArgs())
      J.attribute("sig", typeId(diagName(FD)));
    if (inRoot(FD->getLocation())) J.attribute("inrepo", true);
  }

  void declRefAttrs(const ValueDecl *D) {
    J.attribute("n", D->getNameAsString());
    J.attribute("d", declId(D));
    const char *dk = "decl";
    if (isa<ParmVarDecl>(D)) dk = "param";
    else if (auto *VD = dyn_cast<VarDecl>(D)) {
      if (VD->isLocalVarDecl()) dk = VD->isStaticLocal() ? "staticlocal" : "local";
      else if (VD->isStaticDataMember()) dk = "staticmember";
      else dk = "global";
      if (!VD->isLocalVarDecl() || VD->getType().isConstQualified()) {
        if (VD->getType()->isIntegralOrEnumerationType()) {
          if (const Expr *I = VD->getAnyInitializer()) {
            Expr::EvalResult R;
            if (!I->isValueDependent() && I->EvaluateAsInt(R, C)) J.attribute("v", R.Val.getInt().getExtValue());
          }
        }
        J.attribute("q", plainName(VD));
      }
    } else if (isa<FunctionDecl>(D)) {
      dk = "func";
      J.attribute("q", plainName(D));
    } else if (auto *EC = dyn_cast<EnumConstantDecl>(D)) {
      dk = "enumconst";
      J.attribute("v", EC->getInitVal().getExtValue());
      J.attribute("q", plainName(D));
    } else if (isa<FieldDecl>(D)) dk = "field";
    else if (isa<BindingDecl>(D)) dk = "binding";
    J.attribute("dk", dk);
  }

  void varDecl(const VarDecl *VD, int curFile, bool withInit = true) {
    J.object([&] {
      J.attribute("d", declId(VD));
      J.attribute("n", VD->getNameAsString());
      J.attribute("t", canonT(VD->getType()));
      J.attribute("ts", sugarT(VD->getType()));
      if (VD->getType()->isReferenceType()) J.attribute("ref", VD->getType()->getPointeeType().isConstQualified() ? "c" : "r");
      if (VD->getType()->isScalarType()) J.attribute("scalar", true);
      if (VD->isStaticLocal()) J.attribute("static", true);
      if (auto *PV = dyn_cast<ParmVarDecl>(VD)) {
        // optional pointer parameter: declared with a null default argument (possibly on an earlier declaration)
        if (PV->hasDefaultArg() && !PV->hasUnparsedDefaultArg() && !PV->hasUninstantiatedDefaultArg()) {
          const Expr *DA = PV->getDefaultArg();
          if (DA && PV->getType()->isPointerType() &&
              DA->isNullPointerConstant(C, Expr::NPC_ValueDependentIsNotNull) != Expr::NPCK_NotNull)
            J.attribute("defnull", true);
        }
      }
      auto DB = SM.getDecomposedLoc(SM.getFileLoc(VD->getLocation()));
      J.attribute("line", (int64_t)SM.getLineNumber(DB.first, DB.second));
      if (VD->hasInit()) {
        J.attribute("hasinit", true);
        if (withInit) {
          J.attributeBegin("init");
          stmt(VD->getInit(), curFile);
          J.attributeEnd();
        }
      }
    });
  }

  void cfg(const Decl *D, const Stmt *Body) {
    CFG::BuildOptions BO;
    BO.setAllAlwaysAdd();
    BO.AddEHEdges = false;
    BO.AddInitializers = true;
    BO.PruneTriviallyFalseEdges = true;
    std::unique_ptr<CFG> G = CFG::buildCFG(D, const_cast<Stmt *>(Body), &C, BO);
    if (!G) {
      nCfgFail++;
      J.attribute("cfg", nullptr);
      return;
    }
    J.attributeObject("cfg", [&] {
      J.attribute("entry", (int64_t)G->getEntry().getBlockID());
      J.attribute("exit", (int64_t)G->getExit().getBlockID());
      J.attributeArray("blocks", [&] {
        for (const CFGBlock *B : *G) {
          J.object([&] {
            J.attribute("id", (int64_t)B->getBlockID());
            J.attributeArray("el", [&] {
              for (const CFGElement &E : *B) {
                const Stmt *S = nullptr;
                if (auto CS = E.getAs<CFGStmt>()) S = CS->getStmt();
                else if (auto CI = E.getAs<CFGInitializer>()) S = CI->getInitializer()->getInit();
                auto it = S ? stmtIds.find(S) : stmtIds.end();
                J.value(it == stmtIds.end() ? (int64_t)-1 : (int64_t)it->second);
              }
            });
            J.attributeArray("succ", [&] {
              for (auto S : B->succs()) {
                if (const CFGBlock *R = S.getReachableBlock()) J.value((int64_t)R->getBlockID());
                else J.value(nullptr);
              }
            });
            if (const Stmt *T = B->getTerminatorStmt()) {
              auto it = stmtIds.find(T);
              J.attribute("term", it == stmtIds.end() ? (int64_t)-1 : (int64_t)it->second);
              J.attribute("termk", T->getStmtClassName());
            }
            if (const Stmt *T = B->getTerminatorCondition()) {
              auto it = stmtIds.find(T);
              J.attribute("cond", it == stmtIds.end() ? (int64_t)-1 : (int64_t)it->second);
            }
            if (const Stmt *L = B->getLabel()) {
              auto it = stmtIds.find(L);
              J.attribute("label", it == stmtIds.end() ? (int64_t)-1 : (int64_t)it->second);
            }
            if (B->hasNoReturnElement()) J.attribute("noret", true);
          });
        }
      });
    });
  }

  void children(const Stmt *S, int curFile) {
    J.attributeArray("ch", [&] {
      // a default member initialiser (`T m_{...};` used by a constructor that does not mention m_) has no child in clang's tree:
      // export the initialiser expression so that rules see what the member is bound to
      if (auto *DI = dyn_cast<CXXDefaultInitExpr>(S)) {
        if (const Expr *E = DI->getExpr()) stmt(E, curFile);
      }
      for (const Stmt *Ch : S->children()) stmt(Ch, curFile);
    });
  }
  void named(const char *name, const Stmt *S, int curFile) {
    J.attributeBegin(name);
    stmt(S, curFile);
    J.attributeEnd();
  }

  void stmt(const Stmt *S, int curFile) {
    if (!S) {
      J.value(nullptr);
      return;
    }
    nNodes++;
    int id = nextNode++;
    stmtIds[S] = id;
    J.object([&] {
      J.attribute("k", S->getStmtClassName());
      J.attribute("i", id);
      locAttrs(S->getBeginLoc(), S->getEndLoc(), curFile);
      if (auto *E = dyn_cast<Expr>(S)) {
        int ct = canonT(E->getType());
        int st = sugarT(E->getType());
        J.attribute("t", ct);
        if (st != ct) J.attribute("ts", st);
        if (E->isLValue()) J.attribute("lv", true);
      }
      // ---- statements with named roles ----
      if (auto *X = dyn_cast<IfStmt>(S)) {
        if (X->getInit()) named("init", X->getInit(), curFile);
        if (X->getConditionVariableDeclStmt()) named("condvar", X->getConditionVariableDeclStmt(), curFile);
        named("c", X->getCond(), curFile);
        named("th", X->getThen(), curFile);
        named("el", X->getElse(), curFile);
        return;
      }
      if (auto *X = dyn_cast<WhileStmt>(S)) {
        if (X->getConditionVariableDeclStmt()) named("condvar", X->getConditionVariableDeclStmt(), curFile);
        named("c", X->getCond(), curFile);
        named("body", X->getBody(), curFile);
        return;
      }
      if (auto *X = dyn_cast<DoStmt>(S)) {
        named("body", X->getBody(), curFile);
        named("c", X->getCond(), curFile);
        return;
      }
      if (auto *X = dyn_cast<ForStmt>(S)) {
        named("init", X->getInit(), curFile);
        if (X->getConditionVariableDeclStmt()) named("condvar", X->getConditionVariableDeclStmt(), curFile);
        named("c", X->getCond(), curFile);
        named("inc", X->getInc(), curFile);
        named("body", X->getBody(), curFile);
        return;
      }
      if (auto *X = dyn_cast<CXXForRangeStmt>(S)) {
        J.attributeBegin("var");
        varDecl(X->getLoopVariable(), curFile, false);
        J.attributeEnd();
        // keep the desugared pieces registered so CFG elements resolve
        named("rangestmt", X->getRangeStmt(), curFile);
        named("beginstmt", X->getBeginStmt(), curFile);
        named("endstmt", X->getEndStmt(), curFile);
        named("c", X->getCond(), curFile);
        named("inc", X->getInc(), curFile);
        named("loopvarstmt", X->getLoopVarStmt(), curFile);
        named("body", X->getBody(), curFile);
        return;
      }
      if (auto *X = dyn_cast<SwitchStmt>(S)) {
        if (X->getInit()) named("init", X->getInit(), curFile);
        named("c", X->getCond(), curFile);
        named("body", X->getBody(), curFile);
        return;
      }
      if (auto *X = dyn_cast<CaseStmt>(S)) {
        if (const Expr *L = X->getLHS()) {
          if (!L->isValueDependent()) {
            Expr::EvalResult R;
            if (L->EvaluateAsInt(R, C)) J.attribute("v", R.Val.getInt().getExtValue());
          }
          named("lhs", L, curFile);
        }
        named("sub", X->getSubStmt(), curFile);
        return;
      }
      if (auto *X = dyn_cast<DefaultStmt>(S)) {
        named("sub", X->getSubStmt(), curFile);
        return;
      }
      if (auto *X = dyn_cast<LabelStmt>(S)) {
        J.attribute("n", X->getName());
        J.attribute("d", declId(X->getDecl()));
        named("sub", X->getSubStmt(), curFile);
        return;
      }
      if (auto *X = dyn_cast<GotoStmt>(S)) {
        J.attribute("n", X->getLabel()->getNameAsString());
        J.attribute("d", declId(X->getLabel()));
        return;
      }
      if (auto *X = dyn_cast<DeclStmt>(S)) {
        J.attributeArray("decls", [&] {
          for (const Decl *D : X->decls()) {
            if (auto *VD = dyn_cast<VarDecl>(D)) varDecl(VD, curFile);
          }
        });
        return;
      }
      if (auto *X = dyn_cast<CXXCatchStmt>(S)) {
        if (X->getExceptionDecl()) {
          J.attributeBegin("var");
          varDecl(X->getExceptionDecl(), curFile);
          J.attributeEnd();
        }
        named("body", X->getHandlerBlock(), curFile);
        return;
      }
      if (auto *X = dyn_cast<LambdaExpr>(S)) {
        const CXXMethodDecl *Op = X->getCallOperator();
        J.attribute("cd", declId(Op));
        J.attributeArray("captures", [&] {
          auto initIt = X->capture_init_begin();
          for (auto &Cap : X->captures()) {
            J.object([&] {
              if (Cap.capturesThis()) J.attribute("this", true);
              else if (Cap.capturesVariable()) {
                J.attribute("n", Cap.getCapturedVar()->getNameAsString());
                J.attribute("d", declId(Cap.getCapturedVar()));
              }
              J.attribute("byref", Cap.getCaptureKind() == LCK_ByRef);
              if (Cap.isImplicit()) J.attribute("implicit", true);
              if (*initIt) {
                J.attributeBegin("init");
                stmt(*initIt, curFile);
                J.attributeEnd();
              }
            });
            ++initIt;
          }
        });
        J.attributeArray("params", [&] {
          for (auto *P : Op->parameters()) varDecl(P, curFile);
        });
        J.attribute("ret", canonT(Op->getReturnType()));
        if (!Op->isDependentContext() && Op->getBody()) {
          named("body", Op->getBody(), curFile);
          cfg(Op, Op->getBody());
        }
        return;
      }
      // ---- expressions ----
      if (auto *X = dyn_cast<DeclRefExpr>(S)) {
        declRefAttrs(X->getDecl());
        return;
      }
      if (auto *X = dyn_cast<MemberExpr>(S)) {
        J.attribute("n", X->getMemberDecl()->getNameAsString());
        J.attribute("d", declId(X->getMemberDecl()));
        if (X->isArrow()) J.attribute("arrow", true);
        if (isa<FieldDecl>(X->getMemberDecl())) J.attribute("dk", "field");
        else if (isa<CXXMethodDecl>(X->getMemberDecl())) J.attribute("dk", "method");
        else if (auto *VD = dyn_cast<VarDecl>(X->getMemberDecl())) {
          J.attribute("dk", "staticmember");
          (void)VD;
        }
        if (auto *RD = dyn_cast<RecordDecl>(X->getMemberDecl()->getDeclContext())) J.attribute("cls", plainName(RD));
        children(S, curFile);
        return;
      }
      if (auto *X = dyn_cast<CXXOperatorCallExpr>(S)) {
        J.attribute("op", getOperatorSpelling(X->getOperator()));
        calleeAttrs(X->getDirectCallee());
        if (isa_and_nonnull<CXXMethodDecl>(X->getDirectCallee())) J.attribute("memberop", true);
        // children: callee expr first, then args (arg0 = object for member operators)
        J.attributeArray("args", [&] {
          for (const Expr *A : X->arguments()) stmt(A, curFile);
        });
        return;
      }
      if (auto *X = dyn_cast<CXXMemberCallExpr>(S)) {
        calleeAttrs(X->getMethodDecl());
        named("obj", X->getImplicitObjectArgument(), curFile);
        J.attributeArray("args", [&] {
          for (const Expr *A : X->arguments()) stmt(A, curFile);
        });
        return;
      }
      if (auto *X = dyn_cast<CallExpr>(S)) {
        calleeAttrs(X->getDirectCallee());
        named("fn", X->getCallee(), curFile);
        J.attributeArray("args", [&] {
          for (const Expr *A : X->arguments()) stmt(A, curFile);
        });
        return;
      }
      if (auto *X = dyn_cast<CXXConstructExpr>(S)) {
        const CXXConstructorDecl *CD = X->getConstructor();
        J.attribute("q", plainName(CD->getParent()));
        J.attribute("cd", declId(CD));
        J.attribute("pk", paramKinds(CD));
        J.attribute("ctor", CD->isCopyConstructor() ? "copy" : CD->isMoveConstructor() ? "move" : CD->isDefaultConstructor() ? "default" : "other");
        if (inRoot(CD->getLocation())) J.attribute("inrepo", true);
        if (isa<CXXTemporaryObjectExpr>(S)) J.attribute("temp", true);
        J.attributeArray("args", [&] {
          for (const Expr *A : X->arguments()) stmt(A, curFile);
        });
        return;
      }
      if (auto *X = dyn_cast<CXXNewExpr>(S)) {
        J.attribute("at", canonT(X->getAllocatedType()));
        if (X->isArray()) J.attribute("array", true);
        children(S, curFile);
        return;
      }
      if (auto *X = dyn_cast<CXXDeleteExpr>(S)) {
        if (X->isArrayForm()) J.attribute("array", true);
        children(S, curFile);
        return;
      }
      if (auto *X = dyn_cast<BinaryOperator>(S)) {
        J.attribute("op", X->getOpcodeStr());
        children(S, curFile);
        return;
      }
      if (auto *X = dyn_cast<UnaryOperator>(S)) {
        J.attribute("op", UnaryOperator::getOpcodeStr(X->getOpcode()));
        if (X->isPostfix()) J.attribute("postfix", true);
        children(S, curFile);
        return;
      }
      if (auto *X = dyn_cast<CastExpr>(S)) {
        J.attribute("ck", X->getCastKindName());
        children(S, curFile);
        return;
      }
      if (auto *X = dyn_cast<IntegerLiteral>(S)) {
        J.attribute("v", (int64_t)X->getValue().getLimitedValue());
        return;
      }
      if (auto *X = dyn_cast<CXXBoolLiteralExpr>(S)) {
        J.attribute("v", X->getValue());
        return;
      }
      if (auto *X = dyn_cast<CharacterLiteral>(S)) {
        J.attribute("v", (int64_t)X->getValue());
        return;
      }
      if (auto *X = dyn_cast<clang::StringLiteral>(S)) {
        if (X->isAscii() || X->isUTF8()) J.attribute("v", X->getString());
        return;
      }
      if (auto *X = dyn_cast<CXXDefaultArgExpr>(S)) {
        J.attribute("defaultarg", true);
        if (const Expr *E = X->getExpr()) {
          E = E->IgnoreParenImpCasts();
          if (auto *B = dyn_cast<CXXBoolLiteralExpr>(E)) J.attribute("dv", B->getValue());
          else if (auto *I = dyn_cast<IntegerLiteral>(E)) J.attribute("dv", (int64_t)I->getValue().getLimitedValue());
        }
        return;
      }
      if (auto *X = dyn_cast<UnaryExprOrTypeTraitExpr>(S)) {
        (void)X;
        return;
      }
      if (auto *X = dyn_cast<CXXTypeidExpr>(S)) {
        (void)X;
        return;
      }
      children(S, curFile);
    });
  }

  void function(const FunctionDecl *F) {
    nFuncs++;
    stmtIds.clear();
    SourceLocation L = SM.getFileLoc(F->getLocation());
    int curFile = fileId(SM.getFilename(L).str());
    J.object([&] {
      J.attribute("q", plainName(F));
      J.attribute("sig", typeId(diagName(F)));
      J.attribute("d", declId(F));
      J.attribute("file", curFile);
      auto DL = SM.getDecomposedLoc(L);
      J.attribute("line", (int64_t)SM.getLineNumber(DL.first, DL.second));
      J.attribute("ret", canonT(F->getReturnType()));
      J.attribute("rets", sugarT(F->getReturnType()));
      if (F->isTemplateInstantiation()) J.attribute("inst", true);
      if (F->isNoReturn()) J.attribute("noret", true);
      if (F->getTemplateSpecializationArgs() || F->isTemplateInstantiation()) {
        // template arguments of the innermost specialisation, printed
      }
      if (auto *MD = dyn_cast<CXXMethodDecl>(F)) {
        J.attribute("cls", plainName(MD->getParent()));
        J.attribute("rc", canonT(C.getRecordType(MD->getParent())));
        J.attribute("rcd", declId(MD->getParent()));
        if (MD->isConst()) J.attribute("const", true);
        if (MD->isStatic()) J.attribute("static", true);
        if (MD->isVirtual()) J.attribute("virt", true);
        J.attribute("access", (int64_t)MD->getAccess());
      }
      if (auto *FPT = F->getType()->getAs<FunctionProtoType>()) {
        // explicit or computed non-throwing specification (noexcept, throw()); dependent specs are not resolved
        if (!isUnresolvedExceptionSpec(FPT->getExceptionSpecType()) && FPT->isNothrow()) J.attribute("nothrow", true);
      }
      if (isa<CXXConstructorDecl>(F)) J.attribute("fk", "ctor");
      else if (isa<CXXDestructorDecl>(F)) J.attribute("fk", "dtor");
      else if (isa<CXXConversionDecl>(F)) J.attribute("fk", "conv");
      J.attributeArray("params", [&] {
        for (auto *P : F->parameters()) varDecl(P, curFile);
      });
      if (auto *CD = dyn_cast<CXXConstructorDecl>(F)) {
        J.attributeArray("inits", [&] {
          for (const CXXCtorInitializer *I : CD->inits()) {
            J.object([&] {
              if (I->isAnyMemberInitializer()) {
                J.attribute("n", I->getAnyMember()->getNameAsString());
                J.attribute("d", declId(I->getAnyMember()));
              } else if (I->isBaseInitializer()) {
                J.attribute("base", canonT(QualType(I->getBaseClass(), 0)));
              } else if (I->isDelegatingInitializer()) J.attribute("delegating", true);
              if (I->isWritten()) J.attribute("written", true);
              J.attributeBegin("init");
              stmt(I->getInit(), curFile);
              J.attributeEnd();
            });
          }
        });
      }
      named("body", F->getBody(), curFile);
      cfg(F, F->getBody());
    });
  }

  void record(const CXXRecordDecl *R) {
    SourceLocation L = SM.getFileLoc(R->getLocation());
    J.object([&] {
      J.attribute("q", plainName(R));
      J.attribute("rc", canonT(C.getRecordType(R)));
      J.attribute("d", declId(R));
      J.attribute("file", fileId(SM.getFilename(L).str()));
      auto DL = SM.getDecomposedLoc(L);
      J.attribute("line", (int64_t)SM.getLineNumber(DL.first, DL.second));
      J.attributeArray("bases", [&] {
        for (auto &B : R->bases()) J.value((int64_t)canonT(B.getType()));
      });
      J.attributeArray("fields", [&] {
        for (auto *F : R->fields()) {
          J.object([&] {
            J.attribute("n", F->getNameAsString());
            J.attribute("d", declId(F));
            J.attribute("t", canonT(F->getType()));
            J.attribute("ts", sugarT(F->getType()));
            auto DF = SM.getDecomposedLoc(SM.getFileLoc(F->getLocation()));
            J.attribute("line", (int64_t)SM.getLineNumber(DF.first, DF.second));
          });
        }
      });
      if (R->hasDefinition()) {
        // which special members the compiler writes itself (not listed among the methods below)
        J.attribute("implcopyctor", !R->hasUserDeclaredCopyConstructor() && !R->hasUserDeclaredMoveOperation());
        J.attribute("implcopyassign", !R->hasUserDeclaredCopyAssignment() && !R->hasUserDeclaredMoveOperation());
      }
      J.attributeArray("methods", [&] {
        for (auto *M : R->methods()) {
          if (M->isImplicit()) continue;
          J.object([&] {
            J.attribute("n", M->getNameAsString());
            J.attribute("d", declId(M));
            if (M->isConst()) J.attribute("const", true);
            if (M->isVirtual()) J.attribute("virt", true);
            J.attribute("access", (int64_t)M->getAccess());
            J.attribute("pk", paramKinds(M));
            if (M->isDeleted()) J.attribute("deleted", true);
            if (M->isDefaulted()) J.attribute("defaulted", true);
            if (auto *CD = dyn_cast<CXXConstructorDecl>(M)) {
              if (CD->isCopyConstructor()) J.attribute("special", "copyctor");
              else if (CD->isMoveConstructor()) J.attribute("special", "movector");
            } else if (M->isCopyAssignmentOperator()) J.attribute("special", "copyassign");
            else if (M->isMoveAssignmentOperator()) J.attribute("special", "moveassign");
            auto *ET = M->getType()->getAs<FunctionProtoType>();
            if (ET && isNoexceptExceptionSpec(ET->getExceptionSpecType())) J.attribute("noexcept", true);
          });
        }
      });
    });
  }
};

struct Collector : RecursiveASTVisitor<Collector> {
  Exporter &X;
  std::vector<const FunctionDecl *> funcs;
  std::vector<const CXXRecordDecl *> records;
  std::set<const Decl *> seen;
  Collector(Exporter &X) : X(X) {}
  bool shouldVisitTemplateInstantiations() const { return true; }
  bool shouldVisitImplicitCode() const { return false; }
  bool shouldVisitLambdaBody() const { return true; }
  bool VisitFunctionDecl(FunctionDecl *F) {
    if (!F->doesThisDeclarationHaveABody() || F->isDependentContext()) return true;
    if (F->isDefaulted() || F->isImplicit() || F->isDeleted()) return true;
    if (!X.inRoot(F->getLocation())) return true;
    if (auto *MD = dyn_cast<CXXMethodDecl>(F))
      if (MD->getParent()->isLambda()) return true;
    if (!F->getBody()) return true;
    if (seen.insert(F).second) funcs.push_back(F);
    return true;
  }
  bool VisitCXXRecordDecl(CXXRecordDecl *R) {
    if (!R->isThisDeclarationADefinition() || R->isDependentContext() || R->isLambda()) return true;
    if (!X.inRoot(R->getLocation())) return true;
    if (seen.insert(R).second) records.push_back(R);
    return true;
  }
};

struct Cons : ASTConsumer {
  void HandleTranslationUnit(ASTContext &C) override {
    if (C.getDiagnostics().hasErrorOccurred()) {
      llvm::errs() << "vlint: parse errors, nothing exported\n";
      return;
    }
    std::error_code EC;
    std::unique_ptr<llvm::raw_fd_ostream> FOS;
    llvm::raw_ostream *OS = &llvm::outs();
    if (OptOut != "-") {
      FOS = std::make_unique<llvm::raw_fd_ostream>(OptOut, EC);
      if (EC) {
        llvm::errs() << "vlint: cannot open " << OptOut << "\n";
        return;
      }
      OS = FOS.get();
    }
    json::OStream J(*OS);
    Exporter X(C, J);
    Collector V(X);
    V.TraverseDecl(C.getTranslationUnitDecl());
    J.object([&] {
      auto &SM = C.getSourceManager();
      J.attribute("unit", SM.getFileEntryForID(SM.getMainFileID())->getName());
      J.attribute("root", OptRoot.getValue());
      J.attributeArray("functions", [&] {
        for (auto *F : V.funcs) X.function(F);
      });
      J.attributeArray("records", [&] {
        for (auto *R : V.records) X.record(R);
      });
      J.attributeArray("types", [&] {
        for (auto &T : X.types) J.value(T);
      });
      J.attributeArray("files", [&] {
        for (auto &F : X.files) J.value(F);
      });
      J.attributeObject("stats", [&] {
        J.attribute("functions", (int64_t)X.nFuncs);
        J.attribute("nodes", (int64_t)X.nNodes);
        J.attribute("cfg_failures", (int64_t)X.nCfgFail);
      });
    });
    *OS << "\n";
  }
};
struct Act : ASTFrontendAction {
  std::unique_ptr<ASTConsumer> CreateASTConsumer(CompilerInstance &, StringRef) override { return std::make_unique<Cons>(); }
};

} // namespace

int main(int argc, const char **argv) {
  auto E = CommonOptionsParser::create(argc, argv, Cat);
  if (!E) {
    llvm::errs() << E.takeError();
    return 2;
  }
  ClangTool T(E->getCompilations(), E->getSourcePathList());
  int rc = T.run(newFrontendActionFactory<Act>().get());
  return rc ? 2 : 0;
}
