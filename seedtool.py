#!/usr/bin/env python3
"""Bookkeeping for seeded breaking changes (never part of a registered check).

  seedtool.py import <prop> <n> [root [as_n]]   copy a delivered, verified seed from <root=/tmp/seeds>/<prop>/<n> to seeded/<prop>-<as_n or n>/
  seedtool.py run [id ...]          apply each seeded patch to /repo, run the property's quick check, undo; write seeded/RESULTS.md
"""
import json, os, shutil, subprocess, sys, re
HERE = os.path.dirname(os.path.abspath(__file__))
SEEDED = os.path.join(HERE, 'seeded')


def imp(prop, n, root='/tmp/seeds', as_n=None):
    src = '%s/%s/%s' % (root, prop, n)
    dst = os.path.join(SEEDED, '%s-%s' % (prop, as_n or n))
    log = open(os.path.join(src, 'verify.log')).read()
    m = re.search(r"RESULT demo_patched_exit=(\d+) demo_clean_exit=(\d+) ctest='(\d+)% tests passed' bu_errors=(\d+)", log)
    if not m:
        sys.exit('no RESULT line in verify.log')
    dp, dc, pct, bu = int(m.group(1)), int(m.group(2)), int(m.group(3)), int(m.group(4))
    ok = dp != 0 and dc == 0 and pct == 80 and bu == 2
    if not ok:
        sys.exit('seed not confirmed: %s' % m.group(0))
    os.makedirs(dst, exist_ok=True)
    for f in os.listdir(src):
        if f in ('verify.log', 'ctest_patched.txt', 'bu_fail_count.txt', 'demo_patched.out', 'demo_clean.out') or os.path.isdir(os.path.join(src, f)):
            continue
        if os.path.getsize(os.path.join(src, f)) > 300000:
            continue
        shutil.copy(os.path.join(src, f), os.path.join(dst, f))
    meta = json.load(open(os.path.join(src, 'meta.json')))
    meta['property'] = prop
    meta['confirmed_by_me'] = {
        'what_i_ran': 'verify_seed.sh: git apply patch.diff in a scratch worktree; cmake --build; ctest; unit_tests/bdd_bu_tree_aut_test; run.sh with the patch; git checkout; rebuild; run.sh without the patch',
        'demo_exit_with_patch': dp, 'demo_exit_without_patch': dc,
        'ctest': '%d%% passed (baseline: 80%%, bdd_bu_tree_aut_test fails with its 2 always-failing cases)' % pct,
        'bdd_bu_failing_cases': bu,
    }
    json.dump(meta, open(os.path.join(dst, 'meta.json'), 'w'), indent=1)
    print('imported', dst)


def run(ids):
    ids = ids or sorted(os.listdir(SEEDED))
    res_path = os.path.join(SEEDED, 'RESULTS.json')
    results = json.load(open(res_path)) if os.path.exists(res_path) else {}
    for sid in ids:
        d = os.path.join(SEEDED, sid)
        if not os.path.exists(os.path.join(d, 'patch.diff')):
            continue
        meta = json.load(open(os.path.join(d, 'meta.json')))
        prop = meta['property']
        if meta.get('superseded'):
            # the change no longer breaks the property on the current tree (a later fix: commit made it harmless); kept for the record
            results[sid] = {'property': prop, 'exit': 0, 'detected': False, 'superseded': meta['superseded'], 'report': []}
            print(sid, prop, 'superseded:', meta['superseded'][:100])
            continue
        assert subprocess.run(['git', '-C', '/repo', 'status', '--porcelain', '--untracked-files=no'], capture_output=True, text=True).stdout.strip() == '', '/repo not clean'
        try:
            subprocess.run(['git', '-C', '/repo', 'apply', os.path.join(d, 'patch.diff')], check=True)
            r = subprocess.run([sys.executable, os.path.join(HERE, 'vcheck.py'), '--property', prop, '--tier', 'quick'], capture_output=True, text=True, cwd=HERE)
        finally:
            subprocess.run(['git', '-C', '/repo', 'checkout', '--', '.'], check=True)
        lines = [l for l in r.stdout.splitlines() if l.startswith(('VIOLATION', 'ANALYSIS-BROKEN')) or '[' in l and ']' in l and ':' in l and not l.startswith('rule')]
        results[sid] = {'property': prop, 'exit': r.returncode, 'detected': r.returncode == 1,
                        'report': [l for l in r.stdout.splitlines() if not l.startswith(('rule ', 'property ', 'KNOWN-FINDING'))][:8]}
        print(sid, prop, 'exit', r.returncode, 'DETECTED' if r.returncode == 1 else ('BROKEN' if r.returncode == 2 else 'missed'))
        for l in results[sid]['report'][:4]:
            print('    ', l[:220])
    json.dump(results, open(res_path, 'w'), indent=1)
    with open(os.path.join(SEEDED, 'RESULTS.md'), 'w') as f:
        f.write('# Seeded breaking changes vs. the registered quick checks\n\n| seed | property | verdict | first report line |\n|---|---|---|---|\n')
        for sid in sorted(results):
            x = results[sid]
            f.write('| %s | %s | %s | %s |\n' % (sid, x['property'], 'detected' if x['detected'] else ('superseded' if x.get('superseded') else ('analysis-broken' if x['exit'] == 2 else 'missed')), (x['superseded'][:160] if x.get('superseded') else x['report'][0][:160].replace('|', '/') if x['report'] else '')))


if __name__ == '__main__':
    if sys.argv[1] == 'import':
        imp(*sys.argv[2:])
    else:
        run(sys.argv[2:])
