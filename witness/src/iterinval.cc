// Witness for ITERINVAL: positive_* must be reported, negative_* must not.
#include <unordered_set>
#include <vector>
#include <list>
#include <set>

void positive_insert_unordered(std::unordered_set<int>& s)
{
	for (auto& x : s) { if (x % 2) { s.insert(x + 1); } }
}

void positive_push_vector(std::vector<int>& v)
{
	for (auto it = v.begin(); it != v.end(); ++it) { if (*it == 0) { v.push_back(1); } }
}

void positive_erase_rangefor(std::set<int>& s)
{
	for (auto& x : s) { if (x == 3) { s.erase(x); } }
}

void negative_list_erase_saved(std::list<int>& l)
{
	for (auto j = l.begin(); j != l.end(); ) { auto k = j++; if (*k == 1) { l.erase(k); } }
}

void negative_erase_assign(std::vector<int>& v)
{
	for (auto i = v.begin(); i != v.end(); ) { if (*i == 0) i = v.erase(i); else ++i; }
}

void negative_insert_set(std::set<int>& s)
{
	for (auto& x : s) { if (x > 100) { s.insert(x - 100); } }
}

void negative_other_container(const std::unordered_set<int>& s, std::unordered_set<int>& t)
{
	for (auto& x : s) { t.insert(x); }
}
