// witness for LOOPBOUND: positive_* must be reported, negative_* must not
#include <vector>
#include <cstddef>
int positive_skips_last(std::vector<int> &v) {
  int s = 0;
  for (std::size_t i = 0; i + 1 < v.size(); ++i) s += v[i];   // never looks at v[i + 1]
  return s;
}
int negative_adjacent_pairs(std::vector<int> &v) {
  int s = 0;
  for (std::size_t i = 0; i + 1 < v.size(); ++i) s += v[i] * v[i + 1];
  return s;
}
int negative_plain(std::vector<int> &v) {
  int s = 0;
  for (std::size_t i = 0; i < v.size(); ++i) s += v[i];
  return s;
}
