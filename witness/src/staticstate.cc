// Witness for STATICSTATE: positive_* must be reported, negative_* must not.
#include <map>
#include <string>
int positive_scratch_map(int k)
{
	static thread_local std::map<int, int> scratch;
	return scratch[k]++;
}
int positive_counter()
{
	static int calls = 0;
	return ++calls;
}
int negative_const_table(int i)
{
	static const int table[] = { 1, 2, 3 };
	static const char* const blanks = " \t";
	return table[i % 3] + blanks[0];
}
