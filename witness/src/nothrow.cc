// Witness for NOTHROW: positive_* must be reported, negative_* must not.
#include <stdexcept>
#include <string>

static int helper_throwing(const std::string& s)
{
	if (s.empty()) { throw std::invalid_argument("empty"); }
	return static_cast<int>(s.size());
}

static int helper_quiet(const std::string& s) { return static_cast<int>(s.size()); }

int positive_direct(const std::string& s) noexcept
{
	if (s.empty()) { throw std::runtime_error("x"); }
	return 0;
}

int positive_via_callee(const std::string& s) noexcept
{
	return helper_throwing(s) + 1;
}

int positive_std_thrower(const std::string& s) noexcept
{
	return s.at(3);
}

int negative_quiet(const std::string& s) noexcept
{
	return helper_quiet(s);
}

int negative_handled(const std::string& s) noexcept
{
	try { return helper_throwing(s); }
	catch (...) { return -1; }
}

int negative_may_throw(const std::string& s)
{
	return helper_throwing(s);
}
