// witness for TUPLEPOS: positive_* must be reported, negative_* must not
#include <vector>
#include <algorithm>
#include <iterator>
#include <cstddef>
typedef std::vector<unsigned long> StateTuple;
StateTuple positive_siblings_by_value(const StateTuple &children, std::size_t index) {
  StateTuple r;
  std::remove_copy(children.begin(), children.end(), std::back_inserter(r), children[index]);
  return r;
}
StateTuple negative_siblings_by_position(const StateTuple &children, std::size_t index) {
  StateTuple r;
  r.insert(r.end(), children.begin(), children.begin() + index);
  r.insert(r.end(), children.begin() + index + 1, children.end());
  return r;
}
bool positive_same_tuple_positions(const StateTuple &children, std::size_t index) {
  for (std::size_t i = 0; i < index; ++i) {
    if (children[i] == children[index]) { return false; }
  }
  return true;
}
bool negative_two_tuples_same_position(const StateTuple &a, const StateTuple &b, std::size_t i) {
  return a[i] == b[i];
}
std::size_t positive_first_position_only(const StateTuple &children, unsigned long state) {
  auto it = std::find(children.begin(), children.end(), state);
  if (it == children.end()) { return children.size(); }
  return static_cast<std::size_t>(it - children.begin());
}
bool negative_membership(const StateTuple &children, unsigned long state) {
  auto it = std::find(children.begin(), children.end(), state);
  return it != children.end() || std::find(children.begin(), children.end(), state + 1) != children.end();
}
