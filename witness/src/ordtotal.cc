// Witness for ORDTOTAL (lex clause): positive_* must be reported, negative_* must not.
#include <vector>
#include <memory>
typedef std::shared_ptr<std::vector<unsigned long>> TuplePtr;
struct positive_unguarded_second_key
{
	bool operator()(const TuplePtr& lhs, const TuplePtr& rhs) const
	{
		return (lhs->size() < rhs->size()) || (*lhs < *rhs);
	}
};
struct negative_guarded_second_key
{
	bool operator()(const TuplePtr& lhs, const TuplePtr& rhs) const
	{
		return (lhs->size() < rhs->size()) || ((lhs->size() == rhs->size()) && (*lhs < *rhs));
	}
};
bool use_them(const TuplePtr& a, const TuplePtr& b)
{
	return positive_unguarded_second_key()(a, b) || negative_guarded_second_key()(a, b);
}
