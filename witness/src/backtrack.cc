// Witness for BACKTRACK: positive_* must be reported, negative_* must not.
#include <vector>
#include <string>

struct Node { Node* lo; Node* hi; int var; };

void positive_state_by_ref(std::vector<std::string>& out, std::string& path, const Node* n)
{
	if (!n) { out.push_back(path); return; }
	path.resize(n->var + 1, 'X');
	path[n->var] = '0';
	positive_state_by_ref(out, path, n->lo);
	path[n->var] = '1';
	positive_state_by_ref(out, path, n->hi);
}

void negative_state_by_value(std::vector<std::string>& out, std::string path, const Node* n)
{
	if (!n) { out.push_back(path); return; }
	path.resize(n->var + 1, 'X');
	path[n->var] = '0';
	negative_state_by_value(out, path, n->lo);
	path[n->var] = '1';
	negative_state_by_value(out, path, n->hi);
}

void negative_accumulator_only(std::vector<int>& out, const Node* n)
{
	if (!n) { return; }
	out.push_back(n->var);
	negative_accumulator_only(out, n->lo);
	negative_accumulator_only(out, n->hi);
}
