// witness for SIZEEQ: positive_* must be reported, negative_* must not
#include <map>
#include <set>
#include <memory>
struct Aut {
  std::shared_ptr<std::map<int, int>> transitions_;
  std::set<int> finals_;
  Aut positive_sizes_only() const {
    std::set<int> reach(finals_);
    for (auto &kv : *transitions_) if (kv.second > 0) reach.insert(kv.second);
    if (reach.size() == transitions_->size()) return *this;   // cardinality is not equality
    Aut r; r.finals_ = finals_; r.transitions_.reset(new std::map<int, int>());
    return r;
  }
  Aut negative_membership() const {
    std::set<int> reach(finals_);
    bool all = true;
    for (auto &kv : *transitions_) if (!reach.count(kv.first)) { all = false; break; }
    if (all) return *this;
    Aut r; r.finals_ = finals_; r.transitions_.reset(new std::map<int, int>());
    return r;
  }
};
int use(const Aut &a) { return (int)a.positive_sizes_only().finals_.size() + (int)a.negative_membership().finals_.size(); }
