// Witness for SAMELEN: positive_* must be reported, negative_* must not.
#include <vector>
#include <cstddef>
typedef std::vector<unsigned long> StateTuple;
bool positive_prefix_match(const StateTuple& lhsTuple, const StateTuple& rhsTuple, unsigned long a, unsigned long b)
{
	const size_t arity = lhsTuple.size();
	if (rhsTuple.size() < arity)
	{
		return false;
	}
	for (size_t i = 0; i < arity; ++i)
	{
		if (lhsTuple[i] == a && rhsTuple[i] == b)
			return true;
	}
	return false;
}
bool negative_equal_length(const StateTuple& lhsTuple, const StateTuple& rhsTuple, unsigned long a, unsigned long b)
{
	if (rhsTuple.size() != lhsTuple.size())
	{
		return false;
	}
	for (size_t i = 0; i < lhsTuple.size(); ++i)
	{
		if (lhsTuple[i] == a && rhsTuple[i] == b)
			return true;
	}
	return false;
}
