// Witness for USEMOVE: positive_* must be reported, negative_* must not.
#include <set>
#include <vector>
#include <utility>

int positive_swapout_then_read(const std::vector<int>& in, std::set<int>* out)
{
	std::set<int> seen;
	for (int x : in) { seen.insert(x); }
	if (out != nullptr) { out->swap(seen); }
	int n = 0;
	for (int x : in) { if (seen.count(x)) { ++n; } }
	return n;
}

int positive_move_then_read(std::vector<int>& sink, const std::vector<int>& in)
{
	std::vector<int> tmp(in);
	sink = std::move(tmp);
	return static_cast<int>(tmp.size());
}

int negative_swapout_last(const std::vector<int>& in, std::set<int>* out)
{
	std::set<int> seen;
	int n = 0;
	for (int x : in) { if (seen.insert(x).second) { ++n; } }
	if (out != nullptr) { out->swap(seen); }
	return n;
}

void negative_swap_two_locals(std::vector<int>& v)
{
	std::vector<int> a(v), b;
	a.swap(b);
	v = b;
}
