// Witness for SHAREID: positive_* must be reported, negative_* must not.
#include <memory>
#include <map>
#include <set>
struct Aut
{
	std::shared_ptr<std::map<int, int>> transitions_;
	std::set<int> finalStates_;
};
Aut positive_shared_shortcut(const Aut& lhs, const Aut& rhs)
{
	if (lhs.transitions_ == rhs.transitions_)
	{
		return lhs;
	}
	Aut res;
	return res;
}
bool positive_raw_pointer(const Aut& lhs, const Aut& rhs)
{
	return (lhs.transitions_.get() != rhs.transitions_.get()) ? false : true;
}
bool negative_null_test(const Aut& lhs)
{
	if (lhs.transitions_ == nullptr)
	{
		return false;
	}
	return true;
}
bool negative_content(const Aut& lhs, const Aut& rhs)
{
	if (*lhs.transitions_ == *rhs.transitions_ && lhs.finalStates_ == rhs.finalStates_)
	{
		return true;
	}
	return false;
}
