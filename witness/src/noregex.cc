// Witness for NOREGEX: positive_* must be reported, negative_* must not.
#include <regex>
#include <string>
#include <cctype>
bool positive_regex_token(const std::string& s)
{
	static const std::regex re("[^\\s(),]+");
	return std::regex_match(s, re);
}
bool positive_regex_search(const std::string& s)
{
	std::smatch m;
	return std::regex_search(s, m, std::regex("->"));
}
bool negative_scanner(const std::string& s)
{
	for (char c : s)
	{
		if (std::isspace(static_cast<unsigned char>(c)) || c == '(' || c == ')' || c == ',')
			return false;
	}
	return !s.empty();
}
