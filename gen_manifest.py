#!/usr/bin/env python3
"""Writes MANIFEST.json from rules.PROPS and the per-property texts in rules/claims.py."""
import json, os, sys
HERE = os.path.dirname(os.path.abspath(__file__))
sys.path.insert(0, HERE)
import rules
from rules import claims

checks = []
for pid in sorted(rules.PROPS):
    c = claims.CLAIMS[pid]
    checks.append({
        'property_id': pid,
        'quick_cmd': 'python3 vcheck.py --property %s --tier quick' % pid,
        'thorough_cmd': 'python3 vcheck.py --property %s --tier thorough' % pid,
        'evidence_file': 'evidence/%s.json' % pid,
        'replay_cmd_template': 'python3 vcheck.py --replay {path}',
        'engine': 'vlint+rules',
        'level_claimed': {'category': 'other', 'text': claims.full_text(pid, rules.PROPS[pid]), 'design_ref': 'DESIGN.md sections 3 and 4 (%s)' % pid},
        'level_note': c['note'],
        'technique': 'static analysis: custom rules (%s) over the type-checked clang AST and CFG of every instantiated function body' % ', '.join(rules.PROPS[pid]),
    })
na = [{'property_id': p, 'reason': r} for p, r in sorted(claims.NOT_APPLICABLE.items()) if p not in rules.PROPS]
m = {
    'version': 1,
    'setup_cmd': 'make -C tool',
    'hooks': {'guard': 'ONDRIK_LIBVATA_VERIF', 'enable': 'no hooks: the analysis reads the unmodified sources (nothing in /repo is guarded by the define)',
              'baseline_off_cmd': 'cmake --build /repo/_build && ctest --test-dir /repo/_build -j8 --timeout 900',
              'source_commits': [], 'add_only': True},
    'engines': [{'name': 'vlint+rules', 'path': 'vcheck.py', 'serves_properties': sorted(rules.PROPS),
                 'kind_free_text': 'libTooling exporter of the resolved AST/CFG (tool/vlint.cc) + repository-specific static rules (rules/*.py); nothing is executed'}],
    'checks': checks,
    'not_applicable': na,
    'notes': 'exit 0 = all resolved rule instances hold; exit 1 = VIOLATION; exit 2 = analysis broken (anchor lost / floor missed / parse error). Fixed defects are listed in known_findings.json.',
}
json.dump(m, open(os.path.join(HERE, 'MANIFEST.json'), 'w'), indent=1)
print('checks:', [c['property_id'] for c in checks], 'not_applicable:', [x['property_id'] for x in na])
